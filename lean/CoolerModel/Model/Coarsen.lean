import CoolerModel.Model.GroupSum
import CoolerModel.Model.Bins
import CoolerModel.Model.Merge
/-!
Model of `_reduce.CoolerCoarsener` / `coarsen_cooler` (property C08, reused by C09):

* `coarsenGroup`, `coarsenBins`      — `CoolerCoarsener.coarsen_bins` (`iloc[::k]`, `iloc[k-1::k]`, chromsize appended)
* `coarsenEdges`                     — `__init__`: per chromosome `bin1_offset[c0:c1:k]`, then `bin1_offset[-1]`
* `greedyPrune`, `validPrunedEdges`  — `_greedy_prune_partition` (a FREE unit) and its contract
* `mkSeg`, `rebin`, `rebinId`        — `GenomeSegmentation(chromsizes, new_bins)` and the re-binning of `_aggregate`
* `aggregateSpan`, `coarsenStream`   — `_aggregate`, `__iter__` (the chunk stream handed to `create`)
* `coarsenIter`                      — `__iter__` with its batches and an arbitrary `map`
* L0: `coarsenGroupSpec`, `coarsenBinsSpec`, `cmap`, `coarsenSpec`

The per-chromosome view `bins.groupby("chrom")` is `groups bins` (Model/Bins.lean); on a stored table
(chromosome ids ascending) pandas' sorted group order and `groups`' first-appearance order coincide.
-/
namespace Cooler.Coarsen
open Cooler

/-! ### python slicing -/

/-- `l[a::k]` — the elements at positions `a, a+k, a+2k, … < len(l)`.  The index is in range for every
`m` of the range (`Props/C08.strided_index_lt`); `default` is never observed. -/
def strided {α : Type} [Inhabited α] (a k : Nat) (l : List α) : List α :=
  (List.range (ceilDiv (l.length - a) k)).map fun m => l.getD (a + m * k) default

/-! ### the new bin table (`coarsen_bins`) -/

/-- `_each(group)`: starts `iloc[::k]`, ends `iloc[k-1::k]`; one end short ⇒ the chromosome length is
appended; `out["end"] = end` pairs them positionally -/
def coarsenGroup (k clen : Nat) (g : List Bin) : List Bin :=
  let out := strided 0 k g
  let ends := (strided (k - 1) k g).map Bin.stop
  let ends' := if ends.length < out.length then ends ++ [clen] else ends
  List.zipWith (fun b e => (⟨b.chrom, b.start, e⟩ : Bin)) out ends'

/-- chromosome id of a group (`group.name`) -/
def groupChrom (g : List Bin) : Nat := (g.head?.map Bin.chrom).getD 0

/-- `coarsen_bins(old_bins, chromsizes, factor)`; `lens[c]` is `chromsizes[name of c]` -/
def coarsenGroups (k : Nat) (lens : List Nat) (gs : List (List Bin)) : List (List Bin) :=
  gs.map fun g => coarsenGroup k (lens.getD (groupChrom g) 0) g

def coarsenBins (k : Nat) (lens : List Nat) (bins : BinTable) : BinTable :=
  (coarsenGroups k lens (groups bins)).flatten

/-- L0, one chromosome: new bin `m` is `[start of old bin m·k, end of old bin min((m+1)·k, n) − 1)`, i.e. the
union of the old bins `m·k … min((m+1)·k, n) − 1`; there are `⌈n/k⌉` of them -/
def coarsenGroupSpec (k : Nat) (g : List Bin) : List Bin :=
  (List.range (ceilDiv g.length k)).map fun m =>
    (⟨(g.getD (m * k) default).chrom, (g.getD (m * k) default).start,
      (g.getD (min ((m + 1) * k) g.length - 1) default).stop⟩ : Bin)

def coarsenGroupsSpec (k : Nat) (gs : List (List Bin)) : List (List Bin) := gs.map (coarsenGroupSpec k)

def coarsenBinsSpec (k : Nat) (bins : BinTable) : BinTable := (coarsenGroupsSpec k (groups bins)).flatten

/-! ### old bin id ↦ new bin id -/

/-- over the per-chromosome bin counts: inside a chromosome `x ↦ x / k`, shifted by the number of coarse
bins `⌈n/k⌉` of every preceding chromosome (closed form: `C08.cmap_closed_form`) -/
def cmapCounts (k : Nat) : List Nat → Nat → Nat
  | [], x => x
  | n :: rest, x => if x < n then x / k else ceilDiv n k + cmapCounts k rest (x - n)

def cmapG (k : Nat) (gs : List (List Bin)) (x : Nat) : Nat := cmapCounts k (gs.map List.length) x

def cmap (k : Nat) (bins : BinTable) (x : Nat) : Nat := cmapG k (groups bins) x

/-- L0: every old pixel relabelled by `cmap`, then one record per new key carrying the sum -/
def coarsenSpecG (k : Nat) (gs : List (List Bin)) (px : Pixels) : Pixels :=
  groupSum (px.map (rekey (cmapG k gs)))

def coarsenSpec (k : Nat) (bins : BinTable) (px : Pixels) : Pixels := coarsenSpecG k (groups bins) px

/-! ### span edges (`CoolerCoarsener.__init__`) -/

/-- `np.r_[0, np.cumsum(xs)]` -/
def prefixSumsFrom (acc : Nat) : List Nat → List Nat
  | [] => [acc]
  | x :: rest => acc :: prefixSumsFrom (acc + x) rest

def prefixSums (xs : List Nat) : List Nat := prefixSumsFrom 0 xs

/-- for every chromosome `i` (all of `chromsizes`): `bin1_offset[c0:c1:k]` with `c0, c1 =
chrom_offset[i], chrom_offset[i+1]` (numpy clips `c1` to the array length), then `bin1_offset[-1]` -/
def coarsenEdges (k : Nat) (chromOffs b1 : List Nat) : List Nat :=
  ((List.range (chromOffs.length - 1)).flatMap fun i =>
      let c0 := chromOffs.getD i 0
      let c1 := min (chromOffs.getD (i + 1) 0) b1.length
      (List.range (ceilDiv (c1 - c0) k)).map fun m => b1.getD (c0 + m * k) 0)
    ++ [b1.getLast?.getD 0]

/-! ### `_greedy_prune_partition` -/

/-- `np.r_[0, np.cumsum(np.diff(edges))]`, carried accumulator (for non-decreasing edges, which offsets
always are, the differences are non-negative; the model is stated for those) -/
def cumlenFrom (acc : Nat) : List Nat → List Nat
  | [] => [acc]
  | [_] => [acc]
  | a :: b :: rest => acc :: cumlenFrom (acc + (b - a)) (b :: rest)

/-- insertion into a strictly increasing list (no duplicates) -/
def insertU (x : Nat) : List Nat → List Nat
  | [] => [x]
  | y :: rest => if x < y then x :: y :: rest else if x = y then y :: rest else y :: insertU x rest

/-- `np.unique`: sorted distinct values -/
def uniq (l : List Nat) : List Nat := l.foldr insertU []

/-- `_greedy_prune_partition(edges, maxlen)` -/
def greedyPrune (edges : List Nat) (maxlen : Nat) : List Nat :=
  let cumlen := cumlenFrom 0 edges
  let tot := cumlen.getLast?.getD 0
  let cuts := (List.range (ceilDiv tot maxlen)).map (fun i => maxlen * i) ++ [tot]
  let idx := uniq (cuts.map (ssLeft cumlen))
  idx.map fun i => edges.getD i 0

/-- contract of the pruned partition (a free unit): starts at 0, strictly increasing, ends at the last
edge (`nnz`), and every element is one of the given edges (so no cut falls inside a coarse row).  With
`nnz = 0` the only valid output is `[0]` (no span at all). -/
def validPrunedEdges (edges out : List Nat) : Bool :=
  match out with
  | [] => false
  | p0 :: rest =>
    decide (p0 = 0) && Merge.chainIncr p0 rest &&
      decide ((p0 :: rest).getLast?.getD 0 = edges.getLast?.getD 0) &&
      (p0 :: rest).all (fun e => edges.contains e)

/-! ### re-binning through the new table's `GenomeSegmentation` -/

/-- the parts of `GenomeSegmentation(chromsizes, new_bins)` that `_aggregate` reads -/
structure Seg where
  binsize : Option Nat
  chromBinoffset : List Nat
  chromAbspos : List Nat
  startAbspos : List Nat
deriving Repr

def mkSeg (lens : List Nat) (newBins : BinTable) : Seg :=
  let abspos := prefixSums lens
  { binsize := getBinsize newBins
    chromBinoffset := prefixSums ((groups newBins).map List.length)
    chromAbspos := abspos
    startAbspos := newBins.map fun b => abspos.getD b.chrom 0 + b.start }

/-- new bin id of the position `(chrom, start)`: fixed path `chrom_binoffset[chrom] + floor(start / binsize)`,
variable path `searchsorted(start_abspos, chrom_abspos[chrom] + start, side="right") - 1` -/
def rebin (seg : Seg) (chrom start : Nat) : Nat :=
  match seg.binsize with
  | some b => seg.chromBinoffset.getD chrom 0 + start / b
  | none => ssRight seg.startAbspos (seg.chromAbspos.getD chrom 0 + start) - 1

/-- new id of an old bin id: join with the OLD bin table (`pixels(join=True)`), re-bin its start.
Ids outside the table do not occur in a stored cooler (every theorem assumes `InRange`). -/
def rebinId (seg : Seg) (oldBins : BinTable) (i : Nat) : Nat :=
  match oldBins[i]? with
  | some b => rebin seg b.chrom b.start
  | none => i

/-! ### aggregation of one span, the stream -/

/-- `zip(edges[:-1], edges[1:])` -/
def spansOf (es : List Nat) : List (Nat × Nat) := es.zip es.tail

/-- `_aggregate((lo, hi))`: pixels `[lo, hi)` by position, both ids re-binned, group-by-sum sorted by key -/
def aggregateSpan (rb : Nat → Nat) (px : Pixels) (s : Nat × Nat) : Pixels :=
  groupSum ((slicePx px s.1 s.2).map (rekey rb))

/-- the chunk stream of `CoolerCoarsener.__iter__` for the (pruned) edges `es`, sequential `map` -/
def coarsenStream (rb : Nat → Nat) (px : Pixels) (es : List Nat) : List Pixels :=
  (spansOf es).map (aggregateSpan rb px)

/-- `spans[i : i + batchsize] for i in range(0, len(spans), batchsize)` (fuel = number of spans) -/
def batchesAux {α : Type} (b : Nat) : Nat → List α → List (List α)
  | 0, _ => []
  | fuel + 1, l => if l = [] then [] else l.take b :: batchesAux b fuel (l.drop b)

def batches {α : Type} (b : Nat) (l : List α) : List (List α) := batchesAux b l.length l

/-- `__iter__` with batch size `b` (= nproc) and an arbitrary map functor `mapf` -/
def coarsenIter (mapf : ((Nat × Nat) → Pixels) → List (Nat × Nat) → List Pixels)
    (b : Nat) (rb : Nat → Nat) (px : Pixels) (es : List Nat) : List Pixels :=
  (batches b (spansOf es)).flatMap fun batch => mapf (aggregateSpan rb px) batch

/-- `coarsen_cooler` on the tables: new bins and the concatenated pixel stream (what `create` stores) -/
def coarsen (k chunksize : Nat) (lens : List Nat) (bins : BinTable) (px : Pixels) : BinTable × Pixels :=
  let newBins := coarsenBins k lens bins
  let seg := mkSeg lens newBins
  let nchroms := lens.length
  let edges := coarsenEdges k (chromOffsets bins nchroms) (csrIndex px bins.length)
  let es := greedyPrune edges chunksize
  (newBins, (coarsenStream (rebinId seg bins) px es).flatten)

/-! ### well-formed per-chromosome view -/

/-- group `c` is a valid tiling of chromosome `c` and carries chromosome id `c` -/
def WF (gs : List (List Bin)) : Prop :=
  ∀ (c : Nat) (h : c < gs.length), ValidChrom gs[c] ∧ ∀ x ∈ gs[c], x.chrom = c

def wfFrom : Nat → List (List Bin) → Bool
  | _, [] => true
  | c, g :: rest => decide (ValidChrom g) && g.all (fun x => x.chrom == c) && wfFrom (c + 1) rest

def wfB (gs : List (List Bin)) : Bool := wfFrom 0 gs

end Cooler.Coarsen
