import CoolerModel.Model.Bins
/-!
Model of the record-binning layer of `cooler/create/_ingest.py`:
`_sanitize_records` (pairs and bg2 text records → bin ids), `_sanitize_pixels` (pre-binned COO
records), `aggregate_records` (group by pixel, count / sum) and `TabixAggregator.aggregate`.
Property C05.

The model is of the code **as it is now**: in particular the bounds check is `anchor > chromsize`
(known finding D13), so a zero-based position equal to the chromosome length passes validation.
The L0 specification (`binOf`, `specCounts`) at the end of the file is what the property promises.

Conventions
* chromosome names are already decoded: `some c` = the record's chromosome is the `c`-th contig of
  the bin table (`pd.Categorical(…, gs.contigs).codes`), `none` = code −1 (not in the table);
* every column other than chrom/anchor is an integer column: `x1`/`x2` are the extra *paired*
  columns (`end1`/`end2`, `strand1`/`strand2`, …) and `u` the unpaired ones (`count`, …);
* `chrom_abspos[c] + pos` is compared with `start_abspos[lo:hi] = chrom_abspos[c] + start`:
  the common summand cancels, so the model searches the chromosome's own starts.
-/
namespace Cooler.Sanitize
open Cooler

/-! ### keys and their order -/

/-- a pixel key `(bin1_id, bin2_id)`; signed because nothing in `_sanitize_*` forces ids ≥ 0 when
validation is off -/
abbrev Key := Int × Int

/-- lexicographic order on keys -/
def klt (a b : Key) : Prop := a.1 < b.1 ∨ (a.1 = b.1 ∧ a.2 < b.2)

instance : DecidableRel klt := fun a b => by unfold klt; exact inferInstance

def kle (a b : Key) : Bool := decide (a.1 < b.1 ∨ (a.1 = b.1 ∧ a.2 ≤ b.2))

/-! ### options and records -/

inductive Tril
  | reflect | drop | raise
  | keep    -- `tril_action=None`
  | bogus   -- any other value: `ValueError` when a lower-triangle record is met
deriving DecidableEq, Repr, Inhabited

structure Opts where
  oneBased : Bool := false
  tril : Tril := .reflect
  validate : Bool := true
  sort : Bool := false
  /-- is the chromosome column pair listed in `sided_fields` -/
  sidedChrom : Bool := true
  /-- is the anchor column pair (`pos` / `start`) listed in `sided_fields` -/
  sidedAnchor : Bool := true
  /-- for each extra paired column: is it listed in `sided_fields` -/
  sidedExtra : List Bool := []
deriving Repr, Inhabited

/-- one input record -/
structure Rec where
  c1 : Option Nat
  p1 : Int
  c2 : Option Nat
  p2 : Int
  x1 : List Int := []
  x2 : List Int := []
  u : List Int := []
deriving DecidableEq, Repr, Inhabited

/-- the same record with both positions lowered by one -/
def Rec.shiftDown (r : Rec) : Rec := { r with p1 := r.p1 - 1, p2 := r.p2 - 1 }

/-- working state of one retained record: integer chromosome ids and zero-based anchors
(`chrom1_ids`, `anchor1`, …: arrays separate from the frame) and the frame's own columns -/
structure Row where
  c1 : Nat
  a1 : Int
  c2 : Nat
  a2 : Int
  fc1 : Nat
  fp1 : Int
  fc2 : Nat
  fp2 : Int
  x1 : List Int
  x2 : List Int
  u : List Int
deriving DecidableEq, Repr, Inhabited

/-- one output row: the frame columns plus `bin1_id`, `bin2_id` -/
structure Out where
  r : Row
  bin1 : Int
  bin2 : Int
deriving DecidableEq, Repr, Inhabited

def Out.key (o : Out) : Key := (o.bin1, o.bin2)

/-- the value column aggregated besides the count: the first unpaired column (0 when there is none) -/
def firstVal (u : List Int) : Int := match u with | [] => 0 | v :: _ => v

def Out.val (o : Out) : Int := firstVal o.r.u

/-! ### `_sanitize_records` -/

/-- chromosome decoding, dropping of records with an unknown side, one-based shift
(`to_drop = (chrom1_ids < 0) | (chrom2_ids < 0)`; `anchor -= 1` on a copy: the frame keeps the
original positions) -/
def decode (o : Opts) (r : Rec) : Option Row :=
  match r.c1, r.c2 with
  | some a, some b =>
    let d : Int := if o.oneBased then 1 else 0
    some { c1 := a, a1 := r.p1 - d, c2 := b, a2 := r.p2 - d,
           fc1 := a, fp1 := r.p1, fc2 := b, fp2 := r.p2, x1 := r.x1, x2 := r.x2, u := r.u }
  | _, _ => none

/-- `gs.chromsizes[c]`, which `sanitize_records` derives from the bin table (`get_chromsizes`):
the end of the chromosome's last bin -/
def chromLen (bins : BinTable) (c : Nat) : Nat := lastStop (groupOf bins c)

/-- `gs.chrom_binoffset[c]` -/
def chromOff (bins : BinTable) (c : Nat) : Nat := bins.countP (fun b => b.chrom < c)

def Row.neg (r : Row) : Bool := decide (r.a1 < 0) || decide (r.a2 < 0)

/-- `is_excess = (anchor1 > chromsizes1) | (anchor2 > chromsizes2)` — `>`, not `≥` (D13) -/
def Row.excess (bins : BinTable) (r : Row) : Bool :=
  decide (r.a1 > (chromLen bins r.c1 : Int)) || decide (r.a2 > (chromLen bins r.c2 : Int))

def validateRows (bins : BinTable) (rows : List Row) : Except Err Unit :=
  if rows.any Row.neg then .error .badInput
  else if rows.any (Row.excess bins) then .error .badInput
  else .ok ()

/-- `is_tril`: decided on chromosome ids and POSITIONS, not on bins -/
def Row.isTril (r : Row) : Bool :=
  decide (r.c1 > r.c2) || (decide (r.c1 = r.c2) && decide (r.a1 > r.a2))

/-- swap the listed extra paired columns -/
def swapMasked : List Bool → List Int → List Int → List Int × List Int
  | m :: ms, a :: as, b :: bs =>
    let rest := swapMasked ms as bs
    if m then (b :: rest.1, a :: rest.2) else (a :: rest.1, b :: rest.2)
  | _, as, bs => (as, bs)

/-- mirror one record: ids and anchors always, frame columns only when listed in `sided_fields` -/
def Row.reflect (o : Opts) (r : Row) : Row :=
  let x := swapMasked o.sidedExtra r.x1 r.x2
  { c1 := r.c2, a1 := r.a2, c2 := r.c1, a2 := r.a1,
    fc1 := if o.sidedChrom then r.fc2 else r.fc1,
    fc2 := if o.sidedChrom then r.fc1 else r.fc2,
    fp1 := if o.sidedAnchor then r.fp2 else r.fp1,
    fp2 := if o.sidedAnchor then r.fp1 else r.fp2,
    x1 := x.1, x2 := x.2, u := r.u }

def Row.orient (o : Opts) (r : Row) : Row := if r.isTril then r.reflect o else r

/-- lower-triangle handling.  The code guards the whole block by `if np.any(is_tril)`; for
`reflect`/`drop` the guarded and unguarded forms coincide (masked assignment with an all-false mask),
for `raise` and unknown actions the guard decides whether an error is raised -/
def trilStep (o : Opts) (rows : List Row) : Except Err (List Row) :=
  match o.tril with
  | .keep => .ok rows
  | .reflect => .ok (rows.map (Row.orient o))
  | .drop => .ok (rows.filter fun r => !r.isTril)
  | .raise => if rows.any Row.isTril then .error .badInput else .ok rows
  | .bogus => if rows.any Row.isTril then .error .value else .ok rows

/-- `np.searchsorted(starts, pos, side="right")` for a signed probe -/
def ssRightI (starts : List Nat) (pos : Int) : Nat :=
  if pos < 0 then 0 else ssRight starts pos.toNat

/-- fixed-width path: `chrom_binoffset[c] + anchor // binsize` (floor division) -/
def assignFixed (off b : Nat) (pos : Int) : Int := (off : Int) + pos / (b : Int)

/-- variable-width path: `lo + searchsorted(start_abspos[lo:hi], abspos, "right") - 1` -/
def assignVar (off : Nat) (starts : List Nat) (pos : Int) : Int :=
  (off : Int) + (ssRightI starts pos : Int) - 1

def assignBin (bins : BinTable) (binsize : Option Nat) (c : Nat) (pos : Int) : Int :=
  match binsize with
  | some b => assignFixed (chromOff bins c) b pos
  | none => assignVar (chromOff bins c) ((groupOf bins c).map Bin.start) pos

def assignRow (bins : BinTable) (binsize : Option Nat) (r : Row) : Out :=
  ⟨r, assignBin bins binsize r.c1 r.a1, assignBin bins binsize r.c2 r.a2⟩

/-- `sort_values(["bin1_id","bin2_id"])` as a stable insertion sort (pandas promises a sorted
permutation; the order among equal keys is not compared) -/
def insertOut (x : Out) : List Out → List Out
  | [] => [x]
  | y :: rest => if kle x.key y.key then x :: y :: rest else y :: insertOut x rest

def sortOuts (l : List Out) : List Out := l.foldr insertOut []

/-- `_sanitize_records` with `gs.binsize` given -/
def sanitizeWith (bins : BinTable) (binsize : Option Nat) (o : Opts) (recs : List Rec) :
    Except Err (List Out) :=
  let rows := recs.filterMap (decode o)
  -- (an empty `rows` returns early in the code; every later step is the identity on `[]`)
  match (if o.validate then validateRows bins rows else .ok ()) with
  | .error e => .error e
  | .ok _ =>
    match trilStep o rows with
    | .error e => .error e
    | .ok rows' =>
      let outs := rows'.map (assignRow bins binsize)
      .ok (if o.sort then sortOuts outs else outs)

/-- `sanitize_records(bins, …)(chunk)`: `gs.binsize = get_binsize(bins)` -/
def sanitizeRecords (bins : BinTable) (o : Opts) (recs : List Rec) : Except Err (List Out) :=
  sanitizeWith bins (getBinsize bins) o recs

/-! ### `aggregate_records` -/

/-- one aggregated pixel: key, number of records (`size`), sum of the value column -/
structure Cell where
  k : Key
  n : Nat
  s : Int
deriving DecidableEq, Repr, Inhabited

/-- insertion into a key-sorted list of cells -/
def insertCell (k : Key) (v : Int) : List Cell → List Cell
  | [] => [⟨k, 1, v⟩]
  | c :: rest =>
    if klt k c.k then ⟨k, 1, v⟩ :: c :: rest
    else if k = c.k then ⟨k, c.n + 1, c.s + v⟩ :: rest
    else c :: insertCell k v rest

/-- `groupby(keys, sort=True).aggregate({size, sum})` -/
def groupCells (l : List (Key × Int)) : List Cell :=
  l.foldr (fun kv acc => insertCell kv.1 kv.2 acc) []

/-- update in place or append: `groupby(keys, sort=False)` lists groups in order of first appearance -/
def bumpCell (k : Key) (v : Int) : List Cell → List Cell
  | [] => [⟨k, 1, v⟩]
  | c :: rest => if k = c.k then ⟨k, c.n + 1, c.s + v⟩ :: rest else c :: bumpCell k v rest

def groupFirst (l : List (Key × Int)) : List Cell :=
  l.foldl (fun acc kv => bumpCell kv.1 kv.2 acc) []

def keyVals (outs : List Out) : List (Key × Int) := outs.map fun o => (o.key, o.val)

/-- `aggregate_records(sort=…, count=True, agg={value: "sum"})(chunk)` -/
def aggregateRecords (sort : Bool) (outs : List Out) : List Cell :=
  if sort then groupCells (keyVals outs) else groupFirst (keyVals outs)

/-- records → aggregated pixels, the composition every loader runs per chunk -/
def aggregated (bins : BinTable) (o : Opts) (recs : List Rec) : Except Err (List Cell) :=
  match sanitizeRecords bins o recs with
  | .error e => .error e
  | .ok outs => .ok (aggregateRecords true outs)

def countAt : List Cell → Key → Nat
  | [], _ => 0
  | c :: rest, k => (if c.k = k then c.n else 0) + countAt rest k

def sumAt : List Cell → Key → Int
  | [], _ => 0
  | c :: rest, k => (if c.k = k then c.s else 0) + sumAt rest k

def totalCount : List Cell → Nat
  | [] => 0
  | c :: rest => c.n + totalCount rest

instance decEqExcept {α : Type} [DecidableEq α] : DecidableEq (Except Err α)
  | .ok a, .ok b => if h : a = b then isTrue (by rw [h]) else isFalse (by intro e; cases e; exact h rfl)
  | .error a, .error b =>
    if h : a = b then isTrue (by rw [h]) else isFalse (by intro e; cases e; exact h rfl)
  | .ok _, .error _ => isFalse (by intro e; cases e)
  | .error _, .ok _ => isFalse (by intro e; cases e)

def isErr {α : Type} : Except Err α → Bool
  | .error _ => true
  | .ok _ => false

/-! ### `_sanitize_pixels` (pre-binned COO records) -/

structure PxRec where
  b1 : Int
  b2 : Int
  x1 : List Int := []
  x2 : List Int := []
  u : List Int := []
deriving DecidableEq, Repr, Inhabited

def PxRec.key (p : PxRec) : Key := (p.b1, p.b2)
def PxRec.val (p : PxRec) : Int := firstVal p.u

def PxRec.shift (o : Opts) (p : PxRec) : PxRec :=
  if o.oneBased then { p with b1 := p.b1 - 1, b2 := p.b2 - 1 } else p

def PxRec.isTril (p : PxRec) : Bool := decide (p.b1 > p.b2)

def PxRec.reflect (o : Opts) (p : PxRec) : PxRec :=
  let x := swapMasked o.sidedExtra p.x1 p.x2
  { b1 := p.b2, b2 := p.b1, x1 := x.1, x2 := x.2, u := p.u }

def PxRec.orient (o : Opts) (p : PxRec) : PxRec := if p.isTril then p.reflect o else p

def insertPx (x : PxRec) : List PxRec → List PxRec
  | [] => [x]
  | y :: rest => if kle x.key y.key then x :: y :: rest else y :: insertPx x rest

def sortPxRecs (l : List PxRec) : List PxRec := l.foldr insertPx []

def trilPx (o : Opts) (ps : List PxRec) : Except Err (List PxRec) :=
  match o.tril with
  | .keep => .ok ps
  | .reflect => .ok (ps.map (PxRec.orient o))
  | .drop => .ok (ps.filter fun p => !p.isTril)
  | .raise => if ps.any PxRec.isTril then .error .badInput else .ok ps
  | .bogus => if ps.any PxRec.isTril then .error .value else .ok ps

/-- `_sanitize_pixels`: one-based shift of the ids, lower-triangle handling on the ids, sort.
No bounds check happens here (`validate_pixels` in `create` does it) -/
def sanitizePixels (o : Opts) (ps : List PxRec) : Except Err (List PxRec) :=
  match trilPx o (ps.map (PxRec.shift o)) with
  | .error e => .error e
  | .ok ps' => .ok (if o.sort then sortPxRecs ps' else ps')

/-! ### `TabixAggregator.aggregate` -/

/-- one line of the indexed file: first side already resolved by the index (`fetch(chrom1, …)`),
second side as text columns -/
structure TbxRec where
  c1 : Option Nat  -- `none`: a contig that is not in the bin table (never fetched)
  p1 : Int       -- zero-based position as the index sees it
  c2 : Option Nat
  p2 : Int       -- as written in the file (`int(line[P2])`)
deriving DecidableEq, Repr, Inhabited

/-- the pysam primitive: records of chromosome `c` whose position lies in `[s, e)`, in file order -/
def tbxFetch (file : List TbxRec) (c s e : Nat) : List TbxRec :=
  file.filter fun r => decide (r.c1 = some c) && decide ((s : Int) ≤ r.p1) && decide (r.p1 < (e : Int))

/-- the `(bin1, bin2)` hits collected for one `bin1` (absolute id `i`, bin `b`) -/
def tbxHits (bins : BinTable) (binsize : Option Nat) (oneBased : Bool) (file : List TbxRec)
    (i : Nat) (b : Bin) : List (Key × Int) :=
  (tbxFetch file b.chrom b.start b.stop).filterMap fun r =>
    r.c2.map fun c2 =>
      (((i : Int), assignBin bins binsize c2 (r.p2 - (if oneBased then 1 else 0))), (0 : Int))

/-- rows produced for one `bin1`: `Counter` over `bin2_id`, listed by `bin2_id` -/
def tbxRow (bins : BinTable) (binsize : Option Nat) (oneBased : Bool) (file : List TbxRec)
    (i : Nat) (b : Bin) : List Cell :=
  groupCells (tbxHits bins binsize oneBased file i b)

/-- the whole stream: every bin of the table in order (the partition into `granges` only groups
consecutive bins; it is a free choice the result does not depend on) -/
def tabixAggregate (bins : BinTable) (oneBased : Bool) (file : List TbxRec) : List Cell :=
  ((List.range bins.length).zip bins).flatMap fun ib =>
    tbxRow bins (getBinsize bins) oneBased file ib.1 ib.2

/-- the records of an indexed file as zero-based pair records (`pos2` shifted as the aggregator does;
`pos1` is already what the index reports) -/
def tbxRecs (oneBased : Bool) (file : List TbxRec) : List Rec :=
  file.map fun r => ⟨r.c1, r.p1, r.c2, r.p2 - (if oneBased then 1 else 0), [], [], []⟩

/-! ### L0 — what the property promises -/

/-- the bin of chromosome `c` that contains position `p`: `start ≤ p < stop` -/
def binOfNat (bins : BinTable) (c p : Nat) : Option Nat :=
  bins.findIdx? fun b => decide (b.chrom = c) && decide (b.start ≤ p) && decide (p < b.stop)

def binOf (bins : BinTable) (c : Nat) (pos : Int) : Option Int :=
  if pos < 0 then none else (binOfNat bins c pos.toNat).map Int.ofNat

/-- the two anchors of a record on known chromosomes, zero-based, with its value -/
structure Anchor where
  c1 : Nat
  a1 : Int
  c2 : Nat
  a2 : Int
  v : Int
deriving DecidableEq, Repr, Inhabited

def anchorOf (oneBased : Bool) (r : Rec) : Option Anchor :=
  match r.c1, r.c2 with
  | some a, some b =>
    let d : Int := if oneBased then 1 else 0
    some ⟨a, r.p1 - d, b, r.p2 - d, firstVal r.u⟩
  | _, _ => none

def Anchor.lower (a : Anchor) : Bool :=
  decide (a.c1 > a.c2) || (decide (a.c1 = a.c2) && decide (a.a1 > a.a2))

def Anchor.mirror (a : Anchor) : Anchor := ⟨a.c2, a.a2, a.c1, a.a1, a.v⟩

def Anchor.upper (a : Anchor) : Anchor := if a.lower then a.mirror else a

/-- position within its chromosome -/
def Anchor.inside (bins : BinTable) (a : Anchor) : Prop :=
  0 ≤ a.a1 ∧ a.a1 < (chromLen bins a.c1 : Int) ∧ 0 ≤ a.a2 ∧ a.a2 < (chromLen bins a.c2 : Int)

instance (bins : BinTable) (a : Anchor) : Decidable (a.inside bins) := by
  unfold Anchor.inside; exact inferInstance

/-- records on known chromosomes -/
def anchors (o : Opts) (recs : List Rec) : List Anchor := recs.filterMap (anchorOf o.oneBased)

/-- orientation of the retained records: mirrored (`reflect`) or filtered (`drop`) -/
def orientAnchors (t : Tril) (l : List Anchor) : List Anchor :=
  match t with
  | .reflect => l.map Anchor.upper
  | .drop => l.filter fun a => !a.lower
  | _ => l

/-- retained records after orientation: known chromosomes, then `orientAnchors` -/
def retained (o : Opts) (recs : List Rec) : List Anchor := orientAnchors o.tril (anchors o recs)

/-! #### the pipeline written on the anchors alone (proof device: `C05.sanitizeWith_sim`) -/

/-- the anchors of a working row -/
def Row.anc (r : Row) : Anchor := ⟨r.c1, r.a1, r.c2, r.a2, firstVal r.u⟩

def Anchor.neg (a : Anchor) : Bool := decide (a.a1 < 0) || decide (a.a2 < 0)

def Anchor.excess (bins : BinTable) (a : Anchor) : Bool :=
  decide (a.a1 > (chromLen bins a.c1 : Int)) || decide (a.a2 > (chromLen bins a.c2 : Int))

def keyOf (bins : BinTable) (bs : Option Nat) (a : Anchor) : Key × Int :=
  ((assignBin bins bs a.c1 a.a1, assignBin bins bs a.c2 a.a2), a.v)

/-- `_sanitize_records` followed by the projection to `(bin1, bin2, value)`, as a function of the
anchors of the records on known chromosomes: every other column is carried along untouched -/
def anchorPipeline (bins : BinTable) (bs : Option Nat) (o : Opts) (l : List Anchor) :
    Except Err (List (Key × Int)) :=
  if o.validate = true ∧ l.any Anchor.neg = true then .error .badInput
  else if o.validate = true ∧ l.any (Anchor.excess bins) = true then .error .badInput
  else if o.tril = .raise ∧ l.any Anchor.lower = true then .error .badInput
  else if o.tril = .bogus ∧ l.any Anchor.lower = true then .error .value
  else .ok ((orientAnchors o.tril l).map (keyOf bins bs))

/-- the pixel a record belongs to -/
def pixelOf (bins : BinTable) (a : Anchor) : Option Key :=
  match binOf bins a.c1 a.a1, binOf bins a.c2 a.a2 with
  | some i, some j => some (i, j)
  | _, _ => none

/-- L0 outcome for one batch of records: rejected when a record on known chromosomes lies outside
its chromosome (or is lower-triangular under `raise`), otherwise one unit per retained record in the
pixel that contains it -/
def specCounts (bins : BinTable) (o : Opts) (recs : List Rec) : Except Err (List Cell) :=
  if (anchors o recs).any (fun a => !decide (a.inside bins)) then .error .badInput
  else if o.tril = .raise ∧ (anchors o recs).any Anchor.lower then .error .badInput
  else if o.tril = .bogus ∧ (anchors o recs).any Anchor.lower then .error .value
  else .ok (groupCells ((retained o recs).filterMap fun a => (pixelOf bins a).map fun k => (k, a.v)))

/-- signature of known finding D13: some record on known chromosomes has a zero-based position equal
to the chromosome length -/
def atLength (bins : BinTable) (o : Opts) (recs : List Rec) : Bool :=
  (anchors o recs).any fun a =>
    decide (a.a1 = (chromLen bins a.c1 : Int)) || decide (a.a2 = (chromLen bins a.c2 : Int))

/-- L0 for pre-binned records: the pixel is the (shifted, oriented) id pair itself -/
def specPixelShift (o : Opts) (ps : List PxRec) : List (Key × Int) :=
  ps.map fun p =>
    (((p.b1 - (if o.oneBased then 1 else 0), p.b2 - (if o.oneBased then 1 else 0)) : Key), p.val)

def specPixelKeys (o : Opts) (ps : List PxRec) : List (Key × Int) :=
  match o.tril with
  | .reflect => (specPixelShift o ps).map fun kv => if kv.1.1 > kv.1.2 then ((kv.1.2, kv.1.1), kv.2) else kv
  | .drop => (specPixelShift o ps).filter fun kv => !decide (kv.1.1 > kv.1.2)
  | _ => specPixelShift o ps

/-- L0 outcome for a batch of pre-binned records -/
def specPixels (o : Opts) (ps : List PxRec) : Except Err (List Cell) :=
  let lower := (specPixelShift o ps).any fun kv => decide (kv.1.1 > kv.1.2)
  if o.tril = .raise ∧ lower then .error .badInput
  else if o.tril = .bogus ∧ lower then .error .value
  else .ok (groupCells (specPixelKeys o ps))

/-- what `create` does downstream of the sanitizer with ids outside the table (not part of C05; used
only to state the variant oracle of known finding D13 for the command-line loaders):
`boundscheck=True` rejects, `boundscheck=False` (cload pairs) writes the pixel, and a pixel whose ROW id
is past the table is unreachable through the row index and is lost on the merge pass -/
def boundsChecked (nbins : Nat) (r : Except Err (List Cell)) : Except Err (List Cell) :=
  match r with
  | .error e => .error e
  | .ok cells =>
    if cells.any (fun c => decide (c.k.1 < 0) || decide (c.k.2 < 0)) then .error .badInput
    else if cells.any (fun c => decide (c.k.1 ≥ (nbins : Int)) || decide (c.k.2 ≥ (nbins : Int))) then .error .badInput
    else .ok cells

def rowLimited (nbins : Nat) (r : Except Err (List Cell)) : Except Err (List Cell) :=
  match r with
  | .error e => .error e
  | .ok cells => .ok (cells.filter fun c => decide (0 ≤ c.k.1) && decide (c.k.1 < (nbins : Int)))

/-! ### table well-formedness used by the theorems (executable twin: `validSegmentationB`) -/

def ChromSorted (bins : BinTable) : Prop := bins.Pairwise fun a b => a.chrom ≤ b.chrom

instance (bins : BinTable) : Decidable (ChromSorted bins) := by unfold ChromSorted; exact inferInstance

/-- chromosomes in ascending blocks, every chromosome a gap-free tiling from 0 -/
def TableOK (bins : BinTable) : Prop := ChromSorted bins ∧ ∀ g ∈ groups bins, ValidChrom g

end Cooler.Sanitize
