import CoolerModel.Model.Bins
/-!
Model of the *compatibility test* of a merge (`_reduce.merge_coolers` and `CoolerMerger.__init__`):
which lists of input coolers are merged and which are refused.  Property C07, clause "inputs that
differ in bin table, resolution or storage mode are refused instead of merged".

What the code looks at, per input:
* `storage_mode == "symmetric-upper"`                                  → `symm`
* `Cooler.binsize` (the stored `bin-size` attribute, `None` if variable)  → `binsize`
* `Cooler.chromsizes` (the `chroms` table as a Series name → length)    → `chromsizes`
* `bins()[["chrom","start","end"]][:]` (chromosome column = names)      → `rows`

The stored attributes are what `create` wrote: `bin-size = get_binsize(bins)` and the `chroms` table
`= get_chromsizes(bins)` (see `headsOf`).  Note that the fixed-size path never looks at the tables.
-/
namespace Cooler.MergeCompat
open Cooler

/-- chromosome names are opaque labels; `names[k]` is the name of chromosome id `k` (the order of the
`chroms` table).  `Nat` labels: equality is all the code uses. -/
abbrev Name := Nat

/-- one row of `bins()[["chrom","start","end"]]`: name (absent for an id without a name), start, end -/
abbrev Row := Option Name × Nat × Nat

structure Input where
  symm : Bool
  names : List Name
  bins : BinTable
  /-- stored `bin-size` -/
  binsize : Option Nat
  /-- `Cooler.chromsizes`: (name, length) in `chroms`-table order -/
  chromsizes : List (Option Name × Nat)
deriving DecidableEq, Repr

def rowsOf (names : List Name) (bins : BinTable) : List Row :=
  bins.map fun b => (names[b.chrom]?, b.start, b.stop)

/-- the `chroms` table `create` writes for a bin table: `get_chromsizes(bins)` under the names -/
def chromsizesOf (names : List Name) (bins : BinTable) : List (Option Name × Nat) :=
  (getChromsizes bins).map fun p => (names[p.1]?, p.2)

def Input.rows (x : Input) : List Row := rowsOf x.names x.bins

/-- an input as `create` writes it: both stored heads derived from the table -/
def mkInput (symm : Bool) (names : List Name) (bins : BinTable) : Input :=
  ⟨symm, names, bins, getBinsize bins, chromsizesOf names bins⟩

/-- `all(is_symm)` or `not any(is_symm)` -/
def modesAgree (inputs : List Input) : Bool :=
  inputs.all (fun x => x.symm) || inputs.all (fun x => !x.symm)

/-- `merge_coolers` / `CoolerMerger.__init__`, decision order of the code:
1. mixed storage modes → ValueError;
2. first input reports a bin size: `len({c.binsize for c in coolers}) > 1` → ValueError; then any
   `chromsizes` Series different from the first's (pandas refuses to compare differently labelled
   Series: also a ValueError) → ValueError;
3. first input variable-width: any input whose frame has another length or a cell different from the
   first's → error (ValueError; pandas raises TypeError for different category sets — the class is
   not part of the property).
An empty input list errs as well (`np.result_type()` of nothing). -/
def mergeCompat : List Input → Except Err Unit
  | [] => .error .value
  | first :: rest =>
    if modesAgree (first :: rest) = false then .error .value
    else match first.binsize with
      | some _ =>
        if (rest.all fun x => decide (x.binsize = first.binsize)) = false then .error .value
        else if (rest.all fun x => decide (x.chromsizes = first.chromsizes)) = false then .error .value
        else .ok ()
      | none =>
        if (rest.all fun x =>
            decide (x.rows.length = first.rows.length) && decide (x.rows = first.rows)) = false
        then .error .value
        else .ok ()

/-- decidable equality of verdicts, so that closed examples can be checked by `decide` -/
instance decEqVerdict : DecidableEq (Except Err Unit)
  | .ok (), .ok () => isTrue rfl
  | .error a, .error b =>
    if h : a = b then isTrue (by rw [h]) else isFalse (by intro e; cases e; exact h rfl)
  | .ok _, .error _ => isFalse (by intro e; cases e)
  | .error _, .ok _ => isFalse (by intro e; cases e)

/-- which branch decided (diagnostics for the correspondence) -/
def decidedBy : List Input → String
  | [] => "empty"
  | first :: rest =>
    if modesAgree (first :: rest) = false then "modes"
    else match first.binsize with
      | some _ => "binsize+chromsizes"
      | none => "tables"

/-- L0: every input has the storage mode, the chromosome names (in order) and the bin table of the
first one -/
def allSame : List Input → Prop
  | [] => True
  | first :: rest => ∀ x ∈ rest, x.symm = first.symm ∧ x.names = first.names ∧ x.bins = first.bins

instance : (l : List Input) → Decidable (allSame l)
  | [] => isTrue trivial
  | first :: rest => by unfold allSame; exact inferInstance

/-- ids used by the table are `0 … n-1` in this order of first appearance, one per name -/
def idsMatchNames (x : Input) : Bool := decide (chromOrder x.bins = List.range x.names.length)

/-- a well-formed input: the table is a valid genome segmentation (chromosome ids non-decreasing,
every chromosome tiled from 0 by non-empty bins), chromosome names are distinct and as many as the
chromosomes, and the two stored heads are the ones `create` derives from the table -/
def WF (x : Input) : Prop :=
  validSegmentationB x.bins = true ∧ x.names.Nodup ∧ idsMatchNames x = true ∧
    x.binsize = getBinsize x.bins ∧ x.chromsizes = chromsizesOf x.names x.bins

instance (x : Input) : Decidable (WF x) := by unfold WF; exact inferInstance

end Cooler.MergeCompat
