import CoolerModel.Model.CSR
/-!
`groupSum`: the model of `df.groupby(["bin1_id","bin2_id"], sort=True).aggregate(sum).reset_index()`
— one record per distinct key, in key order, carrying the sum of the values of that key (a key whose
values cancel to 0 stays present, as pandas keeps it).  Shared by C05–C09.
-/
namespace Cooler

def sameKey (p q : Px) : Prop := p.i = q.i ∧ p.j = q.j

instance : DecidableRel sameKey := fun p q => by unfold sameKey; exact inferInstance

/-- insert one record into a key-sorted list, adding its value to an existing record of the same key -/
def insertPx (p : Px) : Pixels → Pixels
  | [] => [p]
  | q :: rest =>
    if keyLt p q then p :: q :: rest
    else if sameKey p q then ⟨q.i, q.j, q.v + p.v⟩ :: rest
    else q :: insertPx p rest

/-- group by key, sum, sort by key -/
def groupSum (l : Pixels) : Pixels := l.foldr insertPx []

/-- total value stored under key `(i,j)` -/
def sumAt : Pixels → Nat → Nat → Int
  | [], _, _ => 0
  | p :: rest, i, j => (if p.i = i ∧ p.j = j then p.v else 0) + sumAt rest i j

def hasKey (l : Pixels) (i j : Nat) : Prop := ∃ p ∈ l, p.i = i ∧ p.j = j

/-- relabel both bin ids (coarsening: old bin ↦ new bin) -/
def rekey (f : Nat → Nat) (p : Px) : Px := ⟨f p.i, f p.j, p.v⟩

end Cooler
