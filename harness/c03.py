"""C03 — a 2-D range query equals the same slice of the full matrix."""
from __future__ import annotations

import itertools
import os

import numpy as np

from harness import gen
from harness.common import ImplRaised, drv, guarded, impl, run_check

PID = "C03"
# slice normalisation is shared with C14: Model/Selectors.processKey, theorems Cooler.C14.processSlice_spec / processScalar_spec
THEOREMS = ["direct_correct", "direct_eq_spec", "direct_chunk_independent", "fillLower_mem", "fillLower_nodup",
            "fillLower_correct", "fill_chunk_independent", "tasks_cases", "fillLower_total", "rowSpans_valid",
            "dense_of_perm", "dense_correct_symm", "dense_correct_square", "sparse_dense_agree"]
LEVELS = {"windows": "top", "csr_reader": "unit", "get_spans": "unit", "store_forms": "top", "spellings": "top"}
DESCRIBE = {
    "windows": "Cooler.matrix(balance=False, sparse|as_pixels, chunksize)[i0:i1, j0:j1] for EVERY window of [0,n]^4 vs Lean "
               "`specWindow`/`specDense` (L0; = `queryFill`/`queryDirect` by theorems fillLower_correct / direct_correct)",
    "csr_reader": "CSRReader.__call__(field, bbox, row_span, reflect) on dict-backed columns vs Lean `csrRead`",
    "get_spans": "contract `validSpans` evaluated by Lean on the real CSRReader.get_spans(bbox, chunksize) output",
    "spellings": "matrix[rowkey, colkey] for ALL in-domain slice spellings (bounds in [-n,n] or None) and scalars (k in [-n,n)) on both axes vs "
                 "Lean `processKey` (Model/Selectors, theorems C14.processSlice_spec/processScalar_spec) composed with `specDense`",
    "store_forms": "cooler.api.matrix on an open h5py handle / Cooler given as URI and as handle vs Lean `specDense`",
}
RULE = ("one case = one stored matrix (n bins over 1-3 chromosomes; kinds: empty, full, diagonal only, no diagonal, single row, "
        "rows with gaps, random sparse/dense; symmetric-upper and square) with ALL windows i0<=i1, j0<=j1 of [0,n]^4 x "
        "{dense, sparse, pixels} x chunk sizes {1,2,3,nnz,nnz+1,10^7}; quick n<=4 (+ two n=5), thorough n<=7; "
        "non-trivial = store with >=2 pixels; distinct by canonical JSON of the case")
EXHAUSTIVE = {"quick": True, "thorough": True}
TRUSTED = ["h5py dataset slicing, numpy masking/concatenate/searchsorted/linspace, scipy coo_matrix.toarray (sums duplicates) are primitives",
           "row spans (get_spans) are a free unit: theorems hold for every span list satisfying `validSpans`"]
ASSUMPTIONS = ["windows within [0,n]^4 with i0<=i1, j0<=j1 (the property's domain); values are exact integers"]
CHUNK = 1


def worker_init():
    global cooler, CSRReader, h5py
    import cooler  # noqa
    import h5py  # noqa
    from cooler.core import CSRReader  # noqa


def all_boxes(n):
    rng = [(a, b) for a in range(n + 1) for b in range(a, n + 1)]
    return [[a, b, c, d] for (a, b) in rng for (c, d) in rng]


def _windows(case):
    n, pixels, symm = case["n"], case["pixels"], case["symm"]
    layout = case.get("layout") or [n]
    path = os.path.join(gen.tmpdir(), f"c03-{os.getpid()}.cool")
    gen.write_cooler(path, gen.layout_bins(layout), pixels, symm=symm)
    try:
        boxes = case.get("boxes") or all_boxes(n)
        ans = drv().ask("C03.windows", pixels=pixels, n=n, symm=symm, boxes=boxes)
        clr = cooler.Cooler(path)
        nnz = len(pixels)
        chunks = case.get("chunks") or [1, 2, 3, max(nnz, 1), nnz + 1, 10 ** 7]
        nq = 0
        for box, a in zip(boxes, ans):
          try:
              assert a["l1_ok"], f"L1 != L0 at {box}: theorems fillLower_correct/direct_correct contradicted"
              i0, i1, j0, j1 = box
              spec = a["spec"]
              for cs in chunks:
                  dense = impl(lambda: clr.matrix(balance=False, chunksize=cs)[i0:i1, j0:j1])
                  nq += 1
                  d = np.asarray(dense)
                  if d.shape != (i1 - i0, j1 - j0) or d.tolist() != (a["dense"] if (i1 > i0) else []):
                      if not (d.shape == (i1 - i0, j1 - j0) and d.size == 0 and all(len(r) == 0 for r in a["dense"])):
                          return {"mismatch": True, "form": "dense", "box": box, "chunksize": cs,
                                  "impl": d.tolist(), "model": a["dense"]}
                  sp = impl(lambda: clr.matrix(balance=False, sparse=True, chunksize=cs)[i0:i1, j0:j1])
                  nq += 1
                  ent = sorted([int(r) + i0, int(c) + j0, int(v)] for r, c, v in zip(sp.row, sp.col, sp.data))
                  if sp.shape != (i1 - i0, j1 - j0) or ent != spec:
                      return {"mismatch": True, "form": "sparse", "box": box, "chunksize": cs, "impl": ent, "model": spec,
                              "note": "entries (incl. multiplicity) differ from the sub-block of the full matrix"}
                  px = impl(lambda: clr.matrix(balance=False, as_pixels=True, join=False, ignore_index=False, chunksize=cs)[i0:i1, j0:j1])
                  nq += 1
                  rows = [[int(r.bin1_id), int(r.bin2_id), int(r.count)] for r in px.itertuples()]
                  if rows != a["stored"]:
                      return {"mismatch": True, "form": "pixels", "box": box, "chunksize": cs, "impl": rows, "model": a["stored"],
                              "note": "pixel output must list exactly the stored records inside the window in storage order"}
                  idx = [int(x) for x in px.index]
                  if any(pixels[k] != r for k, r in zip(idx, rows)) or len(idx) != len(rows):
                      return {"mismatch": True, "form": "pixels-index", "box": box, "chunksize": cs, "impl": idx,
                              "note": "carried index is not the record's position in the pixel table"}
          except ImplRaised as e:
            return {"mismatch": True, "box": box, "impl_raised": e.cls, "message": e.msg, "where": e.where,
                    "note": "the implementation raised on an in-domain window"}
        return {"stats": {"queries": nq, "windows": len(boxes)}}
    finally:
        os.unlink(path)


def _store_forms(case):
    n, pixels, symm = case["n"], case["pixels"], case["symm"]
    path = os.path.join(gen.tmpdir(), f"c03f-{os.getpid()}.cool")
    import h5py
    with h5py.File(path, "w") as f:
        f.create_group("other")
    # nested group in an existing file, addressed by URI
    gen.write_cooler(path + "::/a/b", gen.layout_bins([n]), pixels, symm=symm, mode="a")
    try:
        boxes = case["boxes"]
        ans = drv().ask("C03.windows", pixels=pixels, n=n, symm=symm, boxes=boxes)
        from cooler.api import matrix as api_matrix
        with h5py.File(path, "r") as h5:
            grp = h5["/a/b"]
            c_handle = cooler.Cooler(grp)
            c_uri = cooler.Cooler(path + "::a/b")
            for box, a in zip(boxes, ans):
                i0, i1, j0, j1 = box
                want = a["dense"] if i1 > i0 else []
                got = [
                    impl(lambda: api_matrix(grp, i0, i1, j0, j1, "count", balance=False, fill_lower=symm).tolist()),
                    impl(lambda: c_handle.matrix(balance=False)[i0:i1, j0:j1].tolist()),
                    impl(lambda: c_uri.matrix(balance=False)[i0:i1, j0:j1].tolist()),
                ]
                for k, g in enumerate(got):
                    if g != want and not (i1 == i0 and g == []):
                        return {"mismatch": True, "form": ["api.matrix(handle)", "Cooler(handle)", "Cooler(uri)"][k],
                                "box": box, "impl": g, "model": want}
        return None
    finally:
        os.unlink(path)


def _csr_reader(case):
    pixels, n = case["pixels"], case["n"]
    grp = {"bin1_id": np.array([p[0] for p in pixels], dtype=np.int64),
           "bin2_id": np.array([p[1] for p in pixels], dtype=np.int64),
           "count": np.array([p[2] for p in pixels], dtype=np.int64)}
    offs = [sum(1 for p in pixels if p[0] < k) for k in range(n + 1)]  # marshalling of the stored index
    rd = CSRReader(grp, np.array(offs))
    for (box, s0, s1, reflect) in case["calls"]:
        out = impl(rd, "count", tuple(box), (s0, s1), reflect=reflect, return_index=False)
        got = [[int(a), int(b), int(c)] for a, b, c in zip(out["bin1_id"], out["bin2_id"], out["count"])]
        model = drv().ask("C03.csr_read", pixels=pixels, offs=offs, box=box, s0=s0, s1=s1, reflect=reflect)
        if (got != model) if not reflect else (sorted(got) != sorted(model)):
            return {"mismatch": True, "call": [box, s0, s1, reflect], "impl": got, "model": model}
    return None


def _get_spans(case):
    pixels, n = case["pixels"], case["n"]
    grp = {"bin1_id": np.array([p[0] for p in pixels], dtype=np.int64),
           "bin2_id": np.array([p[1] for p in pixels], dtype=np.int64),
           "count": np.array([p[2] for p in pixels], dtype=np.int64)}
    offs = [sum(1 for p in pixels if p[0] < k) for k in range(n + 1)]
    rd = CSRReader(grp, np.array(offs))
    for box in all_boxes(n):
        for cs in case["chunks"]:
            spans = [[int(a), int(b)] for a, b in impl(rd.get_spans, tuple(box), cs)]
            ok = drv().ask("C03.valid_spans", offs=offs, box=box, spans=spans)["valid"]
            if not ok:
                return {"mismatch": True, "box": box, "chunksize": cs, "impl_spans": spans, "offs": offs,
                        "note": "spans are not a chain of consecutive row ranges such that the rows of the box before and after it are empty"}
    return None


def _spellings(case):
    n, pixels, symm = case["n"], case["pixels"], case["symm"]
    path = os.path.join(gen.tmpdir(), f"c03s-{os.getpid()}.cool")
    gen.write_cooler(path, gen.layout_bins([n]), pixels, symm=symm)
    try:
        vals = [None] + list(range(-n, n + 1))
        keys = [{"slice": [a, b]} for a in vals for b in vals] + [{"scalar": k} for k in range(-n, n)]
        pk = drv().ask("C14.process", n=n, keys=keys)
        dom = []
        for k, a in zip(keys, pk):
            if a["in_domain"] and "ok" in a["model"] and a["model"]["ok"][0] <= a["model"]["ok"][1]:
                if "slice" in k:
                    assert a["indices"] == a["model"]["ok"], "theorem processSlice_spec contradicted"
                dom.append((k, a["model"]["ok"]))
        clr = cooler.Cooler(path)
        m = clr.matrix(balance=False)
        col_keys = dom if n <= 2 else dom[:: max(1, len(dom) // 9)]
        boxes = [[r[1][0], r[1][1], c[1][0], c[1][1]] for r in dom for c in col_keys]
        ans = drv().ask("C03.windows", pixels=pixels, n=n, symm=symm, boxes=boxes)
        t = 0
        for (rk, rr) in dom:
            for (ck, cc) in col_keys:
                a = ans[t]; t += 1
                pr = slice(*rk["slice"]) if "slice" in rk else rk["scalar"]
                pc = slice(*ck["slice"]) if "slice" in ck else ck["scalar"]
                got = np.asarray(impl(lambda: m[pr, pc]))
                want = a["dense"] if rr[1] > rr[0] else []
                if got.shape != (rr[1] - rr[0], cc[1] - cc[0]) or (got.size and got.tolist() != want):
                    return {"mismatch": True, "row_key": rk, "col_key": ck, "window": [rr, cc], "impl_shape": list(got.shape),
                            "impl": got.tolist(), "model": want}
        # single-axis subscript: matrix[rowkey] means all columns
        for (rk, rr) in dom[:: max(1, len(dom) // 12)]:
            pr = slice(*rk["slice"]) if "slice" in rk else rk["scalar"]
            got = np.asarray(impl(lambda: m[pr]))
            a = drv().ask("C03.windows", pixels=pixels, n=n, symm=symm, boxes=[[rr[0], rr[1], 0, n]])[0]
            if got.shape != (rr[1] - rr[0], n) or (got.size and got.tolist() != a["dense"]):
                return {"mismatch": True, "row_key": rk, "col_key": "absent", "impl": got.tolist(), "model": a["dense"]}
        # out-of-range scalar must raise IndexError
        r = guarded(lambda: m[n, 0])
        if r[0] != "err":
            return {"mismatch": True, "row_key": {"scalar": n}, "impl": "no error", "model": "IndexError"}
        return {"stats": {"spellings": len(dom) * len(col_keys)}}
    finally:
        os.unlink(path)


CHECKS = {"spellings": _spellings, "windows": _windows, "csr_reader": _csr_reader, "get_spans": _get_spans, "store_forms": _store_forms}


def nontrivial(name, case):
    return len(case["pixels"]) >= 2


def distribution(name, case):
    if name == "windows":
        yield f"stores.n={case['n']}.{'symm' if case['symm'] else 'square'}"
        yield f"stores.kind={case.get('kind')}"


def _store(rng, n, symm, kind=None):
    px = gen.matrix_kinds(rng, n, symm, kind)
    return {"n": n, "symm": symm, "pixels": px, "kind": kind}


KINDS = ["empty", "full", "diag", "nodiag", "onerow", "gaps", "random", "dense-random"]


def cases(tier, rng):
    thorough = tier == "thorough"
    # corpus (minimised past failures / hand-picked diagonal-anchored shapes)
    yield "windows", {"n": 3, "symm": True, "pixels": [[0, 0, 9], [0, 1, 2], [0, 2, 3], [1, 1, 8], [1, 2, 5], [2, 2, 7]], "kind": "corpus"}
    yield "windows", {"n": 3, "symm": False, "pixels": [[0, 1, 2], [1, 0, 3], [2, 0, 5], [2, 2, 7]], "kind": "corpus"}
    nmax = 7 if thorough else 4
    for n in range(1, nmax + 1):
        for symm in (True, False):
            for kind in KINDS:
                reps = 1 if kind in ("empty", "full", "diag", "nodiag") else (3 if thorough else 2)
                if n >= 6:
                    reps = 1
                for _ in range(reps):
                    c = _store(rng, n, symm, kind)
                    c["layout"] = gen.split_layout(rng, n)
                    if n >= 6:
                        c["chunks"] = [1, 3, 10 ** 7]
                    yield "windows", c
    if not thorough:
        for symm in (True, False):
            c = _store(rng, 5, symm, "random")
            c["chunks"] = [1, 2, 10 ** 7]
            yield "windows", c
    # unit correspondences
    for _ in range(300 if thorough else 60):
        n = rng.randint(1, 7)
        symm = rng.random() < 0.7
        px = gen.matrix_kinds(rng, n, symm)
        calls = []
        for _ in range(12):
            i0 = rng.randint(0, n); i1 = rng.randint(i0, n); j0 = rng.randint(0, n); j1 = rng.randint(j0, n)
            s0 = rng.randint(i0, i1); s1 = rng.randint(s0, i1)
            calls.append([[i0, i1, j0, j1], s0, s1, rng.random() < 0.5])
        yield "csr_reader", {"n": n, "pixels": px, "calls": calls}
    for _ in range(60 if thorough else 16):
        n = rng.randint(1, 6)
        px = gen.matrix_kinds(rng, n, rng.random() < 0.7)
        yield "get_spans", {"n": n, "pixels": px, "chunks": [1, 2, 3, 5, len(px) + 1, 10 ** 7]}
    for n in ((1, 2, 3, 4) if thorough else (1, 2, 3)):
        for symm in (True, False):
            yield "spellings", {"n": n, "symm": symm, "pixels": gen.matrix_kinds(rng, n, symm, "dense-random")}
    for _ in range(40 if thorough else 8):
        n = rng.randint(2, 6)
        symm = rng.random() < 0.6
        px = gen.matrix_kinds(rng, n, symm)
        boxes = rng.sample(all_boxes(n), 12)
        yield "store_forms", {"n": n, "symm": symm, "pixels": px, "boxes": boxes}


def shrink(name, case):
    px = case["pixels"]
    if name == "windows" and "boxes" not in case:
        # first narrow to the failing window (re-run finds it), then drop pixels
        pass
    for k in range(len(px)):
        c = dict(case)
        c["pixels"] = px[:k] + px[k + 1:]
        yield c
    if name == "windows" and case.get("chunks") and len(case["chunks"]) > 1:
        for cs in case["chunks"]:
            c = dict(case); c["chunks"] = [cs]
            yield c


def escalate(name, case, rng):
    """a unit correspondence stopped checking: enumerate every window end to end on the same store"""
    worker_init()
    n, px = case["n"], case["pixels"]
    for symm in (True, False):
        if symm and any(p[0] > p[1] for p in px):
            continue
        c = {"n": n, "symm": symm, "pixels": px, "kind": "escalation"}
        r = run_check(_windows, c)
        if r:
            return {"check": "windows", "case": c, "result": r}
    for _ in range(40):
        n2 = rng.randint(2, 5)
        symm = rng.random() < 0.7
        c = {"n": n2, "symm": symm, "pixels": gen.matrix_kinds(rng, n2, symm), "kind": "escalation"}
        r = run_check(_windows, c)
        if r:
            return {"check": "windows", "case": c, "result": r}
    return None
