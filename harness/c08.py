"""C08 — coarsening by k is exact block aggregation within each chromosome."""
from __future__ import annotations

import itertools
import os

import numpy as np
import pandas as pd

from harness import gen, monitor
from harness.common import drv, impl, run_check

PID = "C08"
THEOREMS = ["coarsenBins_spec", "coarsenGroup_eq_spec", "cmap_monotone", "cmap_closed_form", "edge_boundary", "no_group_split",
            "coarsen_eq_spec", "coarsen_total", "coarsener_stream_sorted", "coarsen_chunk_independent",
            "coarsen_map_independent", "coarsen_compose", "coarsen_merge_commute", "rebin_correct", "prune_contract",
            "groupSum_map_groupSum", "coarsen_correct", "coarsen_pointwise", "coarsen_triu", "coarsen_inRange", "groups_flatten",
            "coarsen_agg_eq_spec", "coarsen_agg_chunk_independent", "coarsen_agg_correct", "coarsenSpecAgg_sum", "aggFromAgg_spec",
            "coarsen_agg_pointwise"]
LEVELS = {"value_columns": "top", "coarsen": "top", "chain": "top", "merge_coarsen": "top", "agg": "top", "extra_column": "top", "cli": "top",
          "prune": "unit", "coarsener": "unit", "bins": "unit"}
DESCRIBE = {
    "coarsen": "cooler.coarsen_cooler(src, out, k, chunksize, nproc) for k = 2..n+1 and EVERY chunksize 1..nnz+1 (nnz <= 8; sampled "
               "beyond): new bin table, pixel table, `sum`/`nnz` vs Lean L0 `coarsenBinsSpec`/`coarsenSpec` (= the streaming model "
               "for any valid span partition, theorem coarsen_eq_spec); output judged by the C02 raw monitor",
    "chain": "coarsen k1 then k2 (two real runs) vs Lean `coarsenSpec (k1*k2)` / `coarsenBinsSpec (k1*k2)` (theorem coarsen_compose)",
    "merge_coarsen": "merge(coarsen a, coarsen b, …) and coarsen(merge(a, b, …)) (real runs) vs Lean `coarsenSpec k (mergeSpec inputs)` "
                     "(theorem coarsen_merge_commute)",
    "agg": "coarsen with a requested aggregate (max/min/first/last) on the count column or on an extra integer column, several chunk "
           "sizes: pixel table vs Lean `coarsenSpecAgg` (= the streaming model for any valid span partition and ANY aggregation "
           "function, theorems coarsen_agg_eq_spec / coarsen_agg_correct); the summed count column vs `coarsenSpec`",
    "extra_column": "coarsen with columns=['count','w'] or ['w'] (D25 regression): the output carries every requested column, count = exact "
                    "sum (Lean), w = sum/max/min over exactly the old pixels that Lean's `cmap` sends to the key",
    "cli": "`cooler coarsen -k K -c CHUNK -o out in` (CliRunner) vs Lean L0",
    "value_columns": "value columns and dtypes through coarsen_cooler and `cooler coarsen --field ...`: float count column (multiples of "
                     "1/4) next to an integer column, `dtypes` None / {} / partial / complete, per-column aggregates requested in either "
                     "order, block sums beyond int32 with and without a 64-bit output dtype: every output column vs Lean "
                     "`coarsenSpecAgg`; a sum that does not fit the output dtype is refused, never stored differently (`checkedWrite`)",
    "prune": "contract `validPrunedEdges` evaluated by Lean on the real _greedy_prune_partition(edges, chunksize) output",
    "coarsener": "CoolerCoarsener(uri, k, chunksize): its pruned `.edges` satisfy `validPrunedEdges` w.r.t. Lean's `coarsenEdges` (every cut "
                 "is a coarse-row boundary) and the Lean stream driven by them equals L0; `.new_bins` = Lean `coarsenBins`",
    "bins": "CoolerCoarsener.coarsen_bins(old_bins, chromsizes, k) vs Lean `coarsenBins` (= `coarsenBinsSpec`, theorem coarsenBins_spec)",
}
RULE = ("coolers over 1-3 chromosomes, n <= 7 (quick) / <= 10 (thorough) bins: fixed width (full or short last bin), variable width, "
        "one-bin chromosomes, variable tables whose coarsened bins look uniform with and without a longer last bin (D1 regression); "
        "bin width 10 or any of 1..200 / round thousands to 10^6; tables DESIGNED for one factor k (`near-*`, 1-4 chromosomes, <= 12 "
        "bins): every chromosome = full blocks of k bins adding up to W = k*w (k bins of w, or W cut at random) + a tail of <= k "
        "bins shorter than / equal to / longer than W, chromosomes of at most k bins (one coarse bin, down to one bin) shorter or "
        "longer than W with a bin starting at or beyond W, placed first / in the middle / last, fixed-width sources with a long "
        "last bin, every chromosome <= k bins; a pixel on every bin starting on a multiple of W and on every bin of a one-coarse-bin "
        "chromosome; size sweep (`sizes-*`): two chromosomes of 1-5 coarse bins of width W in 49..2000 / k*(10..400) / k*round, one "
        "coarsening each (both re-binning paths of _aggregate are counted per source uniformity in the distribution); "
        "symmetric-upper and square; k = 2..n+1; chunksize exhaustive 1..nnz+1 for nnz <= 8; nproc {1} quick (+2 pool cases) / "
        "{1,2,4} thorough; chains k1,k2 in 2..4; merge/coarsen of 2-3 inputs; non-trivial = >= 2 pixels and >= 3 bins; distinct by "
        "canonical JSON")
EXHAUSTIVE = {"quick": False, "thorough": False}
TRUSTED = ["pandas groupby(sort=True).aggregate / iloc[::k], numpy searchsorted/unique/cumsum and h5py are primitives of the model",
           "multiprocess.Pool.map preserves input order (exercised for nproc <= 4, modelled as an ordered map)",
           "float64 floor(start / binsize) idealised as integer division (exact below 2^52)",
           "span pruning (_greedy_prune_partition) is a free unit checked by contract"]
ASSUMPTIONS = ["integer value columns; the proved model covers sum and ANY aggregation function of the group's values in storage order",
               "the source is a valid cooler (C02): chromosome-sorted complete segmentation, strictly sorted in-range pixels, true index"]
CHUNK = 1


def worker_init():
    global cooler
    import cooler  # noqa


# ----------------------------------------------------------------------------------------------
# helpers
# ----------------------------------------------------------------------------------------------

def _lens(bins):
    out = {}
    for c, _, e in bins:
        out[c] = e
    return [out[c] for c in sorted(out)]


def _read(path):
    c = cooler.Cooler(path)
    t = c.pixels()[:]
    names = list(c.chromnames)
    px = [[int(a), int(b), int(v)] for a, b, v in zip(t["bin1_id"], t["bin2_id"], t["count"])]
    return gen.df_bins(c.bins()[["chrom", "start", "end"]][:], names), px, c.info


def _tag():
    return f"{os.getpid()}"


def _unlink(*paths):
    for p in paths:
        if p and os.path.exists(p):
            os.unlink(p)


def _ks(case):
    n = len(case["bins"])
    return case.get("ks") or list(range(2, n + 2))


def _chunksizes(case):
    nnz = len(case["pixels"])
    return case.get("chunksizes") or list(range(1, nnz + 2))


def _compare(out, m, where):
    gb, gp, info = _read(out)
    if gb != m["bins"]:
        return dict(where, mismatch=True, what="new bin table", impl=gb, model=m["bins"])
    if gp != m["pixels"]:
        return dict(where, mismatch=True, what="pixel table", impl=gp, model=m["pixels"])
    if int(info["sum"]) != m["total"] or int(info["nnz"]) != len(m["pixels"]):
        return dict(where, mismatch=True, what="sum/nnz attributes", impl=[int(info["sum"]), int(info["nnz"])],
                    model=[m["total"], len(m["pixels"])])
    v = monitor.violations(out)
    if v:
        return dict(where, mismatch=True, what="schema (C02 monitor)", violated=v)
    return None


def _ask_coarsen(bins, pixels, k, cs):
    m = drv().ask("C08.coarsen", bins=bins, lens=_lens(bins), pixels=pixels, k=k, chunksize=cs)
    assert m["table_ok"], "generator produced a table outside the theorems' hypotheses"
    assert m["l1_agrees"] and m["model_pruned_valid"], "theorem coarsen_eq_spec / prune_contract contradicted"
    return m


# ----------------------------------------------------------------------------------------------
# top-level checks
# ----------------------------------------------------------------------------------------------

def _coarsen(case):
    bins, pixels, symm = case["bins"], case["pixels"], case.get("symm", True)
    d = gen.tmpdir()
    src = os.path.join(d, f"c-{_tag()}-src.cool")
    out = os.path.join(d, f"c-{_tag()}-out.cool")
    nq = 0
    paths = {}
    try:
        gen.write_cooler(src, bins, pixels, symm=symm)
        for k in _ks(case):
            for cs in _chunksizes(case):
                m = _ask_coarsen(bins, pixels, k, cs)
                # which re-binning path the (Lean) coarse table selects, against the uniformity of the source
                key = ("src_%s.coarse_%s" % ("uniform" if m.get("old_binsize") is not None else "variable",
                                             "uniform(fixed path)" if m["new_binsize"] is not None else "variable(search path)"))
                paths[key] = paths.get(key, 0) + 1
                for nproc in case.get("nprocs", [1]):
                    _unlink(out)
                    impl(cooler.coarsen_cooler, src, out, k, chunksize=cs, nproc=nproc)
                    nq += 1
                    r = _compare(out, m, {"k": k, "chunksize": cs, "nproc": nproc})
                    if r:
                        return r
                    if cooler.Cooler(out).storage_mode != cooler.Cooler(src).storage_mode:
                        return {"mismatch": True, "k": k, "what": "storage mode changed"}
        return {"stats": dict(paths, coarsenings=nq)}
    finally:
        _unlink(src, out)


def _chain(case):
    bins, pixels, symm = case["bins"], case["pixels"], case.get("symm", True)
    k1, k2 = case["k1"], case["k2"]
    d = gen.tmpdir()
    src, mid, out = (os.path.join(d, f"h-{_tag()}-{x}.cool") for x in ("src", "mid", "out"))
    try:
        gen.write_cooler(src, bins, pixels, symm=symm)
        m = drv().ask("C08.chain", bins=bins, pixels=pixels, k1=k1, k2=k2)
        assert m["composes"], "theorem coarsen_compose contradicted"
        m["total"] = sum(p[2] for p in m["pixels"])
        impl(cooler.coarsen_cooler, src, mid, k1, chunksize=case.get("cs1", 3))
        impl(cooler.coarsen_cooler, mid, out, k2, chunksize=case.get("cs2", 2))
        return _compare(out, m, {"k1": k1, "k2": k2})
    finally:
        _unlink(src, mid, out)


def _merge_coarsen(case):
    bins, inputs, k, symm = case["bins"], case["inputs"], case["k"], case.get("symm", True)
    d = gen.tmpdir()
    t = _tag()
    srcs = [os.path.join(d, f"g-{t}-s{i}.cool") for i in range(len(inputs))]
    cos = [os.path.join(d, f"g-{t}-c{i}.cool") for i in range(len(inputs))]
    mg, out1, out2 = (os.path.join(d, f"g-{t}-{x}.cool") for x in ("m", "o1", "o2"))
    try:
        for p, px in zip(srcs, inputs):
            gen.write_cooler(p, bins, px, symm=symm)
        m = drv().ask("C08.merge_coarsen", bins=bins, inputs=inputs, k=k)
        assert m["commutes"], "theorem coarsen_merge_commute contradicted"
        # coarsen each, then merge
        for p, c in zip(srcs, cos):
            impl(cooler.coarsen_cooler, p, c, k, chunksize=case.get("cs", 3))
        impl(cooler.merge_coolers, out1, cos, mergebuf=case.get("mergebuf", 4))
        r = _compare(out1, m, {"order": "merge(coarsen each)"})
        if r:
            return r
        # merge, then coarsen
        impl(cooler.merge_coolers, mg, srcs, mergebuf=case.get("mergebuf", 4))
        impl(cooler.coarsen_cooler, mg, out2, k, chunksize=case.get("cs", 3))
        return _compare(out2, m, {"order": "coarsen(merge)"})
    finally:
        _unlink(mg, out1, out2, *srcs, *cos)


def _agg(case):
    """requested aggregate (max/min/first/last) on the count column itself or on an extra INTEGER column `w` (count stays
    summed): every column vs Lean (`coarsenSpecAgg` for ANY aggregation function, theorem coarsen_agg_eq_spec)"""
    bins, pixels, k, agg, col = case["bins"], case["pixels"], case["k"], case["agg"], case.get("column", "count")
    d = gen.tmpdir()
    src = os.path.join(d, f"a-{_tag()}-src.cool")
    out = os.path.join(d, f"a-{_tag()}-out.cool")
    try:
        w = [int((v * 7 + i * 3) % 11 - 4) for i, (_, _, v) in enumerate(pixels)]     # not monotone in storage order
        if col == "w":
            gen.write_cooler(src, bins, pixels, extra={"w": np.array(w, dtype=np.int64)}, columns=["count", "w"], dtypes={"w": "int64"})
            cols = ["count", "w"]
            aggpx = [[i, j, x] for (i, j, _), x in zip(pixels, w)]
        else:
            gen.write_cooler(src, bins, pixels)
            cols = ["count"]
            aggpx = pixels
        for cs in case["chunksizes"]:
            _unlink(out)
            impl(cooler.coarsen_cooler, src, out, k, chunksize=cs, columns=cols, agg={col: agg})
            t = cooler.Cooler(out).pixels()[:]
            if col not in t.columns:
                return {"mismatch": True, "chunksize": cs, "what": "requested value column missing from the output", "column": col}
            ma = drv().ask("C08.coarsen_agg", bins=bins, lens=_lens(bins), pixels=aggpx, k=k, chunksize=cs, agg=agg)
            assert ma["table_ok"], "generator produced a table outside the theorems' hypotheses"
            assert ma["l1_agrees"], "theorem coarsen_agg_eq_spec / coarsen_agg_correct contradicted"
            got = [[int(a), int(b), int(v)] for a, b, v in zip(t["bin1_id"], t["bin2_id"], t[col])]
            if got != ma["pixels"]:
                return {"mismatch": True, "chunksize": cs, "what": f"{col} column agg={agg}", "impl": got, "model": ma["pixels"]}
            if col == "w":
                mc = _ask_coarsen(bins, pixels, k, cs)
                gotc = [[int(a), int(b), int(v)] for a, b, v in zip(t["bin1_id"], t["bin2_id"], t["count"])]
                if gotc != mc["pixels"]:
                    return {"mismatch": True, "chunksize": cs, "what": "count column (sum) next to a custom agg on another column",
                            "impl": gotc, "model": mc["pixels"]}
            gb = gen.df_bins(cooler.Cooler(out).bins()[["chrom", "start", "end"]][:], list(cooler.Cooler(out).chromnames))
            if gb != ma["bins"]:
                return {"mismatch": True, "chunksize": cs, "what": "new bin table", "impl": gb, "model": ma["bins"]}
            v = [x for x in monitor.violations(out) if col == "w" or "sum" not in x]
            if v:
                return {"mismatch": True, "chunksize": cs, "what": "schema (C02 monitor)", "violated": v}
        return None
    finally:
        _unlink(src, out)


def _extra_column(case):
    """an extra value column requested through `columns=` is aggregated into the output (sum, or the requested aggregate);
    regression guard for D25 (coarsen_cooler did not pass `columns` to create)"""
    bins, pixels, k, agg = case["bins"], case["pixels"], case["k"], case["agg"]
    cols = case.get("columns", ["count", "w"])
    d = gen.tmpdir()
    src = os.path.join(d, f"x-{_tag()}-src.cool")
    out = os.path.join(d, f"x-{_tag()}-out.cool")
    try:
        w = [float(v * 2 + (i % 3)) for i, (_, _, v) in enumerate(pixels)]
        gen.write_cooler(src, bins, pixels, extra={"w": w}, columns=["count", "w"], dtypes={"w": "float64"})
        kw = {"agg": {"w": agg}} if agg != "sum" else {}
        impl(cooler.coarsen_cooler, src, out, k, chunksize=case["chunksize"], columns=cols, **kw)
        t = cooler.Cooler(out).pixels()[:]
        for col in cols:
            if col not in t.columns:
                return {"mismatch": True, "what": "requested value column missing from the output", "column": col,
                        "columns": list(map(str, t.columns))}
        m = _ask_coarsen(bins, pixels, k, case["chunksize"])
        cm = drv().ask("C08.rebin", bins=bins, lens=_lens(bins), k=k)["cmap"]
        keys = [(p[0], p[1]) for p in m["pixels"]]
        gotkeys = [(int(a), int(b)) for a, b in zip(t["bin1_id"], t["bin2_id"])]
        if gotkeys != keys:
            return {"mismatch": True, "what": "key set / order next to an extra column", "impl": gotkeys, "model": keys}
        if "count" in cols and [int(c) for c in t["count"]] != [p[2] for p in m["pixels"]]:
            return {"mismatch": True, "what": "count column next to an extra column", "impl": [int(c) for c in t["count"]],
                    "model": m["pixels"]}
        f = {"max": max, "min": min, "sum": sum}[agg]
        for key, x in zip(keys, t["w"]):
            vals = [y for (i, j, _), y in zip(pixels, w) if (cm[i], cm[j]) == key]
            if float(x) != f(vals):      # small integers: exact in float64
                return {"mismatch": True, "what": f"w column agg={agg}", "key": key, "impl": float(x), "expected": f(vals)}
        v = [x for x in monitor.violations(out) if "count" in cols or "sum" not in x]
        if v:
            return {"mismatch": True, "what": "schema (C02 monitor)", "violated": v}
        return None
    finally:
        _unlink(src, out)


def _value_columns(case):
    """value columns and their dtypes through coarsen_cooler and `cooler coarsen`: a FLOAT count column (multiples of 1/4)
    next to an integer column `w`, `dtypes` given as None / {} / a dict naming only some columns, per-column aggregates
    named in either order, block sums beyond int32.  Every column of the output vs Lean `coarsenSpecAgg` (sum = the
    aggregate "sum"); a sum that does not fit the output dtype must be refused, never stored differently (C01 checkedWrite)."""
    bins, pixels, k, cs = case["bins"], case["pixels"], case["k"], case["chunksize"]
    mode = case["mode"]
    d = gen.tmpdir()
    src = os.path.join(d, f"v-{_tag()}-src.cool")
    out = os.path.join(d, f"v-{_tag()}-out.cool")
    try:
        w = [int((v * 7 + i * 3) % 11 - 4) for i, (_, _, v) in enumerate(pixels)]
        wpx = [[i, j, x] for (i, j, _), x in zip(pixels, w)]
        scale = 1
        df = gen.pixels_df(pixels, "float64" if mode["count"] == "float" else "int32", {"w": np.array(w, dtype=np.int64)})
        if mode["count"] == "float":
            scale = 4
            df["count"] = df["count"] / 4.0
        cooler.create_cooler(src, gen.bins_df(bins), df, ordered=True, columns=["count", "w"],
                             dtypes={"w": "int64", "count": "float64" if scale == 4 else "int32"})
        aggs = mode["agg"]                       # {"count": "sum"|None, "w": "max"|...|None}; None = not named (default sum)
        order = mode["order"]                    # order in which the columns are requested
        want = {}
        for col, base in (("count", pixels), ("w", wpx)):
            a = aggs.get(col) or "sum"
            ma = drv().ask("C08.coarsen_agg", bins=bins, lens=_lens(bins), pixels=base, k=k, chunksize=cs, agg=a)
            assert ma["table_ok"] and ma["l1_agrees"], "theorem coarsen_agg_eq_spec contradicted"
            want[col] = ma["pixels"]
        # output dtype of count: the requested one, else the source's
        cdt = mode.get("count_dtype")
        out_dt = cdt or ("float64" if mode["count"] == "float" else "int32")
        fits = True
        if not out_dt.startswith("float"):
            sg, bt = (True, int(out_dt[3:])) if out_dt.startswith("int") else (False, int(out_dt[4:]))
            mcw = drv().ask("C01.checked_write", signed=sg, bits=bt, values=[p[2] for p in want["count"]])
            fits = mcw["stored"] is not None
        dt = mode["dtypes"]                      # None | "empty" | "w_only" | "all"
        dtypes = None if dt is None else {}
        if dt == "w_only":
            dtypes = {"w": np.dtype("int64")}
        elif dt == "all":
            dtypes = {"w": np.dtype("int64"), "count": np.dtype(out_dt)}
        if cdt and dt != "all":
            dtypes = dict(dtypes or {}, count=np.dtype(cdt))
        raised = None
        if mode["via"] == "lib" and mode["dtypes"] is None:
            # an earlier call in the same process on an INT32 source, also without `dtypes`: nothing of it may carry over
            src0, out0 = src + ".warm.cool", out + ".warm.cool"
            try:
                gen.write_cooler(src0, bins, [[i, j, 1 + (v % 5)] for i, j, v in pixels])
                impl(cooler.coarsen_cooler, src0, out0, k, chunksize=cs)
            finally:
                _unlink(src0, out0)
        if mode["via"] == "cli":
            from click.testing import CliRunner
            from cooler.cli import cli
            argv = ["coarsen", "-k", str(k), "-c", str(cs), "-o", out]
            for col in order:
                props = []
                if dtypes and col in dtypes:
                    props.append(f"dtype={dtypes[col]}")
                if aggs.get(col):
                    props.append(f"agg={aggs[col]}")
                argv += ["--field", col + (":" + ",".join(props) if props else "")]
            r = CliRunner().invoke(cli, argv + [src])
            if r.exit_code != 0:
                raised = repr(r.exception)[:200]
            where = {"argv": argv[:-1] + ["<out>", "<src>"]}
        else:
            kw = {}
            if any(aggs.get(c) for c in order):
                kw["agg"] = {c: aggs[c] for c in order if aggs.get(c)}
            if dtypes is not None or mode.get("explicit_none"):
                kw["dtypes"] = dtypes               # otherwise the argument is OMITTED (not the same as passing None)
            try:
                cooler.coarsen_cooler(src, out, k, chunksize=cs, columns=list(order), **kw)
            except Exception as e:  # noqa: refusal of a sum that does not fit is an allowed outcome
                raised = type(e).__name__
            where = {"call": f"coarsen_cooler(k={k}, chunksize={cs}, columns={list(order)}, dtypes={dtypes}, agg={kw.get('agg')})"}
        where.update(k=k, chunksize=cs, source_count_dtype="float64 (count/4)" if scale == 4 else "int32")
        if not fits:
            if raised is None:
                t = cooler.Cooler(out).pixels()[:]
                return dict(where, mismatch=True, what="a block aggregate that does not fit the output dtype was stored",
                            stored=[int(v) for v in t["count"]], model=[p[2] for p in want["count"]])
            return {"stats": {"refused_overflow": 1}}
        if raised is not None:
            return dict(where, mismatch=True, what="coarsening failed", raised=raised)
        t = impl(lambda: cooler.Cooler(out).pixels()[:])
        for col in order:
            if col not in t.columns:
                return dict(where, mismatch=True, what="requested value column missing from the output", column=col)
            vals = [float(v) * (scale if col == "count" else 1) for v in t[col]]
            got = [[int(a), int(b), int(round(v))] for a, b, v in zip(t["bin1_id"], t["bin2_id"], vals)]
            if got != want[col] or any(v != round(v) for v in vals):
                return dict(where, mismatch=True, what=f"column {col} (agg={aggs.get(col) or 'sum'})",
                            impl=[[a, b, v / (scale if col == "count" else 1)] for (a, b, _), v in zip(got, vals)],
                            model=[[a, b, v / (scale if col == "count" else 1)] for a, b, v in want[col]])
        if "count" in order and str(t["count"].dtype) != out_dt:
            return dict(where, mismatch=True, what="dtype of the count column", impl=str(t["count"].dtype), expected=out_dt)
        return {"stats": {"coarsened": 1}}
    finally:
        _unlink(src, out)



def _cli(case):
    from click.testing import CliRunner
    from cooler.cli import cli
    bins, pixels, k, cs = case["bins"], case["pixels"], case["k"], case["chunksize"]
    d = gen.tmpdir()
    src = os.path.join(d, f"l-{_tag()}-src.cool")
    out = os.path.join(d, f"l-{_tag()}-out.cool")
    try:
        gen.write_cooler(src, bins, pixels, symm=case.get("symm", True))
        m = _ask_coarsen(bins, pixels, k, cs)
        r = CliRunner().invoke(cli, ["coarsen", "-k", str(k), "-c", str(cs), "-o", out, src])
        if r.exit_code != 0:
            return {"mismatch": True, "what": "cooler coarsen failed", "exit_code": r.exit_code,
                    "exception": repr(r.exception)[:300], "output": (r.output or "")[-300:]}
        return _compare(out, m, {"k": k, "chunksize": cs, "via": "cli"})
    finally:
        _unlink(src, out)


# ----------------------------------------------------------------------------------------------
# units
# ----------------------------------------------------------------------------------------------

def _prune(case):
    from cooler._reduce import _greedy_prune_partition
    edges = case["edges"]
    for cs in case["chunksizes"]:
        got = impl(_greedy_prune_partition, np.array(edges), cs)
        got = [int(x) for x in got]
        # a repeated edge is an EMPTY span: it contributes an empty chunk, which is immaterial (theorem C02.writePixels_concat);
        # repeats are dropped before the contract (strictly increasing) is evaluated
        got = [x for k, x in enumerate(got) if k == 0 or x != got[k - 1]]
        if any(x < 0 for x in got):
            return {"mismatch": True, "chunksize": cs, "impl": got, "note": "negative edge"}
        m = drv().ask("C08.prune", edges=edges, maxlen=cs, impl_out=got)
        assert m["model_valid"], "theorem prune_contract contradicted"
        if not m["impl_valid"]:
            return {"mismatch": True, "chunksize": cs, "edges": edges, "impl": got, "model": m["model"],
                    "note": "not a strictly increasing sub-sequence of the edges from 0 to nnz"}
    return None


def _coarsener(case):
    from cooler._reduce import CoolerCoarsener
    bins, pixels, symm = case["bins"], case["pixels"], case.get("symm", True)
    d = gen.tmpdir()
    src = os.path.join(d, f"e-{_tag()}-src.cool")
    try:
        gen.write_cooler(src, bins, pixels, symm=symm)
        names = list(cooler.Cooler(src).chromnames)
        for k in _ks(case):
            for cs in _chunksizes(case):
                it = impl(CoolerCoarsener, src, k, cs, columns=["count"], agg=None, batchsize=1)
                edges = [int(x) for x in it.edges]
                if any(x < 0 for x in edges):
                    return {"mismatch": True, "k": k, "chunksize": cs, "impl_edges": edges, "note": "negative edge"}
                m = drv().ask("C08.stream", bins=bins, lens=_lens(bins), pixels=pixels, k=k, impl_edges=edges)
                if not m["impl_valid"]:
                    return {"mismatch": True, "k": k, "chunksize": cs, "impl_edges": edges, "coarse_row_edges": m["model_edges"],
                            "note": "span edges are not a strictly increasing chain of coarse-row boundaries from 0 to nnz"}
                assert m["stream_eq_spec"], "theorem coarsen_eq_spec contradicted"
                nb = gen.df_bins(it.new_bins[["chrom", "start", "end"]], names)
                mb = drv().ask("C08.bins", bins=bins, lens=_lens(bins), k=k)
                assert mb["model"] == mb["spec"], "theorem coarsenBins_spec contradicted"
                if nb != mb["model"]:
                    return {"mismatch": True, "k": k, "what": "new_bins", "impl": nb, "model": mb["model"]}
        return None
    finally:
        _unlink(src)


def _bins(case):
    from cooler._reduce import CoolerCoarsener
    bins = case["bins"]
    lens = _lens(bins)
    names = [gen.chromname(c) for c in range(len(lens))]
    df = gen.bins_df(bins, len(lens))
    cs = pd.Series(lens, index=names, dtype=np.int64)
    for k in case["ks"]:
        got = impl(CoolerCoarsener.coarsen_bins, df, cs, k)
        got = gen.df_bins(got, names)
        m = drv().ask("C08.bins", bins=bins, lens=lens, k=k)
        assert m["table_ok"], "generator produced a table outside the theorems' hypotheses"
        assert m["model"] == m["spec"], "theorem coarsenBins_spec contradicted"
        if got != m["model"]:
            return {"mismatch": True, "k": k, "impl": got, "model": m["model"]}
    return None


CHECKS = {"value_columns": _value_columns, "coarsen": _coarsen, "chain": _chain, "merge_coarsen": _merge_coarsen, "agg": _agg, "extra_column": _extra_column, "cli": _cli,
          "prune": _prune, "coarsener": _coarsener, "bins": _bins}


# ----------------------------------------------------------------------------------------------
# generators
# ----------------------------------------------------------------------------------------------

D1_TABLE = gen.chrom_bins(0, [10, 10, 10, 10, 25, 5]) + gen.chrom_bins(1, [10, 10])


ROUND_WIDTHS = [1000, 2000, 5000, 10000, 25000, 40000, 100000, 250000, 500000, 1000000]


def _src_width(rng):
    """a source bin width: anything in 1..200, or a round number of bases"""
    return rng.randint(1, 200) if rng.random() < 0.7 else rng.choice(ROUND_WIDTHS)


def _cuts(rng, total, parts):
    """`parts` positive widths adding up to `total` (total >= parts)"""
    cuts = sorted(rng.sample(range(1, total), parts - 1)) if parts > 1 else []
    return [b_ - a_ for a_, b_ in zip([0] + cuts, cuts + [total])]


def _widths(rng, style, nb, k=2, base=10):
    """widths of one chromosome with nb bins; `base` is the table's bin width (fixed styles) / width scale (variable ones)"""
    if style == "fixed":
        return [base] * nb
    if style == "short":
        return [base] * (nb - 1) + [rng.randint(1, max(1, base - 1))]
    if style == "var":
        return [rng.randint(1, max(1, base - 1)) for _ in range(nb)]
    if style == "unit":
        return [1] * nb
    if style == "giga":
        # irregular bins of 4-9 x 10^8 bp, at most two per chromosome: each chromosome stays below 2^31, the GENOME
        # (absolute positions, three or more chromosomes) does not
        return [rng.randint(4, 9) * 10 ** 8 for _ in range(nb)]
    # variable table whose k-coarsened bins look uniform (width b), last coarse bin shorter / equal / longer
    b = 12 if base == 10 else max(base, k)
    ws = []
    ngroups = -(-nb // k)
    for g in range(ngroups):
        size = min(k, nb - g * k)
        tot = b
        if g == ngroups - 1:
            tot = {"looks": rng.choice([b, rng.randint(size, b)]), "looks-long": b + rng.randint(1, max(9, b // 2))}[style]
        tot = max(tot, size)
        ws += _cuts(rng, tot, size)
    return ws


def _table(rng, nmax, style=None, k=2):
    n = rng.randint(1, nmax)
    layout = gen.split_layout(rng, n)
    if rng.random() < 0.2 and n >= 2:
        layout = [1] * min(n, 3) if rng.random() < 0.5 else [1, n - 1]
    style = style or rng.choice(["fixed", "fixed", "short", "var", "var", "unit", "looks", "looks-long", "giga"])
    if style == "giga":
        n = max(n, 6)
        layout = [2] * (n // 2) + ([1] if n % 2 else [])
    # the table's bin width: the classic 10, or any width in 1..200 / a round number of bases (the coarse width is k times it)
    base = 10 if rng.random() < 0.4 else _src_width(rng)
    bins = []
    for c, nb in enumerate(layout):
        bins += gen.chrom_bins(c, _widths(rng, style, nb, k, base))
    return bins, style


def _near_table(rng, nmax, k=None):
    """A source table designed for ONE factor k whose k-coarsened table is uniform, or uniform but for one feature, whatever
    the source looks like.  W = k*w is the coarse width (w in 1..200 or a round number of bases).  Every chromosome is
    `g` full blocks of k bins adding up to exactly W (k bins of w, or W cut at random into k bins) followed by a tail of
    s <= k bins that is shorter than / equal to / longer than W; g = 0 gives a chromosome of at most k bins (ONE coarse bin,
    down to one-bin chromosomes) shorter or longer than the common width.  Chromosomes are shuffled, so such a chromosome
    sits first, in the middle or last.  Fixed-width sources get a short, full or LONG last bin (a long last bin after
    fewer than k-1 bins of a block still gives a coarse bin <= W: source not uniform, coarse table uniform).  With
    probability ~1/8 every chromosome has at most k bins (coarse table: one bin per chromosome, no common width).
    Few bins, large coordinates."""
    k = k or rng.choice([2, 2, 2, 3, 3, 4, 5])
    w = _src_width(rng)
    W = w * k
    src = rng.choice(["fixed", "var", "var", "mixed"])
    budget = max(nmax + 3, 2 * k + 2)
    nch = rng.choice([1, 2, 2, 3, 3, 4])
    all_single = rng.random() < 0.12
    single = [all_single or (c > 0 and rng.random() < 0.5) for c in range(nch)]
    while single.count(False) > 1 and single.count(False) * (k + 1) + single.count(True) > budget:
        single[len(single) - 1 - single[::-1].index(False)] = True        # too many bins: the last such chromosome gets <= k
    nbody = single.count(False)
    # bins of the one-coarse-bin chromosomes first (1..k each, as many as a coarse bin can hold half of the time), the
    # chromosomes with full blocks share what is left (each at least one block and one more bin when that fits)
    plan = [None] * nch
    left = budget - nbody * (k + 1)
    for c in range(nch):
        if single[c]:
            rest = sum(single[c + 1:])
            s = max(1, min(k if rng.random() < 0.5 else rng.randint(1, k), left - rest))
            left -= s
            plan[c] = (0, s)
    left = max(left, 0) + nbody * (k + 1)
    bodies = [c for c in range(nch) if not single[c]]
    for t, c in enumerate(bodies):
        share = max(k + 1, left - (len(bodies) - t - 1) * (k + 1))
        g = rng.randint(1, max(1, min(3, (share - 1) // k)))
        s = rng.randint(1, max(1, min(k, share - g * k)))
        if rng.random() < 0.25:
            s = 0                                                       # the chromosome ends on a block boundary
        left -= g * k + s
        plan[c] = (g, s)
    chroms = []
    for g, s in plan:
        rel = rng.choice(["short", "equal", "long", "long", "long"] if g == 0 else ["short", "short", "equal", "equal", "equal", "long"])
        fixed = src == "fixed" or (src == "mixed" and rng.random() < (0.5 if g else 0.3))
        ws = []
        for _ in range(g):
            ws += [w] * k if fixed else _cuts(rng, W, k)
        if s and fixed:
            ws += [w] * (s - 1) + [{"short": rng.randint(1, w), "equal": w, "long": w + rng.randint(1, 2 * w)}[rel]]
        elif s:
            T = {"short": rng.randint(s, W), "equal": W, "long": W + rng.randint(1, 2 * W)}[rel]
            if rel == "long" and s >= 2 and rng.random() < 0.75:
                # the LAST bin of the tail starts at or beyond the common width
                t1 = rng.randint(W, T - 1)
                ws += _cuts(rng, t1, s - 1) + [T - t1]
            else:
                ws += _cuts(rng, T, s)
        chroms.append(ws)
    rng.shuffle(chroms)
    bins = []
    for c, ws in enumerate(chroms):
        bins += gen.chrom_bins(c, ws)
    return bins, k, W, src


def _size_sweep(rng):
    """coarse bin SIZES: a small two-chromosome cooler whose k-coarsened table is uniform with width W = k*w (w in 1..200 or a
    round number of bases; variable-width sources: any W), several coarse bins per chromosome, a pixel on every bin that
    starts on an exact multiple of W, ONE coarsening (the designed k, one chunk size).  Few bins, large coordinates."""
    k = rng.choice([2, 2, 3])
    fixed = rng.random() < 0.5
    # the small sizes (1..12) are every other style's; here mostly sizes no other style has
    w = rng.choice(ROUND_WIDTHS) if rng.random() < 0.15 else rng.randint(10, 400)
    W = w * k if fixed else rng.choice([w * k, rng.randint(49, 2000), rng.randint(49, 2000), rng.randint(49, 400)])
    chroms = []
    for g in (rng.randint(3, 5), rng.randint(1, 3)):
        ws = []
        for _ in range(g):
            ws += [w] * k if fixed else _cuts(rng, W, k)
        if rng.random() < 0.4:                                          # a shorter last coarse bin
            ws += [rng.randint(1, w)] if fixed else _cuts(rng, rng.randint(1, W), 1)
        chroms.append(ws)
    if rng.random() < 0.5:
        chroms.reverse()
    bins = gen.chrom_bins(0, chroms[0]) + gen.chrom_bins(1, chroms[1])
    n = len(bins)
    symm = rng.random() < 0.6
    marks = [i for i, (_, start, _) in enumerate(bins) if start % W == 0]
    cells = {(i, i) for i in marks}
    for i in marks:
        for j in marks:
            if rng.random() < 0.3 and (i <= j or not symm):
                cells.add((i, j))
    for _ in range(rng.randint(0, 6)):
        i, j = rng.randrange(n), rng.randrange(n)
        cells.add((min(i, j), max(i, j)) if symm else (i, j))
    px = [[i, j, 1 + i * (n + 1) + j * 3 + (7 if i == j else 0)] for i, j in sorted(cells)]
    return {"bins": bins, "pixels": px, "symm": symm, "style": "sizes-" + ("fixed" if fixed else "var"), "ks": [k],
            "chunksizes": [rng.choice([1, 2, 3, len(px) // 2 + 1, len(px) + 1])], "design": {"k": k, "coarse_width": W}}


def _near_cooler(rng, nmax, k=None):
    """a cooler over a `_near_table`; every bin that starts on an exact multiple of the coarse width and every bin of a
    chromosome of at most k bins carries a pixel"""
    bins, k, W, src = _near_table(rng, nmax, k)
    n = len(bins)
    symm = rng.random() < 0.6
    px = gen.matrix_kinds(rng, n, symm, rng.choice(["full", "full", "dense-random", "dense-random", "random", "nodiag", "gaps"]))
    counts = {}
    for c, _, _ in bins:
        counts[c] = counts.get(c, 0) + 1
    have = {(i, j) for i, j, _ in px}
    for i, (c, start, _) in enumerate(bins):
        if start > 0 and (start % W == 0 or counts[c] <= k) and (i, i) not in have:
            px.append([i, i, 1 + i * (n + 1) + i * 3 + 7])
    px.sort()
    ks = {k}
    if rng.random() < 0.5:
        ks.add(rng.choice([k + 1, 2 * k, max(counts.values()), max(2, max(counts.values()) - 1), n + 1]))
    nnz = len(px)
    cs = {1, rng.randint(1, nnz + 1), nnz + 1}
    if nnz > 3:
        cs.add(rng.randint(2, nnz - 1))
    return {"bins": bins, "pixels": px, "symm": symm, "style": "near-" + src, "ks": sorted(x for x in ks if x >= 2),
            "chunksizes": sorted(cs), "design": {"k": k, "coarse_width": W}}


def _cooler(rng, nmax, style=None, k=2):
    bins, style = _table(rng, nmax, style, k)
    n = len(bins)
    symm = rng.random() < 0.7
    px = gen.matrix_kinds(rng, n, symm)
    return {"bins": bins, "pixels": px, "symm": symm, "style": style}


def _limit(rng, c, thorough):
    """exhaustive chunk sizes for nnz <= 8, sampled beyond; k always 2..n+1"""
    nnz = len(c["pixels"])
    if nnz > 8:
        c["chunksizes"] = sorted({1, 2, 3, rng.randint(1, nnz), rng.randint(1, nnz), nnz - 1, nnz, nnz + 1})
        n = len(c["bins"])
        if not thorough and n > 4:
            c["ks"] = sorted({2, 3, rng.randint(2, n + 1), n, n + 1})
    return c


def cases(tier, rng):
    thorough = tier == "thorough"
    nmax = 10 if thorough else 7
    # corpus: D1 regression (coarsened bins look uniform, last one longer), D14 (empty source), pools
    d1px = [[0, 5, 1], [1, 1, 2], [1, 4, 5], [4, 4, 1], [4, 6, 3], [5, 5, 1], [5, 7, 2], [6, 7, 4]]
    yield "coarsen", {"bins": D1_TABLE, "pixels": d1px, "symm": True, "ks": [2, 3], "style": "D1"}
    yield "coarsen", {"bins": D1_TABLE, "pixels": [[0, 5, 1]], "symm": True, "ks": [2], "style": "D1"}
    yield "coarsen", {"bins": gen.layout_bins([3, 2]), "pixels": [], "symm": True, "style": "empty"}
    yield "coarsen", {"bins": gen.layout_bins([1]), "pixels": [[0, 0, 3]], "symm": True, "style": "onebin"}
    yield "coarsen", {"bins": gen.layout_bins([1, 1, 1]), "pixels": [[0, 0, 3], [0, 2, 1], [1, 2, 5]], "symm": True, "style": "onebin"}
    yield "coarsener", {"bins": D1_TABLE, "pixels": d1px, "symm": True, "ks": [2, 3]}
    pool_px = gen.matrix_kinds(rng, 6, True, "dense-random")
    for nproc in ([2] if not thorough else [2, 4]):
        yield "coarsen", {"bins": gen.layout_bins([4, 2]), "pixels": pool_px, "symm": True, "ks": [2, 3],
                          "chunksizes": [1, 2, 5], "nprocs": [nproc], "style": "pool"}
    for _ in range(420 if thorough else 60):
        c = _limit(rng, _cooler(rng, nmax), thorough)
        if thorough and rng.random() < 0.2:
            c["nprocs"] = [1, rng.choice([2, 4])]
            c["chunksizes"] = sorted({1, 2, rng.randint(1, len(c["pixels"]) + 1)})
        yield "coarsen", c
    # sources whose COARSENED table is uniform or nearly so whatever the source looks like (and the converse), coarse widths
    # k * (1..200 | round thousands): both re-binning paths of _aggregate on tables where they differ
    for _ in range(180 if thorough else 48):
        c = _near_cooler(rng, nmax)
        if thorough and rng.random() < 0.1:
            c["nprocs"] = [1, 2]
        yield "coarsen", c
    # coarse bin sizes well beyond the small ones, one coarsening per table
    for _ in range(400 if thorough else 160):
        yield "coarsen", _size_sweep(rng)
    for _ in range(90 if thorough else 12):
        c = _limit(rng, _cooler(rng, nmax), thorough)
        c.pop("style")
        yield "coarsener", c
    for _ in range(30 if thorough else 8):
        c = _near_cooler(rng, nmax)
        c.pop("style")
        yield "coarsener", c
    # chains: k1 then k2 == k1*k2 (fixed-width tables; variable ones as well, each step is L0 anyway)
    for _ in range(160 if thorough else 20):
        c = _cooler(rng, nmax + 3, rng.choice(["fixed", "fixed", "short", "unit", "var"]))
        c.update(k1=rng.randint(2, 4), k2=rng.randint(2, 4), cs1=rng.randint(1, 6), cs2=rng.randint(1, 6))
        yield "chain", c
    for _ in range(40 if thorough else 8):
        # the INTERMEDIATE table (after k1) is the uniform-looking one; the second step starts from it
        k1 = rng.randint(2, 4)
        c = _near_cooler(rng, nmax + 3, k1)
        for key in ("ks", "chunksizes"):
            c.pop(key)
        c.update(k1=k1, k2=rng.randint(2, 4), cs1=rng.randint(1, 6), cs2=rng.randint(1, 6))
        yield "chain", c
    # merge / coarsen interleavings
    for _ in range(110 if thorough else 14):
        bins, style = _table(rng, nmax)
        n = len(bins)
        symm = rng.random() < 0.7
        ins = [gen.matrix_kinds(rng, n, symm) for _ in range(rng.randint(2, 3))]
        if sum(len(x) for x in ins) == 0:
            ins[0] = gen.matrix_kinds(rng, n, symm, "full")
        yield "merge_coarsen", {"bins": bins, "inputs": ins, "k": rng.randint(2, n + 1), "symm": symm,
                                "cs": rng.randint(1, 6), "mergebuf": rng.randint(1, 8)}
    for _ in range(24 if thorough else 6):
        bins, k, _W, _src = _near_table(rng, nmax)
        n = len(bins)
        symm = rng.random() < 0.7
        ins = [gen.matrix_kinds(rng, n, symm, rng.choice(["full", "dense-random", "random", "nodiag"])) for _ in range(rng.randint(2, 3))]
        yield "merge_coarsen", {"bins": bins, "inputs": ins, "k": k, "symm": symm, "cs": rng.randint(1, 6), "mergebuf": rng.randint(1, 8)}
    for t in range(48 if thorough else 16):
        near = t % 4 == 3                      # every fourth on a table designed for its factor (see _near_table)
        bins, k = _near_table(rng, nmax)[:2] if near else (_table(rng, nmax)[0], None)
        px = gen.matrix_kinds(rng, len(bins), True, rng.choice(["full", "dense-random", "random", "nodiag"]))
        c = {"bins": bins, "pixels": px or gen.matrix_kinds(rng, len(bins), True, "full")}
        c.update(k=k or rng.randint(2, len(bins) + 1), chunksize=rng.randint(1, 6))
        nnz = len(c["pixels"])
        yield "agg", dict(c, agg=["max", "min", "first", "last"][t % 4], column=["count", "w"][(t // 4) % 2],
                          chunksizes=sorted({1, 2, rng.randint(1, nnz + 1), nnz + 1}))
        if t % 2 == 0:
            yield "extra_column", dict(c, agg=["sum", "max", "min"][(t // 2) % 3])
        if t % 4 == 1:
            yield "extra_column", dict(c, agg=["max", "sum"][(t // 4) % 2], columns=["w"])
    for _ in range(10 if thorough else 4):
        c = _cooler(rng, nmax)
        yield "cli", dict(c, k=rng.randint(2, len(c["bins"]) + 1), chunksize=rng.randint(1, 6))
    for _ in range(24 if thorough else 6):
        c = _near_cooler(rng, nmax)
        ks, css = c.pop("ks"), c.pop("chunksizes")
        yield "cli", dict(c, k=ks[0], chunksize=rng.choice(css))
    # value columns and dtypes (library and CLI)
    for t in range(96 if thorough else 24):
        near = t % 6 == 5
        bins, kd = _near_table(rng, nmax)[:2] if near else (_table(rng, nmax)[0], None)
        px = gen.matrix_kinds(rng, len(bins), True, rng.choice(["full", "dense-random", "random", "nodiag"]))
        px = px or gen.matrix_kinds(rng, len(bins), True, "full")
        big = t % 4 == 3
        if big:
            px = [[i, j, 2 ** 30 + v] for i, j, v in px]
        mode = {"count": "int" if big else ["float", "float", "int"][t % 3],
                "via": ["lib", "cli"][(t // 2) % 2],
                "dtypes": [None, "empty", "w_only", "all"][(t // 4) % 4],
                "agg": {"count": rng.choice([None, None, "sum"]), "w": rng.choice([None, "max", "min", "first", "last", "sum"])},
                "order": rng.choice([["count", "w"], ["w", "count"]]),
                "count_dtype": rng.choice([None, "int64"]) if big else None, "explicit_none": rng.random() < 0.3}
        yield "value_columns", {"bins": bins, "pixels": px, "k": kd or rng.randint(2, len(bins) + 1), "chunksize": rng.randint(1, 6),
                                "mode": mode}
    # units
    for _ in range(200 if thorough else 60):
        m = rng.randint(1, 9)
        steps = [rng.choice([0, 0, 1, 1, 2, 3, 7]) for _ in range(m)]
        edges = [0] + list(itertools.accumulate(steps))
        yield "prune", {"edges": edges, "chunksizes": list(range(1, min(edges[-1], 14) + 2)) + [10 ** 6]}
    for _ in range(120 if thorough else 40):
        bins, style = _table(rng, nmax + 4)
        yield "bins", {"bins": bins, "ks": list(range(2, min(len(bins), 8) + 2))}
    yield "bins", {"bins": D1_TABLE, "ks": [2, 3, 4, 7]}
    for _ in range(60 if thorough else 20):
        bins, k, _W, _src = _near_table(rng, nmax + 4)
        yield "bins", {"bins": bins, "ks": sorted({k, k + 1, 2 * k})}


def nontrivial(name, case):
    if name in ("coarsen", "coarsener", "chain", "agg", "extra_column", "cli", "value_columns"):
        return len(case["pixels"]) >= 2 and len(case["bins"]) >= 3
    if name == "merge_coarsen":
        return sum(len(x) for x in case["inputs"]) >= 2 and len(case["bins"]) >= 3
    if name == "prune":
        return case["edges"][-1] >= 2
    return len(case["bins"]) >= 3


def distribution(name, case):
    if name == "value_columns":
        m = case["mode"]
        yield f"value_columns.via={m['via']}"
        yield f"value_columns.count={m['count']}{'(block sums beyond int32)' if case['pixels'] and case['pixels'][0][2] >= 2 ** 30 else ''}"
        yield f"value_columns.dtypes={m['dtypes']}"
        yield f"value_columns.agg_named={sorted(c for c in m['agg'] if m['agg'][c])}"
    if name == "coarsen":
        yield f"coarsen.{case.get('style', '?')}.{'symm' if case.get('symm', True) else 'square'}"
        yield f"coarsen.nchroms={len(_lens(case['bins']))}"
        if "design" in case:
            W = case["design"]["coarse_width"]
            yield "coarsen.near.coarse_width" + ("<49" if W < 49 else "=49..999" if W < 1000 else ">=1000")
            counts = {}
            for c, _, _ in case["bins"]:
                counts[c] = counts.get(c, 0) + 1
            k = case["design"]["k"]
            lens = _lens(case["bins"])
            for c in sorted(counts):
                if counts[c] <= k and lens[c] != W:
                    pos = "first" if c == 0 else "last" if c == len(lens) - 1 else "middle"
                    yield f"coarsen.near.one_coarse_bin_chrom.{'longer' if lens[c] > W else 'shorter'}.{pos if len(lens) > 1 else 'only'}"


def shrink(name, case):
    if name in ("coarsen", "coarsener"):
        for k in _ks(case):
            if _ks(case) != [k]:
                yield dict(case, ks=[k])
        for cs in _chunksizes(case):
            if _chunksizes(case) != [cs]:
                yield dict(case, chunksizes=[cs])
    if name in ("coarsen", "coarsener", "chain", "cli"):
        px = case["pixels"]
        for i in range(len(px)):
            c = dict(case, pixels=px[:i] + px[i + 1:])
            if "chunksizes" in c and name != "cli":
                c["chunksizes"] = sorted({min(x, len(c["pixels"]) + 1) for x in c["chunksizes"]})
            yield c


def escalate(name, case, rng):
    """a unit of the decomposition stopped checking: look for a wrong coarsening end to end"""
    worker_init()
    todo = []
    if name == "coarsener":
        todo.append({"bins": case["bins"], "pixels": case["pixels"], "symm": case.get("symm", True)})
    if name == "bins":
        b = case["bins"]
        n = len(b)
        todo.append({"bins": b, "pixels": gen.matrix_kinds(rng, n, True, "full"), "symm": True,
                     "ks": case["ks"], "chunksizes": [1, 3, 1000]})
    for _ in range(60):
        todo.append(_limit(rng, _cooler(rng, 7), False))
    for _ in range(40):
        todo.append(_near_cooler(rng, 7))
    # pool-related scenario
    todo.append({"bins": gen.layout_bins([4, 3]), "pixels": gen.matrix_kinds(rng, 7, True, "full"), "symm": True,
                 "ks": [2, 3], "chunksizes": [1, 2, 3], "nprocs": [4]})
    for c in todo:
        r = run_check(_coarsen, c)
        if r:
            return {"check": "coarsen", "case": c, "result": r}
    return None
