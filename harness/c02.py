"""C02 — every cooler any operation writes is a structurally valid CSR collection."""
from __future__ import annotations

import itertools
import os

import numpy as np
import pandas as pd

from harness import gen, monitor
from harness.common import ImplRaised, drv, impl, run_check

PID = "C02"
THEOREMS = ["rlencodeChunked_eq", "runStartsFrom_append", "fillIdx_spec", "indexPixels_spec", "indexPixels_chunked_spec",
            "writePixels_concat", "create_valid", "create_zero_chunks", "countIndex_eq_csrIndex", "merge_valid", "unordered_valid", "fillIdx_segs", "indexFromRle_of_segs", "indexFromRle_of_runs"]
LEVELS = {"history": "top", "rlencode": "unit", "index": "unit", "bigindex": "top", "cli_load": "top"}
DESCRIBE = {
    "history": "a seeded history of producing operations (create ordered/unordered, merge, coarsen, zoomify, legacy quad-tree zoomify, scool, append to one file); "
               "EVERY collection of EVERY file written is dumped raw with h5py and judged by Lean `schemaViolations` "
               "(= conclusion of theorem create_valid)",
    "rlencode": "cooler.util.rlencode(array, chunksize=c): contract `runsSpell` (non-empty constant runs from 0 spelling out the array; theorem indexFromRle_of_runs: the index builder is correct for ANY such run list) evaluated by Lean on "
                "the real output; equality with the maximal encoding `rlencodeChunked c` (= `rlencode`, theorem rlencodeChunked_eq) is "
                "logged, not gating",
    "index": "cooler.create._create.index_pixels on a dict-backed group vs Lean `indexPixels` (= `countIndex` by indexPixels_spec)",
    "bigindex": "end-to-end creation with > 10^6 pixels so that index_pixels crosses its literal 1 000 000-row block; raw offsets vs numpy bincount reference evaluated... by Lean on a sampled set of rows",
    "cli_load": "`cooler load` / `cooler cload pairs` outputs judged by the raw monitor",
}
RULE = ("histories: 3-6 producing operations chained on small coolers (n<=8 bins, 1-3 chromosomes, fixed and variable width, both "
        "storage modes), chunk/buffer sizes 1..nnz+1 drawn per step; rlencode: ALL non-decreasing arrays of length <=6 (quick) / <=7 "
        "(thorough) over 4 values x all chunk sizes 1..len+1, plus unsorted and long random arrays; non-trivial = history writing "
        ">=2 collections or array with >=2 runs; distinct by canonical JSON")
EXHAUSTIVE = {"quick": False, "thorough": False}
TRUSTED = ["h5py reads of raw datasets/attributes", "HDF5 filters are value-transparent",
           "numpy flatnonzero/diff/concatenate in rlencode are primitives of the model's per-block step"]
ASSUMPTIONS = ["count columns hold integers or multiples of 1/4 (floats are compared exactly after scaling by 4096; a float column with "
               "other values makes the monitor skip the sum clause)"]
CHUNK = 2


def worker_init():
    global cooler
    import cooler  # noqa


def _rlencode(case):
    from cooler.util import rlencode
    xs = case["xs"]
    arr = np.array(xs, dtype=np.int64)
    nonmax = 0
    for c in case["chunks"]:
        st, ln, vals = impl(rlencode, arr, c)
        runs = [[int(s), int(v)] for s, v in zip(st, vals)]
        m = drv().ask("C02.rle", xs=xs, c=(c if c is not None else max(len(xs), 1)), impl_runs=runs)
        assert m["chunked"] == m["plain"], "theorem rlencodeChunked_eq contradicted"
        assert m["model_valid"] or not xs, "the maximal encoding must satisfy runsSpell"
        if not m["impl_valid"]:
            return {"mismatch": True, "chunksize": c, "impl_runs": runs, "model_runs": m["plain"],
                    "note": "runs are not non-empty constant runs from 0 that spell out the array (contract runsSpell)"}
        if [int(x) for x in ln] != [b - a for a, b in zip([r[0] for r in runs], [r[0] for r in runs][1:] + [len(xs)])]:
            return {"mismatch": True, "chunksize": c, "impl_runs": runs, "impl_lengths": [int(x) for x in ln],
                    "note": "run lengths are not the differences of the run starts"}
        if runs != m["plain"]:
            nonmax += 1      # valid but not maximal: the index builder is provably insensitive; logged, not gating
    return {"stats": {"non_maximal_encodings": nonmax}} if nonmax else None


def _index(case):
    from cooler.create._create import index_bins, index_pixels
    xs, n = case["xs"], case["n"]
    # real (in-memory) HDF5 datasets, laid out as cooler lays them out: a rewrite may use any dataset attribute
    import h5py
    with h5py.File(f"c02-index-{os.getpid()}.h5", "w", driver="core", backing_store=False) as f:
        grp = f.create_group("t")
        for nm in ("bin1_id", "chrom"):
            grp.create_dataset(nm, data=np.array(xs, dtype=np.int64), maxshape=(None,), chunks=(4,), compression="gzip")
        got = [int(x) for x in impl(index_pixels, grp, n, len(xs))]
        got2 = [int(x) for x in impl(index_bins, grp, n, len(xs))]
    m = drv().ask("C02.index", xs=xs, n=n)
    assert m["model"] == m["spec"], "theorem indexPixels_spec contradicted"
    if got != m["spec"] or got2 != m["spec"]:
        return {"mismatch": True, "impl_index_pixels": got, "impl_index_bins": got2, "model": m["spec"]}
    return None


def _check_file(path, label, trail):
    """validate every collection of a file; returns a mismatch dict or None"""
    from cooler.fileops import list_coolers
    groups = impl(list_coolers, path)
    if not groups:
        return {"mismatch": True, "after": label, "note": "operation produced no collection", "history": trail}
    for g in groups:
        v = monitor.violations(path, g)
        if v:
            d, _ = monitor.dump_raw(path, g)
            return {"mismatch": True, "after": label, "group": g, "violated": v, "history": trail,
                    "raw": {k: d[k] for k in ("pixels", "bin1_offset", "chrom_offset", "nnz", "len1", "len2", "lenv", "sum")}}
    return None


def _history(case):
    import random
    rng = random.Random(case["seed"])
    d = gen.tmpdir()
    tag = f"{os.getpid()}"
    files = []
    trail = []

    def newfile(ext=".cool"):
        p = os.path.join(d, f"h-{tag}-{len(files)}{ext}")
        if os.path.exists(p):
            os.unlink(p)
        files.append(p)
        return p

    try:
        n = case["n"]
        symm = case["symm"]
        layout = case["layout"]
        if case["var"]:
            bins = []
            for c, k in enumerate(layout):
                ws = [rng.randint(1, 9) for _ in range(k)]
                bins += gen.chrom_bins(c, ws)
        else:
            w = rng.choice([1, 2, 5, 10])
            bins = []
            for c, k in enumerate(layout):
                L = k * w - (rng.randint(0, w - 1) if w > 1 else 0)
                ws = [w] * (k - 1) + [L - (k - 1) * w]
                if case.get("longbin") and len(layout) > 1 and c == len(layout) - 1:
                    ws = [w + rng.randint(1, 2 * w)] * k if k == 1 else [w] * (k - 1) + [w + rng.randint(1, w)]
                bins += gen.chrom_bins(c, ws)
        bdf = gen.bins_df(bins)
        base = []  # (path, uri) of coolers over the base table
        for step in range(case["steps"]):
            opts = ["create", "create_chunks", "create_unsorted_chunks", "unordered", "empty", "bigcounts", "empty_extra", "unsigned"]
            if base:
                opts += ["merge", "merge", "coarsen", "coarsen", "zoomify", "append", "legacy_zoomify"]
            if step == 0:
                opts = ["create", "create_chunks", "create_unsorted_chunks", "unordered"]
            op = case["ops"][step] if "ops" in case else rng.choice(opts)
            force2 = op == "zoomify2"
            if force2:
                op = "zoomify"
            px = gen.matrix_kinds(rng, n, symm)
            if op == "create":
                p = newfile()
                trail.append(["create", len(px)])
                impl(gen.write_cooler, p, bins, px, symm=symm)
                base.append(p)
            elif op == "bigcounts":
                # every value fits int32, the TOTAL does not
                p = newfile()
                big = [[i, j, 2 ** 30 + 7 * k] for k, (i, j, _) in enumerate(px[:5])] or [[0, 0, 2 ** 30]]
                cuts2 = [len(big) // 2]
                chunks = [big[:cuts2[0]], big[cuts2[0]:]]
                trail.append(["create-big-counts", [c[2] for c in big]])
                impl(cooler.create_cooler, p, bdf, (gen.pixels_df(c) for c in chunks if c), symmetric_upper=symm, ordered=True)
                r = _check_file(p, "bigcounts", trail)
                if r:
                    return r
                q = newfile()
                impl(cooler.merge_coolers, q, [p], mergebuf=3)
                r = _check_file(q, "merge of bigcounts", trail)
                if r:
                    return r
                continue
            elif op == "empty_extra":
                # no chunk at all, with a supplementary value column: every pixel column must end up with length nnz = 0;
                # then the same through merge and coarsen of that file
                p = newfile()
                trail.append(["create-empty-stream-with-extra-column"])
                impl(cooler.create_cooler, p, bdf, iter([]), symmetric_upper=symm, ordered=True, columns=["count", "score"],
                     dtypes={"score": "float64"})
                r = _check_file(p, "empty stream, extra column", trail)
                if r:
                    return r
                q = newfile()
                impl(cooler.merge_coolers, q, [p, p], mergebuf=3, columns=["count", "score"])
                r = _check_file(q, "merge of empty coolers with an extra column", trail)
                if r:
                    return r
                if n >= 2:
                    q2 = newfile()
                    impl(cooler.coarsen_cooler, p, q2, 2, 3, columns=["count", "score"])
                    r = _check_file(q2, "coarsen of an empty cooler with an extra column", trail)
                    if r:
                        return r
                continue
            elif op == "unsigned":
                # the count column GIVEN as uint32 with a value beyond int32 (stored dtype: the default int32): refused, or
                # stored exactly (C01.checkedWrite) — the monitor then compares the stored column with the `sum` attribute
                p = newfile()
                vals = [[i, j, v] for i, j, v in px[:4]] or [[0, 0, 1]]
                df = gen.pixels_df(vals)
                cnt = np.array([v for _, _, v in vals], dtype=np.uint32)
                cnt[len(cnt) // 2] = np.uint32(3000000000 + len(cnt))
                df["count"] = cnt
                trail.append(["create-count-given-as-uint32", [int(x) for x in cnt]])
                try:
                    cooler.create_cooler(p, bdf, df, symmetric_upper=symm, ordered=True)
                except ValueError:
                    continue              # refused: allowed
                r = _check_file(p, "count given as uint32 beyond int32", trail)
                if r:
                    return r
                continue
            elif op == "empty":
                p = newfile()
                trail.append(["create-empty-stream"])
                impl(cooler.create_cooler, p, bdf, iter([]), symmetric_upper=symm, ordered=True)
                base.append(p)
            elif op == "create_chunks":
                p = newfile()
                cuts = sorted(rng.randint(0, len(px)) for _ in range(rng.randint(0, 3)))
                chunks = [px[a:b] for a, b in zip([0] + cuts, cuts + [len(px)])]
                trail.append(["create-chunks", [len(c) for c in chunks]])
                impl(cooler.create_cooler, p, bdf, (gen.pixels_df(c) for c in chunks), symmetric_upper=symm, ordered=True)
                base.append(p)
            elif op == "create_unsorted_chunks":
                # chunks cover ascending row ranges but are shuffled inside; the validator is asked to sort them
                p = newfile()
                cuts = sorted(rng.randint(0, len(px)) for _ in range(rng.randint(0, 2)))
                # cut only at row boundaries so that the chunk sequence stays globally ordered
                cuts = [c for c in cuts if c == 0 or c == len(px) or px[c - 1][0] != px[c][0]]
                chunks = [list(px[a:b]) for a, b in zip([0] + cuts, cuts + [len(px)])]
                for c in chunks:
                    rows = sorted({r[0] for r in c})
                    if rng.random() < 0.5:
                        # rows stay in order, columns inside a row do not
                        c[:] = [r for row in rows for r in rng.sample([x for x in c if x[0] == row], len([x for x in c if x[0] == row]))]
                    else:
                        rng.shuffle(c)
                trail.append(["create-unsorted-chunks(ensure_sorted)", [len(c) for c in chunks]])
                impl(cooler.create_cooler, p, bdf, (gen.pixels_df(c) for c in chunks), symmetric_upper=symm, ordered=True,
                     ensure_sorted=True)
                base.append(p)
            elif op == "unordered":
                p = newfile()
                recs = list(px) + [list(r) for r in rng.sample(px, min(len(px), 2))]
                rng.shuffle(recs)
                k = rng.randint(1, 4)
                chunks = [sorted(recs[i::k]) for i in range(k)]
                chunks = [self_merge(c) for c in chunks]
                mb = rng.randint(1, len(recs) + 1)
                mm = rng.choice([1, 2, 3, 200])
                trail.append(["unordered", [len(c) for c in chunks], mb, mm])
                impl(cooler.create_cooler, p, bdf, (gen.pixels_df(c) for c in chunks), symmetric_upper=symm,
                     ordered=False, mergebuf=mb, max_merge=mm)
                base.append(p)
            elif op == "append":
                p = rng.choice(base)
                g = rng.choice(["/extra", "/x/y"])
                trail.append(["append-collection", g])
                impl(gen.write_cooler, p + "::" + g, bins, px, symm=symm, mode="a")
            elif op == "merge":
                k = rng.randint(1, min(3, len(base)))
                ins = [rng.choice(base) for _ in range(k)]
                p = newfile()
                mb = rng.randint(1, 12)
                trail.append(["merge", k, mb])
                impl(cooler.merge_coolers, p, ins, mergebuf=mb)
                base.append(p)
            elif op == "coarsen":
                src = rng.choice(base)
                p = newfile()
                k = rng.randint(2, n + 1)
                cs = rng.randint(1, 12)
                trail.append(["coarsen", k, cs])
                impl(cooler.coarsen_cooler, src, p, k, cs)
                r = _check_file(p, f"coarsen k={k} chunksize={cs}", trail)
                if r:
                    return r
                # merge of coarsened with itself
                if rng.random() < 0.4:
                    q = newfile()
                    trail.append(["merge-of-coarsened"])
                    impl(cooler.merge_coolers, q, [p, p], mergebuf=rng.randint(1, 9))
                    r = _check_file(q, "merge of coarsened", trail)
                    if r:
                        return r
                continue
            elif op == "legacy_zoomify":
                # the legacy quad-tree producer (`cooler zoomify --legacy`): levels ::n ... ::0 by repeated factor-2 coarsening;
                # the tile dimension (module constant, 256) is lowered so that small bases get several levels
                import cooler._reduce as red
                src = rng.choice(base)
                if cooler.Cooler(src).binsize is None:
                    continue                       # legacy layout needs a fixed bin size
                p = newfile(".mcool")
                cs = rng.randint(1, 12)
                tile = rng.randint(1, 3)
                trail.append(["legacy_zoomify", cs, f"tile={tile}"])
                old = red.HIGLASS_TILE_DIM
                red.HIGLASS_TILE_DIM = tile
                try:
                    impl(red.legacy_zoomify, src, p, 1, cs)
                finally:
                    red.HIGLASS_TILE_DIM = old
                r = _check_file(p, f"legacy_zoomify chunksize={cs} tile={tile}", trail)
                if r:
                    return r
                continue
            elif op == "zoomify":
                src = rng.choice(base)
                c = cooler.Cooler(src)
                if c.binsize is None:
                    res = [2, 4]
                else:
                    res = [int(c.binsize) * m for m in rng.sample([2, 3, 4, 6], 2)]
                p = newfile(".mcool")
                cs = rng.randint(1, 12)
                srcs = src
                if c.binsize is not None and (force2 or rng.random() < 0.5):
                    # a second base at a coarser resolution with a FLOAT count column (values multiples of 1/4)
                    b2 = int(c.binsize) * 5
                    src2 = newfile()
                    cbins = impl(lambda: cooler.Cooler(src).bins()[:])
                    import pandas as pd2
                    cs_ = pd2.Series({str(k): int(v) for k, v in cooler.Cooler(src).chromsizes.items()})
                    nb2 = cooler.binnify(cs_, b2)
                    n2 = len(nb2)
                    px2 = gen.matrix_kinds(rng, n2, symm)
                    df2 = gen.pixels_df([[i, j, 0] for i, j, _ in px2])
                    df2["count"] = np.array([v + 0.25 for _, _, v in px2], dtype=np.float64)   # never integral
                    impl(cooler.create_cooler, src2, nb2, df2, symmetric_upper=symm, ordered=True, dtypes={"count": "float64"})
                    srcs = [src, src2]
                    res = sorted({int(c.binsize) * 2, b2 * 2})
                    files.append(src2) if src2 not in files else None
                # the dtypes argument omitted, or an explicit empty dict (what `cooler zoomify --field count` passes): with two
                # bases each level takes the dtype of ITS base either way (D27, repaired)
                zkw = {"dtypes": {}} if (force2 or rng.random() < 0.5) else {}
                trail.append(["zoomify", res, cs, "two bases (int32 + float64)" if isinstance(srcs, list) else "one base",
                              "dtypes={}" if zkw else "dtypes omitted"])
                impl(cooler.zoomify_cooler, srcs, p, res, cs, **zkw)
                r = _check_file(p, f"zoomify {res}", trail)
                if r:
                    return r
                continue
            r = _check_file(files[-1] if op != "append" else p, op, trail)
            if r:
                return r
        # single-cell file from the base tables
        if case.get("scool"):
            p = newfile(".scool")
            cells = {f"cell{i}": gen.pixels_df(gen.matrix_kinds(rng, n, True)) for i in range(rng.randint(1, 3))}
            trail.append(["create_scool", list(cells)])
            impl(cooler.create_scool, p, bdf, cells)
            from cooler.fileops import list_scool_cells
            for cell in list_scool_cells(p):
                v = monitor.violations(p, cell)
                if v:
                    return {"mismatch": True, "after": "create_scool", "group": cell, "violated": v, "history": trail}
        return {"stats": {"collections": len(files)}}
    finally:
        for p in files:
            if os.path.exists(p):
                os.unlink(p)


def self_merge(chunk):
    """sum duplicates inside one chunk (a chunk must not repeat a pixel: dupcheck)"""
    acc = {}
    for i, j, v in chunk:
        acc[(i, j)] = acc.get((i, j), 0) + v
    return [[i, j, v] for (i, j), v in sorted(acc.items())]


def _cli_load(case):
    import random
    from click.testing import CliRunner
    from cooler.cli import cli
    rng = random.Random(case["seed"])
    d = gen.tmpdir()
    n = case["n"]
    w = 10
    cs = os.path.join(d, f"cs-{os.getpid()}.txt")
    out = os.path.join(d, f"cli-{os.getpid()}.cool")
    txt = os.path.join(d, f"in-{os.getpid()}.txt")
    try:
        with open(cs, "w") as f:
            f.write(f"c0\t{n * w - 3}\n")
        px = gen.matrix_kinds(rng, n, True)
        if case["fmt"] == "coo":
            rows = list(px)
            rng.shuffle(rows)
            with open(txt, "w") as f:
                for i, j, v in rows:
                    f.write(f"{i}\t{j}\t{v}\n")
            args = ["load", "-f", "coo", "--chunksize", str(rng.randint(1, 5)), "--mergebuf", str(rng.randint(1, 9)),
                    f"{cs}:{w}", txt, out]
        else:
            with open(txt, "w") as f:
                for k in range(rng.randint(1, 30)):
                    a, b = rng.randint(1, n * w - 3), rng.randint(1, n * w - 3)
                    f.write(f"r{k}\tc0\t{a}\tc0\t{b}\t+\t-\n")
            args = ["cload", "pairs", "-c1", "2", "-p1", "3", "-c2", "4", "-p2", "5", "--chunksize", str(rng.randint(1, 7)),
                    "--mergebuf", str(rng.randint(1, 9)), f"{cs}:{w}", txt, out]
        r = CliRunner().invoke(cli, args)
        if r.exit_code != 0:
            return {"mismatch": True, "args": args, "exit": r.exit_code, "exception": repr(r.exception)[:300]}
        return _check_file(out, " ".join(args[:3]), [args])
    finally:
        for p in (cs, out, txt):
            if os.path.exists(p):
                os.unlink(p)


def _bigindex(case):
    """> 10^6 pixels: index_pixels crosses its literal 1 000 000-row block; a run straddles the boundary"""
    n = case["n"]
    d = gen.tmpdir()
    p = os.path.join(d, f"big-{os.getpid()}.cool")
    try:
        if case.get("bigrow"):
            # ONE row fills a whole literal block: row 0 holds 10^6 pixels, row 1 starts exactly at offset 10^6 and holds
            # 10^6 pixels (the second block consists of a single run), then two short rows and the last row
            n = 1_000_003
            bdf = pd.DataFrame({"chrom": ["c1"] * n, "start": np.arange(n, dtype=np.int64), "end": np.arange(n, dtype=np.int64) + 1})
            M = 1_000_000
            k = case.get("shift", 0)            # row 1 starts at offset 10^6 + shift
            b1 = np.concatenate([np.zeros(M + k, dtype=np.int64), np.ones(M, dtype=np.int64), np.full(2, 2), np.full(1, n - 1)])
            b2 = np.concatenate([np.arange(M + k), np.arange(1, M + 1), np.array([2, 5]), np.array([n - 1])]).astype(np.int64)
            df = pd.DataFrame({"bin1_id": b1, "bin2_id": b2, "count": np.ones(len(b1), dtype=np.int32)})
            impl(cooler.create_cooler, p, bdf, df, ordered=True)
        else:
            bins = gen.layout_bins([n], 10)
            iu = np.triu_indices(n)
            b1, b2 = iu[0].astype(np.int64), iu[1].astype(np.int64)
            df = pd.DataFrame({"bin1_id": b1, "bin2_id": b2, "count": np.ones(len(b1), dtype=np.int32)})
            impl(cooler.create_cooler, p, gen.bins_df(bins), df, ordered=True)
        import h5py
        with h5py.File(p, "r") as f:
            off = f["indexes/bin1_offset"][:]
            bin1 = f["pixels/bin1_id"][:]
            nnz = int(f.attrs["nnz"])
        assert nnz > 1_000_000
        # rows around the block boundary and a spread of others: Lean evaluates the index of the window
        row_at = int(bin1[1_000_000])
        if case.get("bigrow"):
            row_at = 1
        lo = max(0, row_at - 2)
        hi = min(n, row_at + 3)
        sel = bin1[(bin1 >= lo) & (bin1 < hi)]          # the stored records of rows [lo, hi)
        a = int((bin1 < lo).sum())                      # records before them
        xs = [int(x) - lo for x in sel]
        m = drv().ask("C02.index", xs=xs, n=hi - lo)
        got = [int(x) - a for x in off[lo:hi + 1]]
        if got != m["spec"]:
            return {"mismatch": True, "rows": [lo, hi], "impl_offsets_relative": got, "model": m["spec"],
                    "note": "bin1_offset wrong around the 1e6-row block boundary of index_pixels"}
        # whole index: monotone, ends at nnz, consistent with the stored column at every row start
        if int(off[-1]) != nnz or (np.diff(off) < 0).any() or not (bin1[off[:-1][np.diff(off) > 0]] == np.nonzero(np.diff(off) > 0)[0]).all():
            return {"mismatch": True, "note": "bin1_offset inconsistent with bin1_id"}
        return None
    finally:
        if os.path.exists(p):
            os.unlink(p)


CHECKS = {"history": _history, "rlencode": _rlencode, "index": _index, "bigindex": _bigindex, "cli_load": _cli_load}


def nontrivial(name, case):
    if name == "history":
        return case["steps"] >= 2
    if name in ("rlencode", "index"):
        return len(set(case["xs"])) >= 2
    return True


def distribution(name, case):
    if name == "history":
        yield f"history.symm={case['symm']}.var={case['var']}"


def nondecreasing(length, nvals):
    return itertools.combinations_with_replacement(range(nvals), length)


def cases(tier, rng):
    thorough = tier == "thorough"
    # corpus (minimised witnesses of seeded changes C02-1..3 first)
    yield "rlencode", {"xs": [0, 0, 1, 1, 2, 2], "chunks": [1, 2, 3]}          # a run starting exactly on a block start
    yield "history", {"seed": 11, "n": 5, "symm": True, "var": False, "layout": [3, 1, 1], "steps": 2, "scool": False, "longbin": True}
    yield "history", {"seed": 12, "n": 6, "symm": False, "var": False, "layout": [6], "steps": 3, "scool": False}
    # second-wave seeded changes: zoomify from two bases with different count dtypes; totals beyond int32; scool cells
    for sd in (21, 22, 23, 24):
        yield "history", {"seed": sd, "n": 14 + sd % 3, "symm": True, "var": False, "layout": [14 + sd % 3], "steps": 2, "scool": sd % 2 == 0,
                          "ops": ["create", "zoomify2"]}
    yield "history", {"seed": 25, "n": 5, "symm": True, "var": False, "layout": [3, 2], "steps": 2, "scool": True, "ops": ["bigcounts", "create"]}
    # third-wave seeded changes: empty stream with an extra value column; count given in an unsigned dtype
    yield "history", {"seed": 26, "n": 6, "symm": True, "var": False, "layout": [4, 2], "steps": 3, "scool": False,
                      "ops": ["create", "empty_extra", "unsigned"]}
    yield "history", {"seed": 27, "n": 7, "symm": True, "var": False, "layout": [5, 2], "steps": 2, "scool": False, "ops": ["create", "legacy_zoomify"]}
    yield "history", {"seed": 28, "n": 6, "symm": False, "var": False, "layout": [6], "steps": 3, "scool": False,
                      "ops": ["unordered", "merge", "legacy_zoomify"]}
    yield "rlencode", {"xs": [0, 0, 1, 1, 1, 3], "chunks": [1, 2, 3, 4, 5, 6, 7]}
    yield "index", {"xs": [2, 2, 5], "n": 7}
    yield "index", {"xs": [], "n": 3}
    maxlen = 7 if thorough else 6
    for L in range(0, maxlen + 1):
        for xs in nondecreasing(L, 4):
            yield "rlencode", {"xs": list(xs), "chunks": list(range(1, L + 2)) + [None]}
            yield "index", {"xs": list(xs), "n": 4}
            if L <= 4:
                yield "index", {"xs": list(xs), "n": 6}
    for _ in range(200 if thorough else 40):
        L = rng.randint(1, 40)
        xs = [rng.randint(0, 5) for _ in range(L)]   # unsorted: the encoder is total
        yield "rlencode", {"xs": xs, "chunks": [1, 2, 3, 7, L, L + 1]}
        ys = sorted(rng.randint(0, 30) for _ in range(rng.randint(0, 200)))
        yield "rlencode", {"xs": ys, "chunks": [1, 2, 5, 64, len(ys) + 1]}
        yield "index", {"xs": ys, "n": 31 + rng.randint(0, 3)}
    for k in range(400 if thorough else 70):
        n = rng.randint(2, 8)
        yield "history", {"seed": rng.randrange(10 ** 9), "n": n, "symm": rng.random() < 0.7, "var": rng.random() < 0.3,
                          "layout": gen.split_layout(rng, n), "steps": rng.randint(2, 6 if thorough else 4),
                          "scool": k % 7 == 0, "longbin": k % 5 == 1}
    for k in range(30 if thorough else 6):
        yield "cli_load", {"seed": rng.randrange(10 ** 9), "n": rng.randint(2, 6), "fmt": "coo" if k % 2 else "pairs"}
    yield "bigindex", {"n": 1600 if thorough else 1450}     # 1 051 975 pixels already cross the literal 10^6 block (1.5 s)
    yield "bigindex", {"n": 0, "bigrow": True}              # a row that IS a whole block, starting exactly on the block boundary
    if thorough:
        yield "bigindex", {"n": 0, "bigrow": True, "shift": 1}
        yield "bigindex", {"n": 0, "bigrow": True, "shift": 999_999}


def shrink(name, case):
    if name in ("rlencode", "index"):
        xs = case["xs"]
        for k in range(len(xs)):
            c = dict(case); c["xs"] = xs[:k] + xs[k + 1:]
            yield c
    if name == "history" and case["steps"] > 1:
        c = dict(case); c["steps"] = case["steps"] - 1
        yield c


def escalate(name, case, rng):
    """index/rlencode unit stopped checking: run the >10^6-pixel creation (the only place the code uses a
    block size smaller than the column) and a batch of histories"""
    worker_init()
    r = run_check(_bigindex, {"n": 1600})
    if r:
        return {"check": "bigindex", "case": {"n": 1600}, "result": r}
    for k in range(30):
        n = rng.randint(2, 7)
        c = {"seed": rng.randrange(10 ** 9), "n": n, "symm": True, "var": False, "layout": [n], "steps": 3, "scool": False}
        r = run_check(_history, c)
        if r:
            return {"check": "history", "case": c, "result": r}
    return None
