"""C02 — every cooler any operation writes is a structurally valid CSR collection."""
from __future__ import annotations

import itertools
import os

import numpy as np
import pandas as pd

from harness import gen, monitor
from harness.common import ImplRaised, drv, impl, run_check

PID = "C02"
THEOREMS = ["rlencodeChunked_eq", "runStartsFrom_append", "fillIdx_spec", "indexPixels_spec", "indexPixels_chunked_spec",
            "writePixels_concat", "create_valid", "create_zero_chunks", "countIndex_eq_csrIndex", "merge_valid", "unordered_valid", "fillIdx_segs", "indexFromRle_of_segs", "indexFromRle_of_runs",
            "sortedChunks_flatten_strict", "create_sortedChunks_valid", "create_ensureSorted_valid", "linKey_lt_iff",
            "linKey_int32_witness", "linKey32_exact"]
LEVELS = {"history": "top", "rlencode": "unit", "index": "unit", "bigindex": "top", "cli_load": "top", "bigtable": "top"}
DESCRIBE = {
    "history": "a seeded history of producing operations (create ordered/unordered, merge, coarsen, zoomify, legacy quad-tree zoomify, scool, append to one file); "
               "EVERY collection of EVERY file written is dumped raw with h5py and judged by Lean `schemaViolations` "
               "(= conclusion of theorem create_valid)",
    "rlencode": "cooler.util.rlencode(array, chunksize=c): contract `runsSpell` (non-empty constant runs from 0 spelling out the array; theorem indexFromRle_of_runs: the index builder is correct for ANY such run list) evaluated by Lean on "
                "the real output; equality with the maximal encoding `rlencodeChunked c` (= `rlencode`, theorem rlencodeChunked_eq) is "
                "logged, not gating",
    "index": "cooler.create._create.index_pixels on a dict-backed group vs Lean `indexPixels` (= `countIndex` by indexPixels_spec)",
    "bigindex": "end-to-end creation with > 10^6 pixels so that index_pixels crosses its literal 1 000 000-row block; raw offsets vs numpy bincount reference evaluated... by Lean on a sampled set of rows",
    "cli_load": "`cooler load` / `cooler cload pairs` outputs judged by the raw monitor",
    "bigtable": "bin tables of 33 000 - 70 000 bins (fixed / variable width, 1-3 chromosomes, both storage modes) with a few dozen pixels whose "
                "row and column ids sit on the marks where an id or a product id x nbins crosses 2^8 / 2^15 / 2^16 / 2^31 / 2^32 (and at both "
                "ends of the table); the id arrays are GIVEN in every integer dtype that holds them (int16 ... uint64, the two columns "
                "independently, frames and dicts); written through every producing path (one table, ordered stream, ensure_sorted with "
                "chunks shuffled inside, cooler.create.create, unordered ingestion with and without ensure_sorted, single-cell file, "
                "`cooler load`), id columns STORED as int64 (default) / int32 / uint32, then merged / coarsened / zoomified (which read the "
                "ids back in the stored dtype); EVERY collection judged by Lean `schemaViolations` on the raw dump",
}
RULE = ("histories: 3-6 producing operations chained on small coolers (n<=8 bins, 1-3 chromosomes, fixed and variable width, both "
        "storage modes), chunk/buffer sizes 1..nnz+1 drawn per step; rlencode: ALL non-decreasing arrays of length <=6 (quick) / <=7 "
        "(thorough) over 4 values x all chunk sizes 1..len+1, plus unsorted and long random arrays; bigtable: 7 fixed + 4 (40) seeded "
        "tables of 32 769..70 000 bins x id dtype pair x stored id dtype x producing paths x follow-up producers; non-trivial = history writing "
        ">=2 collections or array with >=2 runs; distinct by canonical JSON")
EXHAUSTIVE = {"quick": False, "thorough": False}
TRUSTED = ["h5py reads of raw datasets/attributes", "HDF5 filters are value-transparent",
           "numpy flatnonzero/diff/concatenate in rlencode are primitives of the model's per-block step"]
ASSUMPTIONS = ["count columns hold integers or multiples of 1/4 (floats are compared exactly after scaling by 4096; a float column with "
               "other values makes the monitor skip the sum clause)"]
CHUNK = 2


def worker_init():
    global cooler
    import cooler  # noqa


def _rlencode(case):
    from cooler.util import rlencode
    xs = case["xs"]
    arr = np.array(xs, dtype=np.int64)
    nonmax = 0
    for c in case["chunks"]:
        st, ln, vals = impl(rlencode, arr, c)
        runs = [[int(s), int(v)] for s, v in zip(st, vals)]
        m = drv().ask("C02.rle", xs=xs, c=(c if c is not None else max(len(xs), 1)), impl_runs=runs)
        assert m["chunked"] == m["plain"], "theorem rlencodeChunked_eq contradicted"
        assert m["model_valid"] or not xs, "the maximal encoding must satisfy runsSpell"
        if not m["impl_valid"]:
            return {"mismatch": True, "chunksize": c, "impl_runs": runs, "model_runs": m["plain"],
                    "note": "runs are not non-empty constant runs from 0 that spell out the array (contract runsSpell)"}
        if [int(x) for x in ln] != [b - a for a, b in zip([r[0] for r in runs], [r[0] for r in runs][1:] + [len(xs)])]:
            return {"mismatch": True, "chunksize": c, "impl_runs": runs, "impl_lengths": [int(x) for x in ln],
                    "note": "run lengths are not the differences of the run starts"}
        if runs != m["plain"]:
            nonmax += 1      # valid but not maximal: the index builder is provably insensitive; logged, not gating
    return {"stats": {"non_maximal_encodings": nonmax}} if nonmax else None


def _index(case):
    from cooler.create._create import index_bins, index_pixels
    xs, n = case["xs"], case["n"]
    # real (in-memory) HDF5 datasets, laid out as cooler lays them out: a rewrite may use any dataset attribute
    import h5py
    with h5py.File(f"c02-index-{os.getpid()}.h5", "w", driver="core", backing_store=False) as f:
        grp = f.create_group("t")
        for nm in ("bin1_id", "chrom"):
            grp.create_dataset(nm, data=np.array(xs, dtype=np.int64), maxshape=(None,), chunks=(4,), compression="gzip")
        got = [int(x) for x in impl(index_pixels, grp, n, len(xs))]
        got2 = [int(x) for x in impl(index_bins, grp, n, len(xs))]
    m = drv().ask("C02.index", xs=xs, n=n)
    assert m["model"] == m["spec"], "theorem indexPixels_spec contradicted"
    if got != m["spec"] or got2 != m["spec"]:
        return {"mismatch": True, "impl_index_pixels": got, "impl_index_bins": got2, "model": m["spec"]}
    return None


def _check_file(path, label, trail):
    """validate every collection of a file; returns a mismatch dict or None"""
    from cooler.fileops import list_coolers
    groups = impl(list_coolers, path)
    if not groups:
        return {"mismatch": True, "after": label, "note": "operation produced no collection", "history": trail}
    for g in groups:
        v = monitor.violations(path, g)
        if v:
            d, _ = monitor.dump_raw(path, g)
            return {"mismatch": True, "after": label, "group": g, "violated": v, "history": trail,
                    "raw": {k: d[k] for k in ("pixels", "bin1_offset", "chrom_offset", "nnz", "len1", "len2", "lenv", "sum")}}
    return None


def _history(case):
    import random
    rng = random.Random(case["seed"])
    d = gen.tmpdir()
    tag = f"{os.getpid()}"
    files = []
    trail = []

    def newfile(ext=".cool"):
        p = os.path.join(d, f"h-{tag}-{len(files)}{ext}")
        if os.path.exists(p):
            os.unlink(p)
        files.append(p)
        return p

    try:
        n = case["n"]
        symm = case["symm"]
        layout = case["layout"]
        if case["var"]:
            bins = []
            for c, k in enumerate(layout):
                ws = [rng.randint(1, 9) for _ in range(k)]
                bins += gen.chrom_bins(c, ws)
        else:
            w = rng.choice([1, 2, 5, 10])
            bins = []
            for c, k in enumerate(layout):
                L = k * w - (rng.randint(0, w - 1) if w > 1 else 0)
                ws = [w] * (k - 1) + [L - (k - 1) * w]
                if case.get("longbin") and len(layout) > 1 and c == len(layout) - 1:
                    ws = [w + rng.randint(1, 2 * w)] * k if k == 1 else [w] * (k - 1) + [w + rng.randint(1, w)]
                bins += gen.chrom_bins(c, ws)
        bdf = gen.bins_df(bins)
        base = []  # (path, uri) of coolers over the base table
        for step in range(case["steps"]):
            opts = ["create", "create_chunks", "create_unsorted_chunks", "unordered", "empty", "bigcounts", "empty_extra", "unsigned"]
            if base:
                opts += ["merge", "merge", "coarsen", "coarsen", "zoomify", "append", "legacy_zoomify"]
            if step == 0:
                opts = ["create", "create_chunks", "create_unsorted_chunks", "unordered"]
            op = case["ops"][step] if "ops" in case else rng.choice(opts)
            force2 = op == "zoomify2"
            if force2:
                op = "zoomify"
            px = gen.matrix_kinds(rng, n, symm)
            if op == "create":
                p = newfile()
                trail.append(["create", len(px)])
                impl(gen.write_cooler, p, bins, px, symm=symm)
                base.append(p)
            elif op == "bigcounts":
                # every value fits int32, the TOTAL does not
                p = newfile()
                big = [[i, j, 2 ** 30 + 7 * k] for k, (i, j, _) in enumerate(px[:5])] or [[0, 0, 2 ** 30]]
                cuts2 = [len(big) // 2]
                chunks = [big[:cuts2[0]], big[cuts2[0]:]]
                trail.append(["create-big-counts", [c[2] for c in big]])
                impl(cooler.create_cooler, p, bdf, (gen.pixels_df(c) for c in chunks if c), symmetric_upper=symm, ordered=True)
                r = _check_file(p, "bigcounts", trail)
                if r:
                    return r
                q = newfile()
                impl(cooler.merge_coolers, q, [p], mergebuf=3)
                r = _check_file(q, "merge of bigcounts", trail)
                if r:
                    return r
                continue
            elif op == "empty_extra":
                # no chunk at all, with a supplementary value column: every pixel column must end up with length nnz = 0;
                # then the same through merge and coarsen of that file
                p = newfile()
                trail.append(["create-empty-stream-with-extra-column"])
                impl(cooler.create_cooler, p, bdf, iter([]), symmetric_upper=symm, ordered=True, columns=["count", "score"],
                     dtypes={"score": "float64"})
                r = _check_file(p, "empty stream, extra column", trail)
                if r:
                    return r
                q = newfile()
                impl(cooler.merge_coolers, q, [p, p], mergebuf=3, columns=["count", "score"])
                r = _check_file(q, "merge of empty coolers with an extra column", trail)
                if r:
                    return r
                if n >= 2:
                    q2 = newfile()
                    impl(cooler.coarsen_cooler, p, q2, 2, 3, columns=["count", "score"])
                    r = _check_file(q2, "coarsen of an empty cooler with an extra column", trail)
                    if r:
                        return r
                continue
            elif op == "unsigned":
                # the count column GIVEN as uint32 with a value beyond int32 (stored dtype: the default int32): refused, or
                # stored exactly (C01.checkedWrite) — the monitor then compares the stored column with the `sum` attribute
                p = newfile()
                vals = [[i, j, v] for i, j, v in px[:4]] or [[0, 0, 1]]
                df = gen.pixels_df(vals)
                cnt = np.array([v for _, _, v in vals], dtype=np.uint32)
                cnt[len(cnt) // 2] = np.uint32(3000000000 + len(cnt))
                df["count"] = cnt
                trail.append(["create-count-given-as-uint32", [int(x) for x in cnt]])
                try:
                    cooler.create_cooler(p, bdf, df, symmetric_upper=symm, ordered=True)
                except ValueError:
                    continue              # refused: allowed
                r = _check_file(p, "count given as uint32 beyond int32", trail)
                if r:
                    return r
                continue
            elif op == "empty":
                p = newfile()
                trail.append(["create-empty-stream"])
                impl(cooler.create_cooler, p, bdf, iter([]), symmetric_upper=symm, ordered=True)
                base.append(p)
            elif op == "create_chunks":
                p = newfile()
                cuts = sorted(rng.randint(0, len(px)) for _ in range(rng.randint(0, 3)))
                chunks = [px[a:b] for a, b in zip([0] + cuts, cuts + [len(px)])]
                trail.append(["create-chunks", [len(c) for c in chunks]])
                impl(cooler.create_cooler, p, bdf, (gen.pixels_df(c) for c in chunks), symmetric_upper=symm, ordered=True)
                base.append(p)
            elif op == "create_unsorted_chunks":
                # chunks cover ascending row ranges but are shuffled inside; the validator is asked to sort them
                p = newfile()
                cuts = sorted(rng.randint(0, len(px)) for _ in range(rng.randint(0, 2)))
                # cut only at row boundaries so that the chunk sequence stays globally ordered
                cuts = [c for c in cuts if c == 0 or c == len(px) or px[c - 1][0] != px[c][0]]
                chunks = [list(px[a:b]) for a, b in zip([0] + cuts, cuts + [len(px)])]
                for c in chunks:
                    rows = sorted({r[0] for r in c})
                    if rng.random() < 0.5:
                        # rows stay in order, columns inside a row do not
                        c[:] = [r for row in rows for r in rng.sample([x for x in c if x[0] == row], len([x for x in c if x[0] == row]))]
                    else:
                        rng.shuffle(c)
                trail.append(["create-unsorted-chunks(ensure_sorted)", [len(c) for c in chunks]])
                impl(cooler.create_cooler, p, bdf, (gen.pixels_df(c) for c in chunks), symmetric_upper=symm, ordered=True,
                     ensure_sorted=True)
                base.append(p)
            elif op == "unordered":
                p = newfile()
                recs = list(px) + [list(r) for r in rng.sample(px, min(len(px), 2))]
                rng.shuffle(recs)
                k = rng.randint(1, 4)
                chunks = [sorted(recs[i::k]) for i in range(k)]
                chunks = [self_merge(c) for c in chunks]
                mb = rng.randint(1, len(recs) + 1)
                mm = rng.choice([1, 2, 3, 200])
                trail.append(["unordered", [len(c) for c in chunks], mb, mm])
                impl(cooler.create_cooler, p, bdf, (gen.pixels_df(c) for c in chunks), symmetric_upper=symm,
                     ordered=False, mergebuf=mb, max_merge=mm)
                base.append(p)
            elif op == "append":
                p = rng.choice(base)
                g = rng.choice(["/extra", "/x/y"])
                trail.append(["append-collection", g])
                impl(gen.write_cooler, p + "::" + g, bins, px, symm=symm, mode="a")
            elif op == "merge":
                k = rng.randint(1, min(3, len(base)))
                ins = [rng.choice(base) for _ in range(k)]
                p = newfile()
                mb = rng.randint(1, 12)
                trail.append(["merge", k, mb])
                impl(cooler.merge_coolers, p, ins, mergebuf=mb)
                base.append(p)
            elif op == "coarsen":
                src = rng.choice(base)
                p = newfile()
                k = rng.randint(2, n + 1)
                cs = rng.randint(1, 12)
                trail.append(["coarsen", k, cs])
                impl(cooler.coarsen_cooler, src, p, k, cs)
                r = _check_file(p, f"coarsen k={k} chunksize={cs}", trail)
                if r:
                    return r
                # merge of coarsened with itself
                if rng.random() < 0.4:
                    q = newfile()
                    trail.append(["merge-of-coarsened"])
                    impl(cooler.merge_coolers, q, [p, p], mergebuf=rng.randint(1, 9))
                    r = _check_file(q, "merge of coarsened", trail)
                    if r:
                        return r
                continue
            elif op == "legacy_zoomify":
                # the legacy quad-tree producer (`cooler zoomify --legacy`): levels ::n ... ::0 by repeated factor-2 coarsening;
                # the tile dimension (module constant, 256) is lowered so that small bases get several levels
                import cooler._reduce as red
                src = rng.choice(base)
                if cooler.Cooler(src).binsize is None:
                    continue                       # legacy layout needs a fixed bin size
                p = newfile(".mcool")
                cs = rng.randint(1, 12)
                tile = rng.randint(1, 3)
                trail.append(["legacy_zoomify", cs, f"tile={tile}"])
                old = red.HIGLASS_TILE_DIM
                red.HIGLASS_TILE_DIM = tile
                try:
                    impl(red.legacy_zoomify, src, p, 1, cs)
                finally:
                    red.HIGLASS_TILE_DIM = old
                r = _check_file(p, f"legacy_zoomify chunksize={cs} tile={tile}", trail)
                if r:
                    return r
                continue
            elif op == "zoomify":
                src = rng.choice(base)
                c = cooler.Cooler(src)
                if c.binsize is None:
                    res = [2, 4]
                else:
                    res = [int(c.binsize) * m for m in rng.sample([2, 3, 4, 6], 2)]
                p = newfile(".mcool")
                cs = rng.randint(1, 12)
                srcs = src
                if c.binsize is not None and (force2 or rng.random() < 0.5):
                    # a second base at a coarser resolution with a FLOAT count column (values multiples of 1/4)
                    b2 = int(c.binsize) * 5
                    src2 = newfile()
                    cbins = impl(lambda: cooler.Cooler(src).bins()[:])
                    import pandas as pd2
                    cs_ = pd2.Series({str(k): int(v) for k, v in cooler.Cooler(src).chromsizes.items()})
                    nb2 = cooler.binnify(cs_, b2)
                    n2 = len(nb2)
                    px2 = gen.matrix_kinds(rng, n2, symm)
                    df2 = gen.pixels_df([[i, j, 0] for i, j, _ in px2])
                    df2["count"] = np.array([v + 0.25 for _, _, v in px2], dtype=np.float64)   # never integral
                    impl(cooler.create_cooler, src2, nb2, df2, symmetric_upper=symm, ordered=True, dtypes={"count": "float64"})
                    srcs = [src, src2]
                    res = sorted({int(c.binsize) * 2, b2 * 2})
                    files.append(src2) if src2 not in files else None
                # the dtypes argument omitted, or an explicit empty dict (what `cooler zoomify --field count` passes): with two
                # bases each level takes the dtype of ITS base either way (D27, repaired)
                zkw = {"dtypes": {}} if (force2 or rng.random() < 0.5) else {}
                trail.append(["zoomify", res, cs, "two bases (int32 + float64)" if isinstance(srcs, list) else "one base",
                              "dtypes={}" if zkw else "dtypes omitted"])
                impl(cooler.zoomify_cooler, srcs, p, res, cs, **zkw)
                r = _check_file(p, f"zoomify {res}", trail)
                if r:
                    return r
                continue
            r = _check_file(files[-1] if op != "append" else p, op, trail)
            if r:
                return r
        # single-cell file from the base tables
        if case.get("scool"):
            p = newfile(".scool")
            cells = {f"cell{i}": gen.pixels_df(gen.matrix_kinds(rng, n, True)) for i in range(rng.randint(1, 3))}
            trail.append(["create_scool", list(cells)])
            impl(cooler.create_scool, p, bdf, cells)
            from cooler.fileops import list_scool_cells
            for cell in list_scool_cells(p):
                v = monitor.violations(p, cell)
                if v:
                    return {"mismatch": True, "after": "create_scool", "group": cell, "violated": v, "history": trail}
        return {"stats": {"collections": len(files)}}
    finally:
        for p in files:
            if os.path.exists(p):
                os.unlink(p)


def self_merge(chunk):
    """sum duplicates inside one chunk (a chunk must not repeat a pixel: dupcheck)"""
    acc = {}
    for i, j, v in chunk:
        acc[(i, j)] = acc.get((i, j), 0) + v
    return [[i, j, v] for (i, j), v in sorted(acc.items())]


def _cli_load(case):
    import random
    from click.testing import CliRunner
    from cooler.cli import cli
    rng = random.Random(case["seed"])
    d = gen.tmpdir()
    n = case["n"]
    w = 10
    cs = os.path.join(d, f"cs-{os.getpid()}.txt")
    out = os.path.join(d, f"cli-{os.getpid()}.cool")
    txt = os.path.join(d, f"in-{os.getpid()}.txt")
    try:
        with open(cs, "w") as f:
            f.write(f"c0\t{n * w - 3}\n")
        px = gen.matrix_kinds(rng, n, True)
        if case["fmt"] == "coo":
            rows = list(px)
            rng.shuffle(rows)
            with open(txt, "w") as f:
                for i, j, v in rows:
                    f.write(f"{i}\t{j}\t{v}\n")
            args = ["load", "-f", "coo", "--chunksize", str(rng.randint(1, 5)), "--mergebuf", str(rng.randint(1, 9)),
                    f"{cs}:{w}", txt, out]
        else:
            with open(txt, "w") as f:
                for k in range(rng.randint(1, 30)):
                    a, b = rng.randint(1, n * w - 3), rng.randint(1, n * w - 3)
                    f.write(f"r{k}\tc0\t{a}\tc0\t{b}\t+\t-\n")
            args = ["cload", "pairs", "-c1", "2", "-p1", "3", "-c2", "4", "-p2", "5", "--chunksize", str(rng.randint(1, 7)),
                    "--mergebuf", str(rng.randint(1, 9)), f"{cs}:{w}", txt, out]
        r = CliRunner().invoke(cli, args)
        if r.exit_code != 0:
            return {"mismatch": True, "args": args, "exit": r.exit_code, "exception": repr(r.exception)[:300]}
        return _check_file(out, " ".join(args[:3]), [args])
    finally:
        for p in (cs, out, txt):
            if os.path.exists(p):
                os.unlink(p)


def _bigindex(case):
    """> 10^6 pixels: index_pixels crosses its literal 1 000 000-row block; a run straddles the boundary"""
    n = case["n"]
    d = gen.tmpdir()
    p = os.path.join(d, f"big-{os.getpid()}.cool")
    try:
        if case.get("bigrow"):
            # ONE row fills a whole literal block: row 0 holds 10^6 pixels, row 1 starts exactly at offset 10^6 and holds
            # 10^6 pixels (the second block consists of a single run), then two short rows and the last row
            M = 1_000_000
            k = case.get("shift", 0)            # row 1 starts at offset 10^6 + shift
            n = 1_000_003 + k                   # row 0 holds columns 0 .. 10^6 + shift - 1: the table must have them
            bdf = pd.DataFrame({"chrom": ["c1"] * n, "start": np.arange(n, dtype=np.int64), "end": np.arange(n, dtype=np.int64) + 1})
            b1 = np.concatenate([np.zeros(M + k, dtype=np.int64), np.ones(M, dtype=np.int64), np.full(2, 2), np.full(1, n - 1)])
            b2 = np.concatenate([np.arange(M + k), np.arange(1, M + 1), np.array([2, 5]), np.array([n - 1])]).astype(np.int64)
            df = pd.DataFrame({"bin1_id": b1, "bin2_id": b2, "count": np.ones(len(b1), dtype=np.int32)})
            impl(cooler.create_cooler, p, bdf, df, ordered=True)
        else:
            bins = gen.layout_bins([n], 10)
            iu = np.triu_indices(n)
            b1, b2 = iu[0].astype(np.int64), iu[1].astype(np.int64)
            df = pd.DataFrame({"bin1_id": b1, "bin2_id": b2, "count": np.ones(len(b1), dtype=np.int32)})
            impl(cooler.create_cooler, p, gen.bins_df(bins), df, ordered=True)
        import h5py
        with h5py.File(p, "r") as f:
            off = f["indexes/bin1_offset"][:]
            bin1 = f["pixels/bin1_id"][:]
            nnz = int(f.attrs["nnz"])
        assert nnz > 1_000_000
        # rows around the block boundary and a spread of others: Lean evaluates the index of the window
        row_at = int(bin1[1_000_000])
        if case.get("bigrow"):
            row_at = 1
        lo = max(0, row_at - 2)
        hi = min(n, row_at + 3)
        sel = bin1[(bin1 >= lo) & (bin1 < hi)]          # the stored records of rows [lo, hi)
        a = int((bin1 < lo).sum())                      # records before them
        xs = [int(x) - lo for x in sel]
        m = drv().ask("C02.index", xs=xs, n=hi - lo)
        got = [int(x) - a for x in off[lo:hi + 1]]
        if got != m["spec"]:
            return {"mismatch": True, "rows": [lo, hi], "impl_offsets_relative": got, "model": m["spec"],
                    "note": "bin1_offset wrong around the 1e6-row block boundary of index_pixels"}
        # whole index: monotone, ends at nnz, consistent with the stored column at every row start
        if int(off[-1]) != nnz or (np.diff(off) < 0).any() or not (bin1[off[:-1][np.diff(off) > 0]] == np.nonzero(np.diff(off) > 0)[0]).all():
            return {"mismatch": True, "note": "bin1_offset inconsistent with bin1_id"}
        return None
    finally:
        if os.path.exists(p):
            os.unlink(p)


# ------------------------------------------------------------------------------------------------------------------
# big bin tables: ids (and products of ids with the number of bins) beyond the 16/31/32-bit marks, with the id arrays
# GIVEN in every integer dtype that holds them, through every producing path
# ------------------------------------------------------------------------------------------------------------------

BIG_ID_DTYPES = ("int64", "int32", "uint32", "uint64", "uint16", "int16")
BIG_PATHS = ("frame", "frame_ensure", "ordered", "ordered_ensure", "create_ensure", "unordered", "unordered_ensure", "scool_ensure", "cli_load")
BIG_STORED = (None, None, "int32", "uint32")     # dtype of the STORED id columns (`dtypes=`): what merge / coarsen / zoomify read back
BIG_FOLLOW = ("merge", "coarsen", "zoomify")


def big_landmarks(n):
    """bin ids of an n-bin table at which an id, or a product id * n (a linearised (row, column) key), crosses a
    machine-integer mark (2^8, 2^15, 2^16, 2^31, 2^32), plus both ends of the table"""
    marks = {0, 1, 2, 255, 256, 2 ** 15 - 1, 2 ** 15, 46340, 46341, 2 ** 16 - 1, 2 ** 16, n // 2, n - 2, n - 1}
    for bits in (15, 16, 31, 32):
        q = 2 ** bits // n
        marks |= {q - 1, q, q + 1}
    return sorted(m for m in marks if 0 <= m < n)


def big_pixels(rng, n, symm, cap1, cap2, npx):
    """a few dozen pixels of an n-bin matrix, sorted by (row, column), keys distinct; rows/columns drawn from the landmarks
    and at random, rows <= cap1 and columns <= cap2 (what the dtypes the ids are given in can hold)"""
    hi1, hi2 = min(n - 1, cap1), min(n - 1, cap2)
    if symm:
        hi1 = min(hi1, hi2)
    marks = big_landmarks(n)
    r_marks = [m for m in marks if m <= hi1]
    c_marks = [m for m in marks if m <= hi2]
    keys = set()
    # always one pixel in the last admissible row and several rows on either side of every mark
    rows = {hi1, r_marks[0]}
    while len(rows) < max(3, npx // 3):
        rows.add(rng.choice(r_marks) if rng.random() < 0.6 else rng.randint(0, hi1))
    for i in sorted(rows):
        lo = i if symm else 0
        for _ in range(rng.randint(1, 4)):
            cand = [m for m in c_marks if m >= lo]
            j = rng.choice(cand) if cand and rng.random() < 0.6 else rng.randint(lo, hi2)
            keys.add((i, j))
    keys = sorted(keys)
    while len(keys) > npx:
        keys.pop(rng.randrange(len(keys)))
    return [[i, j, 1 + (k * 7) % 23] for k, (i, j) in enumerate(keys)]


def big_bins(rng, n, nchroms, var):
    """n bins over `nchroms` chromosomes: fixed width (short last bin) or variable widths"""
    cuts = sorted(rng.sample(range(1, n), nchroms - 1)) if nchroms > 1 else []
    layout = [b - a for a, b in zip([0] + cuts, cuts + [n])]
    w = rng.choice([1, 2, 10, 1000])
    chrom, start, end = [], [], []
    for c, k in enumerate(layout):
        if var:
            ws = np.array([rng.randint(1, 9) for _ in range(k)], dtype=np.int64)
        else:
            ws = np.full(k, w, dtype=np.int64)
            if w > 1:
                ws[-1] = rng.randint(1, w)
        e = np.cumsum(ws)
        chrom += [gen.chromname(c)] * k
        start.append(e - ws)
        end.append(e)
    names = [gen.chromname(c) for c in range(nchroms)]
    df = pd.DataFrame({"chrom": pd.Categorical(chrom, categories=names, ordered=True),
                       "start": np.concatenate(start), "end": np.concatenate(end)})
    return df, (None if var else w)


def _big_chunk(recs, dt1, dt2, form, key):
    d = {"bin1_id": np.array([r[0] for r in recs], dtype=dt1), "bin2_id": np.array([r[1] for r in recs], dtype=dt2),
         "count": np.array([r[2] for r in recs], dtype=np.int32)}
    if form == "dict":
        return d
    return gen.relabel_rows(pd.DataFrame(d), key + len(recs), groups=[r[0] for r in recs])


def _big_report(path, group, label, trail):
    v = monitor.violations(path, group)
    if not v:
        return None
    d, _ = monitor.dump_raw(path, group)
    off = d["bin1_offset"]
    steps = [[k, off[k]] for k in range(len(off)) if k == 0 or off[k] != off[k - 1]]
    return {"mismatch": True, "after": label, "group": group, "violated": v, "history": trail,
            "raw": {"pixels": d["pixels"][:200], "bin1_offset_steps": steps[:200], "nnz": d["nnz"], "len1": d["len1"],
                    "len2": d["len2"], "lenv": d["lenv"], "sum": d["sum"], "nbins": d["nbins"]}}


def _bigtable(case):
    """one big bin table, one small pixel set whose ids sit on the machine-integer marks, id arrays given in the case's
    dtypes: written through every producing path of the case, every collection judged by the raw monitor; then merge /
    coarsen / zoomify of what was written"""
    import random
    from cooler.create import create as create_low
    from cooler.fileops import list_coolers, list_scool_cells
    rng = random.Random(case["seed"])
    n, symm = case["nbins"], case["symm"]
    dt1, dt2 = case["id_dtypes"]
    form = case["form"]
    d = gen.tmpdir()
    files = []

    def newfile(ext=".cool"):
        p = os.path.join(d, f"bt-{os.getpid()}-{len(files)}{ext}")
        if os.path.exists(p):
            os.unlink(p)
        files.append(p)
        return p

    try:
        bdf, w = big_bins(rng, n, case["nchroms"], case["var"])
        px = big_pixels(rng, n, symm, int(np.iinfo(dt1).max), int(np.iinfo(dt2).max), case["npx"])
        stored = case.get("stored")
        kw = {"dtypes": {"bin1_id": stored, "bin2_id": stored}} if stored else {}
        written = []
        for path in case["paths"]:
            prng = random.Random(f"{case['seed']}-{path}")
            ensure = path.endswith("_ensure")
            key = prng.randrange(6)

            def mk(recs):
                return _big_chunk(recs, dt1, dt2, form, key)

            def cut(recs, k):
                cs = sorted(prng.randint(0, len(recs)) for _ in range(k))
                return [list(recs[a:b]) for a, b in zip([0] + cs, cs + [len(recs)])]

            trail = [["table", n, "bins", case["nchroms"], "chromosomes", "variable" if case["var"] else f"width {w}",
                      "symmetric-upper" if symm else "square"], ["id dtypes", dt1, dt2, form]]
            if path in ("frame", "frame_ensure"):
                # ONE table, sorted as documented
                p = newfile()
                trail.append([f"create_cooler(one {form}, ensure_sorted={ensure})", px])
                impl(cooler.create_cooler, p, bdf, mk(px), symmetric_upper=symm, ensure_sorted=ensure, **kw)
            elif path in ("ordered", "ordered_ensure", "create_ensure"):
                # an ordered stream: the chunks follow one another in key order; with ensure_sorted each is shuffled inside
                chunks = cut(px, prng.randint(0, 3))
                if ensure:
                    for c in chunks:
                        prng.shuffle(c)
                p = newfile()
                if path == "create_ensure":
                    trail.append(["cooler.create.create(chunks, ensure_sorted=True)", chunks])
                    impl(create_low, p, bdf, (mk(c) for c in chunks), symmetric_upper=symm, ensure_sorted=True,
                         triucheck=symm, **kw)
                else:
                    trail.append([f"create_cooler(chunks, ordered=True, ensure_sorted={ensure})", chunks])
                    impl(cooler.create_cooler, p, bdf, (mk(c) for c in chunks), symmetric_upper=symm, ordered=True,
                         ensure_sorted=ensure, **kw)
            elif path in ("unordered", "unordered_ensure"):
                # any records in any chunk (a pixel may recur in ANOTHER chunk: summed); sorted inside unless ensure_sorted
                recs = list(px) + [list(r) for r in prng.sample(px, min(len(px), 3))]
                prng.shuffle(recs)
                k = prng.randint(1, 4)
                chunks = [self_merge(recs[i::k]) for i in range(k)]
                if ensure:
                    for c in chunks:
                        prng.shuffle(c)
                # buffer of the merge pass: a few records (an epoch = one row or less) on one of the two unordered paths, everything
                # in ONE epoch (rows from both ends of the table side by side) on the other
                whole = (random.Random(f"{case['seed']}-mergebuf").random() < 0.5) == ensure
                mb = 20_000_000 if whole else prng.choice([1, 3, 7])
                mm = prng.choice([2, 200])
                p = newfile()
                trail.append([f"create_cooler(chunks, ordered=False, ensure_sorted={ensure}, mergebuf={mb}, max_merge={mm})", chunks])
                impl(cooler.create_cooler, p, bdf, (mk(c) for c in chunks), symmetric_upper=symm, ordered=False,
                     ensure_sorted=ensure, mergebuf=mb, max_merge=mm, **kw)
            elif path == "scool_ensure":
                cells = {}
                for name in ("a", "b"):
                    chunks = cut(px[::2] if name == "a" else px, prng.randint(0, 2))
                    for c in chunks:
                        prng.shuffle(c)
                    cells[name] = chunks
                p = newfile(".scool")
                trail.append(["create_scool(cells of chunks, ensure_sorted=True)", cells])
                impl(cooler.create_scool, p, bdf, {k: (mk(c) for c in v) for k, v in cells.items()}, symmetric_upper=symm,
                     ensure_sorted=True, **kw)
                for cell in impl(list_scool_cells, p):
                    r = _big_report(p, cell, path, trail)
                    if r:
                        return r
                continue
            elif path == "cli_load":
                # text loading (`cooler load -f coo`): records in any order, bin table given as a BED file; the stored id
                # dtype is requested with `--field bin1_id:dtype=...`
                from click.testing import CliRunner
                from cooler.cli import cli
                bed, txt, p = newfile(".bed"), newfile(".txt"), newfile()
                bdf.to_csv(bed, sep="\t", header=False, index=False)
                recs = list(px)
                prng.shuffle(recs)
                with open(txt, "w") as f:
                    for i, j, v in recs:
                        f.write(f"{i}\t{j}\t{v}\n")
                args = ["load", "-f", "coo", "--chunksize", str(prng.randint(3, len(recs) + 1)), "--mergebuf", str(prng.choice([2, 5, 1000]))]
                args += [] if symm else ["--no-symmetric-upper"]
                # (naming any field drops the implicit count column: it is named too)
                args += ["--field", "count=3", "--field", f"bin1_id:dtype={stored}", "--field", f"bin2_id:dtype={stored}"] if stored else []
                trail.append(["cooler " + " ".join(args) + " <bins.bed> <pixels.txt> <out>", recs])
                res = CliRunner().invoke(cli, args + [bed, txt, p])
                if res.exit_code != 0:
                    return {"mismatch": True, "after": path, "exit": res.exit_code, "exception": repr(res.exception)[:300], "history": trail}
            else:
                raise AssertionError(path)
            groups = impl(list_coolers, p)
            if groups != ["/"]:
                return {"mismatch": True, "after": path, "note": "operation did not produce exactly the root collection", "history": trail}
            r = _big_report(p, "/", path, trail)
            if r:
                return r
            written.append((p, trail))
        # producers that READ what was written (ids come back in the stored dtype)
        for op in case.get("follow", []):
            if not written:
                break
            prng = random.Random(f"{case['seed']}-{op}")
            src, trail = written[prng.randrange(len(written))]
            trail = list(trail)
            if op == "merge":
                # twice: epochs of a few records, and everything in one epoch
                other = written[prng.randrange(len(written))][0]
                for mb in (prng.choice([1, 2, 5]), 20_000_000):
                    q = newfile()
                    tr = trail + [["merge_coolers with another of the files written", f"mergebuf={mb}"]]
                    impl(cooler.merge_coolers, q, [src, other], mergebuf=mb)
                    r = _big_report(q, "/", op, tr)
                    if r:
                        return r
                continue
            elif op == "coarsen":
                # twice: chunks of a few pixels, and the whole table in one chunk
                k = prng.choice([2, 3, 7, 1000])
                for cs in (prng.choice([1, 4]), 20_000_000):
                    q = newfile()
                    tr = trail + [["coarsen_cooler", f"factor={k}", f"chunksize={cs}"]]
                    impl(cooler.coarsen_cooler, src, q, k, cs, **kw)
                    r = _big_report(q, "/", op, tr)
                    if r:
                        return r
                continue
            elif op == "zoomify":
                if w is None:
                    continue
                q = newfile(".mcool")
                res = [w * 2, w * 4]
                cs = prng.choice([1, 4, 20_000_000])
                trail.append(["zoomify_cooler", res, f"chunksize={cs}"])
                impl(cooler.zoomify_cooler, src, q, res, cs)
            else:
                raise AssertionError(op)
            for g in impl(list_coolers, q):
                r = _big_report(q, g, op, trail)
                if r:
                    return r
        return {"stats": {"collections": len(files)}}
    finally:
        for p in files:
            if os.path.exists(p):
                os.unlink(p)


CHECKS = {"history": _history, "rlencode": _rlencode, "index": _index, "bigindex": _bigindex, "cli_load": _cli_load,
          "bigtable": _bigtable}


def nontrivial(name, case):
    if name == "history":
        return case["steps"] >= 2
    if name in ("rlencode", "index"):
        return len(set(case["xs"])) >= 2
    if name == "bigtable":
        return case["npx"] >= 2 and len(case["paths"]) >= 1
    return True


def distribution(name, case):
    if name == "history":
        yield f"history.symm={case['symm']}.var={case['var']}"
    if name == "bigtable":
        yield f"bigtable.ids={case['id_dtypes'][0]}/{case['id_dtypes'][1]}.stored={case.get('stored')}"
        for p in case["paths"]:
            yield f"bigtable.path={p}"


def nondecreasing(length, nvals):
    return itertools.combinations_with_replacement(range(nvals), length)


def cases(tier, rng):
    """the heavy cases (big tables, > 10^6 pixels) are handed to the pool first, each next to a light one (the pool takes the
    cases in pairs), so that they run side by side instead of forming the tail of the run"""
    items = list(_cases(tier, rng))
    heavy = [it for it in items if it[0] in ("bigtable", "bigindex")]
    light = [it for it in items if it[0] not in ("bigtable", "bigindex")]
    for k, it in enumerate(heavy):
        yield it
        if k < len(light):
            yield light[k]
    yield from light[len(heavy):]


def _cases(tier, rng):
    thorough = tier == "thorough"
    # corpus (minimised witnesses of seeded changes C02-1..3 first)
    yield "rlencode", {"xs": [0, 0, 1, 1, 2, 2], "chunks": [1, 2, 3]}          # a run starting exactly on a block start
    yield "history", {"seed": 11, "n": 5, "symm": True, "var": False, "layout": [3, 1, 1], "steps": 2, "scool": False, "longbin": True}
    yield "history", {"seed": 12, "n": 6, "symm": False, "var": False, "layout": [6], "steps": 3, "scool": False}
    # second-wave seeded changes: zoomify from two bases with different count dtypes; totals beyond int32; scool cells
    for sd in (21, 22, 23, 24):
        yield "history", {"seed": sd, "n": 14 + sd % 3, "symm": True, "var": False, "layout": [14 + sd % 3], "steps": 2, "scool": sd % 2 == 0,
                          "ops": ["create", "zoomify2"]}
    yield "history", {"seed": 25, "n": 5, "symm": True, "var": False, "layout": [3, 2], "steps": 2, "scool": True, "ops": ["bigcounts", "create"]}
    # third-wave seeded changes: empty stream with an extra value column; count given in an unsigned dtype
    yield "history", {"seed": 26, "n": 6, "symm": True, "var": False, "layout": [4, 2], "steps": 3, "scool": False,
                      "ops": ["create", "empty_extra", "unsigned"]}
    yield "history", {"seed": 27, "n": 7, "symm": True, "var": False, "layout": [5, 2], "steps": 2, "scool": False, "ops": ["create", "legacy_zoomify"]}
    yield "history", {"seed": 28, "n": 6, "symm": False, "var": False, "layout": [6], "steps": 3, "scool": False,
                      "ops": ["unordered", "merge", "legacy_zoomify"]}
    yield "rlencode", {"xs": [0, 0, 1, 1, 1, 3], "chunks": [1, 2, 3, 4, 5, 6, 7]}
    yield "index", {"xs": [2, 2, 5], "n": 7}
    yield "index", {"xs": [], "n": 3}
    maxlen = 7 if thorough else 6
    for L in range(0, maxlen + 1):
        for xs in nondecreasing(L, 4):
            yield "rlencode", {"xs": list(xs), "chunks": list(range(1, L + 2)) + [None]}
            yield "index", {"xs": list(xs), "n": 4}
            if L <= 4:
                yield "index", {"xs": list(xs), "n": 6}
    for _ in range(200 if thorough else 40):
        L = rng.randint(1, 40)
        xs = [rng.randint(0, 5) for _ in range(L)]   # unsorted: the encoder is total
        yield "rlencode", {"xs": xs, "chunks": [1, 2, 3, 7, L, L + 1]}
        ys = sorted(rng.randint(0, 30) for _ in range(rng.randint(0, 200)))
        yield "rlencode", {"xs": ys, "chunks": [1, 2, 5, 64, len(ys) + 1]}
        yield "index", {"xs": ys, "n": 31 + rng.randint(0, 3)}
    for k in range(400 if thorough else 70):
        n = rng.randint(2, 8)
        yield "history", {"seed": rng.randrange(10 ** 9), "n": n, "symm": rng.random() < 0.7, "var": rng.random() < 0.3,
                          "layout": gen.split_layout(rng, n), "steps": rng.randint(2, 6 if thorough else 4),
                          "scool": k % 7 == 0, "longbin": k % 5 == 1}
    for k in range(30 if thorough else 6):
        yield "cli_load", {"seed": rng.randrange(10 ** 9), "n": rng.randint(2, 6), "fmt": "coo" if k % 2 else "pairs"}
    yield "bigindex", {"n": 1600 if thorough else 1450}     # 1 051 975 pixels already cross the literal 10^6 block (1.5 s)
    yield "bigindex", {"n": 0, "bigrow": True}              # a row that IS a whole block, starting exactly on the block boundary
    if thorough:
        yield "bigindex", {"n": 0, "bigrow": True, "shift": 1}
        yield "bigindex", {"n": 0, "bigrow": True, "shift": 999_999}
    # big bin tables x dtype the ids are given in x producing path: a fixed handful covering every dtype with a table size on
    # which its products overflow, then seeded ones
    allp, fol = list(BIG_PATHS), list(BIG_FOLLOW)
    fixed = [(50_000, ("int32", "int32"), True, 1, False, "dict", None), (70_000, ("uint32", "uint32"), True, 2, False, "frame", None),
             (65_536, ("uint16", "uint16"), True, 1, False, "frame", None), (46_341, ("int32", "int64"), True, 3, False, "dict", "int32"),
             (66_000, ("uint64", "int32"), False, 2, False, "frame", None), (40_000, ("int16", "uint16"), True, 2, True, "dict", None),
             (70_000, ("int64", "int64"), True, 3, False, "frame", "uint32")]
    for k, (n, dts, symm, nch, var, form, stored) in enumerate(fixed):
        # every path the GIVEN id arrays flow through; text loading (ids parsed, not given) and the follow-up producers (ids
        # read back in the STORED dtype) in rotation, all of them where the stored dtype is not the default
        paths = [p for p in allp if p != "cli_load" or stored or thorough or k % 3 == 0]
        yield "bigtable", {"seed": 100 + k, "nbins": n, "symm": symm, "nchroms": nch, "var": var, "id_dtypes": list(dts), "form": form,
                           "npx": 30, "paths": paths, "follow": fol if (stored or thorough) else [fol[k % 3]], "stored": stored}
    for k in range(40 if thorough else 4):
        n = rng.choice([rng.randint(33_000, 70_000), rng.choice([32_769, 46_340, 46_341, 46_342, 65_535, 65_536, 65_537, 70_000])])
        yield "bigtable", {"seed": rng.randrange(10 ** 9), "nbins": n, "symm": rng.random() < 0.7, "nchroms": rng.randint(1, 3),
                           "var": rng.random() < 0.25, "id_dtypes": [rng.choice(BIG_ID_DTYPES), rng.choice(BIG_ID_DTYPES)],
                           "form": rng.choice(["frame", "dict"]), "npx": rng.randint(12, 48),
                           "paths": rng.sample(allp, rng.randint(3, len(allp))), "follow": rng.sample(fol, rng.randint(1, 3)),
                           "stored": rng.choice(BIG_STORED)}


def shrink(name, case):
    if name in ("rlencode", "index"):
        xs = case["xs"]
        for k in range(len(xs)):
            c = dict(case); c["xs"] = xs[:k] + xs[k + 1:]
            yield c
    if name == "history" and case["steps"] > 1:
        c = dict(case); c["steps"] = case["steps"] - 1
        yield c
    if name == "bigtable":
        if len(case["paths"]) > 1:
            for p in case["paths"]:
                c = dict(case); c["paths"] = [p]; c["follow"] = []
                yield c
                if case.get("follow"):
                    c = dict(case); c["paths"] = [p]
                    yield c
        if len(case.get("follow", [])) > 1:
            for f in case["follow"]:
                c = dict(case); c["follow"] = [f]
                yield c
        if case["npx"] > 4:
            c = dict(case); c["npx"] = case["npx"] // 2
            yield c


def escalate(name, case, rng):
    """index/rlencode unit stopped checking: run the >10^6-pixel creation (the only place the code uses a
    block size smaller than the column) and a batch of histories"""
    worker_init()
    r = run_check(_bigindex, {"n": 1600})
    if r:
        return {"check": "bigindex", "case": {"n": 1600}, "result": r}
    for k in range(30):
        n = rng.randint(2, 7)
        c = {"seed": rng.randrange(10 ** 9), "n": n, "symm": True, "var": False, "layout": [n], "steps": 3, "scool": False}
        r = run_check(_history, c)
        if r:
            return {"check": "history", "case": c, "result": r}
    return None
