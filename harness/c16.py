"""C16 — text export agrees with the API; re-importing it reproduces the cooler.

Everything is driven through click's CliRunner (`cooler dump`, `cooler load`, `cooler cload pairs`,
`cooler zoomify`) on small coolers; the oracle is `Model/TextIO.lean` run by the driver at
α := Float (floats travel as the hex of their bit pattern, any NaN as "nan").

TOP checks demand what the property states: the same pixels and values as the library query (rows
compared as MULTISETS of name→value maps: neither row order nor column order gates), each option's
documented effect, re-import reproduces the matrix.  Exact column order, header text and row order
of the direct engine are UNIT checks (`dump_layout`).  The `balanced` cell must be SOME bracketing
of weight₁·weight₂·count (C12 `products3`), formatted with the dump's own float format.
"""
from __future__ import annotations

import io
import itertools
import math
import os
import random
import re
import struct

import numpy as np
import pandas as pd

from harness import gen, monitor
from harness.common import ImplRaised, drv, errclass, impl, run_check

PID = "C16"
THEOREMS = ["columns_any_layout", "columns_legacy_fails", "legacy_eq_of_ascending",
            "dump_eq_query", "dump_whole_stored", "dumpRows_eq", "engineChunks_flatten",
            "dump_option_effect", "one_based_ids_effect", "one_based_ids_plain", "one_based_starts_effect", "join_effect",
            "balanced_effect", "annotate_effect", "fill_lower_square", "fill_lower_symm", "header_effect",
            "range_effect", "row_columns", "table_columns_effect", "projectRow_spec",
            "load_dump_coo", "load_dump_bg2", "bin_start_facts", "bins_order", "validateChunk_perm",
            "cooRec_of_layout", "bg2Rec_of_layout", "pairs_any_layout", "pairs_layout_independent", "cloadPairs_eq_spec_partial", "cloadPairs_eq_spec",
            "parseFieldParam_spec", "parseFieldParam_refusals", "splitOn_joinWith"]
LEVELS = {"constants": "unit", "dump": "top", "dump_layout": "unit", "dump_refuse": "top", "table": "top",
          "load": "top", "pairs": "top", "pandas_primitive": "unit", "field_param": "unit", "zoomify_spec": "top"}
DESCRIBE = {
    "constants": "numpy accepts exactly the dtype spellings the driver's isDtype lists (and rejects the garbage the generator uses); "
                 "HIGLASS_TILE_DIM, SANITIZE_PRESETS anchors vs the model's constants",
    "dump": "`cooler dump` under ALL 2^7 combinations of {-H, -f, -b, --join, --annotate, --one-based-ids, --one-based-starts} x one "
            "region setting x chunk sizes / float formats vs (a) Lean `annotateRow` mapped over the Lean sub-block (`specWindow` / stored "
            "records in the box; = `dumpRows` by theorem dump_eq_query) and (b) the same annotation of the LIBRARY query "
            "(Cooler.matrix(as_pixels=True) / matrix(sparse=True) for -f); rows as multisets of name->value maps",
    "dump_layout": "exact header text, column order and (direct engine) row order of `cooler dump` vs Lean dumpColumns/dumpHeader/dumpRows",
    "dump_refuse": "`cooler dump -b` on a cooler without a `weight` column exits non-zero (Lean dumpRefuses); without -b it dumps",
    "table": "`cooler dump -t bins|chroms [-c cols] [-H]` vs Lean dumpTable and Cooler.bins()/chroms()",
    "load": "dump -> `cooler load -f coo|bg2` round trips (zero/one-based on both sides, symmetric/square, chunk sizes, shuffled lines, "
            "--field count=<col>, a second value field, --count-as-float) vs Lean loadCoo/loadBg2 and the original pixel table; C02 raw monitor",
    "pairs": "`cooler cload pairs` on the SAME records under all 24 permutations of columns 1..4, wider non-monotone layouts and a value "
             "field in front vs Lean pairsSpec (L0; = cloadPairs L1) — every layout must give the same cooler (D12 regression)",
    "pandas_primitive": "pd.read_csv(usecols=, names=) on one line vs Lean pandasReadCols (names go to the selected columns in ascending order)",
    "field_param": "cooler.cli._util.parse_field_param(arg, includes_colnum, includes_agg) vs Lean parseFieldParam",
    "zoomify_spec": "`cooler zoomify -r <spec>`: the set of zoom levels written (list_coolers) vs Lean expandResolutionSpec/zoomLevels",
}
RULE = ("dump: stores of n<=6 bins over 1-2 chromosomes (uniform and variable widths), symmetric-upper and square, a `weight` column "
        "with one NaN, one extra bin column (float or int); one case = (store, region setting in {none, -r, -r -r2 above / below / "
        "straddling / nested}, one of the variants (chunksize, float-format, na-rep) in {(1,.17g,NA),(3,default g,''),(default,.17g,nan)}) with "
        "ALL 128 option combinations inside; quick 2 stores, thorough 22. load: dump->load for {coo,bg2} x {zero,one}-based x chunksize "
        "{1,2,big} + shuffled + --count-as-float + --field variants per store (quick 4 stores, thorough 16). pairs: all 24 permutations + "
        "6/7-column non-monotone layouts + value field in front, zero/one-based x symmetric/square (quick 4, thorough 12 record sets). "
        "non-trivial = store with >=2 pixels / >=2 records; distinct by canonical JSON of the case")
EXHAUSTIVE = {"quick": False, "thorough": False}
TRUSTED = ["character-level CSV reading/writing and number formatting are pandas (to_csv float_format % x; read_csv tokenisation); "
           "tokens matching -?[0-9]+ are integer cells, everything else is a string cell",
           "pd.read_csv(usecols=, names=) assigns names in ascending column order (checked as unit `pandas_primitive`)",
           "region -> bin extent is taken from Cooler.extent (property C04); the range-query engines are C03; annotate() row-wise is C14; "
           "the balanced product is C12 (any bracketing accepted); sanitizers C05; validate_pixels C13; merge passes C06",
           "click option parsing; np.dtype(name) as the numpy primitive `isDtype`",
           "Lean Float and numpy float64 `*` agree bit for bit (self-tested by C12 `arith`)"]
ASSUMPTIONS = ["--annotate fields are not chrom/start/end together with --join (duplicate column names)",
               "int() spellings [+-]?[0-9]+ in --field numbers and resolution specs (no blanks, underscores)",
               "pairs positions inside [1, L] one-based / [0, L) zero-based (known finding D13 is C05's)",
               "count values are integers; `-r2` without `-r` is not generated (it is ignored by the code: an observation outside the property)",
               "resolution specs name multiples of the base bin size"]
CHUNK = 1

FLAGS = ["header", "fill_lower", "balanced", "join", "annotate", "one_based_ids", "one_based_starts"]
VARIANTS = [[1, ".17g", "NA"], [3, None, None], [None, ".17g", "nan"]]
GARBAGE_DTYPES = ["nope", "floaty", "int65", "dtype"]


def worker_init():
    global cooler, cli, CliRunner
    import warnings
    warnings.filterwarnings("ignore")
    np.seterr(all="ignore")
    import cooler  # noqa
    from click.testing import CliRunner  # noqa
    from cooler.cli import cli  # noqa


# ------------------------------------------------------------------------------------------------
# marshalling
# ------------------------------------------------------------------------------------------------

def _hex(x):
    if x is None or x != x:
        return "nan"
    return struct.pack(">d", float(x)).hex()


def _unhex(s):
    return float("nan") if s == "nan" else struct.unpack(">d", bytes.fromhex(s))[0]


def _names(bins):
    return [gen.chromname(c) for c in range(max(b[0] for b in bins) + 1)]


def _lens(bins):
    out = {}
    for c, s, e in bins:
        out[c] = max(out.get(c, 0), e)
    return [out.get(c, 0) for c in range(max(out) + 1)]


def _bins_frame(store):
    bdf = gen.bins_df(store["bins"])
    if store.get("weight") is not None:
        bdf["weight"] = np.array([np.nan if w is None else w for w in store["weight"]], dtype=np.float64)
    ext = store.get("ext")
    if ext:
        if ext["kind"] == "float":
            bdf[ext["name"]] = np.array([np.nan if w is None else w for w in ext["values"]], dtype=np.float64)
        else:
            bdf[ext["name"]] = np.array(ext["values"], dtype=np.int64)
    return bdf


def _build(store, path):
    cooler.create_cooler(path, _bins_frame(store), gen.pixels_df(store["pixels"]), symmetric_upper=store["symm"], ordered=True)


def _lean_store(store, extra_order=None):
    fcols, icols = [], []
    if store.get("weight") is not None:
        fcols.append(["weight", [_hex(w) for w in store["weight"]]])
    ext = store.get("ext")
    if ext:
        if ext["kind"] == "float":
            fcols.append([ext["name"], [_hex(w) for w in ext["values"]]])
        else:
            icols.append([ext["name"], ext["values"]])
    if extra_order is None:
        extra_order = sorted([c[0] for c in fcols] + [c[0] for c in icols])
    return {"pixels": store["pixels"], "bins": store["bins"], "fcols": fcols, "icols": icols,
            "chrom_names": _names(store["bins"]), "chrom_lens": _lens(store["bins"]),
            "extra_order": extra_order, "symm": store["symm"]}


def _fmt(cell, ffmt, na):
    """a typed cell (Lean JSON) as `to_csv` prints it"""
    if isinstance(cell, dict):
        x = _unhex(cell["f"])
        return na if x != x else (ffmt % x)
    return str(cell)


def _fmt_py(v, ffmt, na):
    """a library value as `to_csv` prints it"""
    if isinstance(v, (float, np.floating)):
        return na if v != v else (ffmt % float(v))
    if isinstance(v, (int, np.integer)):
        return str(int(v))
    return str(v)


def _invoke(argv):
    r = CliRunner().invoke(cli, argv)
    try:
        out = r.stdout
    except Exception:  # older click
        out = r.output
    return r, out


def _exc(r):
    e = r.exception
    if e is None or isinstance(e, SystemExit):
        return f"exit{r.exit_code}"
    return f"{errclass(e)}: {str(e)[:200]}"


def _tok(s):
    return int(s) if re.fullmatch(r"-?[0-9]+", s) else s


def _toks(lines, str_cols=()):
    """typed tokens of the text lines; the columns DECLARED as chromosome names are read as strings by the loaders (explicit
    dtype str), whatever they look like — a chromosome may be called "2" """
    out = []
    for ln in lines:
        cells = ln.split("\t")
        out.append([c if k in str_cols else _tok(c) for k, c in enumerate(cells)])
    return out


# ------------------------------------------------------------------------------------------------
# dump
# ------------------------------------------------------------------------------------------------

def _opt_of(mask, store, ext_r, ext_r2):
    o = {f: bool(mask >> k & 1) for k, f in enumerate(FLAGS)}
    if o["annotate"]:
        fs = [store["ext"]["name"]] if store.get("ext") else ["weight"]
        if not o["join"]:
            fs = fs + ["start"]       # `--one-based-starts` must reach the annotated start columns too
        o["annotate"] = fs
    else:
        o["annotate"] = None
    o["range"] = ext_r
    o["range2"] = ext_r2
    return o


def _dump_argv(path, o, region, cs, ff, na):
    a = ["dump"]
    if o["header"]:
        a.append("-H")
    if o["fill_lower"]:
        a.append("-f")
    if o["balanced"]:
        a.append("-b")
    if o["join"]:
        a.append("--join")
    if o["annotate"]:
        a += ["--annotate", ",".join(o["annotate"])]
    if o["one_based_ids"]:
        a.append("--one-based-ids")
    if o["one_based_starts"]:
        a.append("--one-based-starts")
    if region.get("r"):
        a += ["-r", region["r"]]
    if region.get("r2"):
        a += ["-r2", region["r2"]]
    if cs is not None:
        a += ["-k", str(cs)]
    if ff is not None:
        a += ["--float-format", ff]
    if na is not None:
        a += ["--na-rep", na]
    return a + [path]


def _expected_maps(rows, columns, ffmt, na):
    """Lean rows -> list of {column: set of acceptable printed cells}"""
    out = []
    for r in rows:
        d = {}
        for name, cell in zip(columns, r["c"]):
            acc = {_fmt(cell, ffmt, na)}
            if name == "balanced":
                acc |= {_fmt({"f": h}, ffmt, na) for h in r["alts"]}
            d[name] = acc
        out.append(d)
    return out


def _key_exp(d):
    return tuple(sorted((n, min(v)) for n, v in d.items() if n != "balanced"))


def _key_impl(d):
    return tuple(sorted((n, v) for n, v in d.items() if n != "balanced"))


def _diff_rows(names, impl_rows, exp, columns, ffmt, na):
    """None when the printed rows are the expected multiset of name->value maps"""
    if sorted(names) != sorted(columns):
        return {"what": "set of columns", "impl_columns": names, "model_columns": columns}
    if any(len(r) != len(names) for r in impl_rows):
        return {"what": "a row has a different number of cells than the header", "impl_rows": impl_rows[:6]}
    got = sorted(({n: c for n, c in zip(names, r)} for r in impl_rows), key=_key_impl)
    want = sorted(_expected_maps(exp, columns, ffmt, na), key=_key_exp)
    if len(got) != len(want):
        return {"what": "number of rows", "impl_n": len(got), "model_n": len(want),
                "impl_rows": [list(g.items()) for g in got[:8]], "model_rows": [[(n, sorted(v)) for n, v in w.items()] for w in want[:8]]}
    for g, w in zip(got, want):
        bad = [n for n in columns if g[n] not in w[n]]
        if bad:
            return {"what": "cell values", "columns": bad, "impl_row": g, "model_row": {n: sorted(v) for n, v in w.items()}}
    return None


def _library_rows(clr, box, symm):
    i0, i1, j0, j1 = box
    px = impl(lambda: clr.matrix(balance=False, as_pixels=True, join=False)[i0:i1, j0:j1])
    lib = [[int(a), int(b), int(v)] for a, b, v in zip(px["bin1_id"], px["bin2_id"], px["count"])]
    lib_fill = None
    if symm:
        sp = impl(lambda: clr.matrix(balance=False, sparse=True)[i0:i1, j0:j1])
        lib_fill = sorted([int(r) + i0, int(c) + j0, int(v)] for r, c, v in zip(sp.row, sp.col, sp.data))
    return lib, lib_fill


def _extents(clr, region):
    er = [int(x) for x in impl(clr.extent, region["r"])] if region.get("r") else None
    er2 = [int(x) for x in impl(clr.extent, region["r2"])] if region.get("r2") else None
    return er, er2


def _box(n, er, er2):
    if er is None:
        return [0, n, 0, n]
    return [er[0], er[1]] + (er2 if er2 is not None else [er[0], er[1]])


def _dump(case):
    store, region = case["store"], case["region"]
    path = os.path.join(gen.tmpdir(), f"c16d-{os.getpid()}.cool")
    _build(store, path)
    try:
        clr = cooler.Cooler(path)
        n = len(store["bins"])
        er, er2 = _extents(clr, region)
        box = _box(n, er, er2)
        lib, lib_fill = _library_rows(clr, box, store["symm"])
        masks = case.get("masks")
        if masks is None:
            masks = list(range(128))
        masks = sorted(masks, key=lambda m: (-(m & 1), m))     # header runs first: they tell the column names
        opts = [_opt_of(m, store, er, er2) for m in masks]
        ans = drv().ask("C16.dump", **_lean_store(store), opts=opts, lib=lib, lib_fill=lib_fill)
        assert ans["valid"], "generator produced an invalid store"
        seen = {}
        ninv = 0
        variants = case.get("variants") or VARIANTS
        for m, o, a in zip(masks, opts, ans["results"]):
            assert a["l1_ok"], f"L1 != L0 for {o}: theorem dump_eq_query contradicted"
            assert a["box"] == box
            for cs, ff, na in variants:
                argv = _dump_argv(path, o, region, cs, ff, na)
                r, out = _invoke(argv)
                ninv += 1
                ctx = {"argv": argv[:-1] + ["<cool>"], "options": {k: o[k] for k in FLAGS}, "box": box}
                if r.exit_code != 0:
                    return {"mismatch": True, **ctx, "impl": _exc(r), "note": "dump failed on an in-domain request"}
                ffmt, narep = "%" + (ff or "g"), ("" if na is None else na)
                lines = out.split("\n")
                if lines and lines[-1] == "":
                    lines.pop()
                key = (m >> 1, cs)
                if o["header"]:
                    names = lines[0].split("\t") if lines else None
                    rows = [ln.split("\t") for ln in lines[1:]]
                    seen[key] = names
                else:
                    rows = [ln.split("\t") for ln in lines]
                    # column names as the implementation itself printed them for the same options with -H
                    # (positional fallback on the model's order when that run is not part of the case)
                    names = seen[key] if key in seen else a["columns"]
                if names is None:
                    if rows:
                        return {"mismatch": True, **ctx, "note": "rows printed where the header run printed nothing", "impl_rows": rows[:6]}
                    names = a["columns"]
                for which in ("spec", "lib"):
                    exp = a[which]
                    if exp is None:
                        return {"mismatch": True, **ctx, "note": f"model cannot annotate the {which} rows (id outside the bin table?)"}
                    d = _diff_rows(names, rows, exp, a["columns"], ffmt, narep)
                    if d:
                        return {"mismatch": True, **ctx, **d, "against": "Lean sub-block of the (completed) matrix" if which == "spec"
                                else "the library query on the same store", "stdout": out[:1500]}
        return {"stats": {"invocations": ninv, "rows": sum(len(a["spec"] or []) for a in ans["results"])}}
    finally:
        os.unlink(path)


def _dump_layout(case):
    """unit: header text, column order, row order of the direct engine"""
    store, region = case["store"], case["region"]
    path = os.path.join(gen.tmpdir(), f"c16y-{os.getpid()}.cool")
    _build(store, path)
    try:
        clr = cooler.Cooler(path)
        er, er2 = _extents(clr, region)
        opts = [_opt_of(m, store, er, er2) for m in case["masks"]]
        ans = drv().ask("C16.dump", **_lean_store(store), opts=opts, lib=None, lib_fill=None)
        for o, a in zip(opts, ans["results"]):
            for cs in case["chunks"]:
                argv = _dump_argv(path, o, region, cs, ".17g", "NA")
                r, out = _invoke(argv)
                ctx = {"argv": argv[:-1] + ["<cool>"], "options": {k: o[k] for k in FLAGS}}
                if r.exit_code != 0:
                    return {"mismatch": True, **ctx, "impl": _exc(r)}
                lines = out.split("\n")
                if lines and lines[-1] == "":
                    lines.pop()
                # the header comes with the first engine chunk: a selection whose rows hold no stored pixel has no
                # chunk (`get_spans` is a free unit), so the header is demanded only when there are data rows
                if o["header"] and a["model"]:
                    if not lines or lines[0].split("\t") != a["columns"]:
                        return {"mismatch": True, **ctx, "what": "header line", "impl": lines[:1], "model": a["columns"]}
                    lines = lines[1:]
                elif o["header"] and lines:
                    if lines[0].split("\t") != a["columns"]:
                        return {"mismatch": True, **ctx, "what": "header line", "impl": lines[:1], "model": a["columns"]}
                    lines = lines[1:]
                if not a["use_fill"]:
                    want = _expected_maps(a["model"], a["columns"], "%.17g", "NA")
                    got = [ln.split("\t") for ln in lines]
                    ok = len(got) == len(want) and all(len(g) == len(a["columns"]) and all(c in w[nm] for c, nm in zip(g, a["columns"]))
                                                       for g, w in zip(got, want))
                    if not ok:
                        return {"mismatch": True, **ctx, "what": "rows in storage order with the model's column order", "impl": got[:8],
                                "model": [[sorted(w[nm]) for nm in a["columns"]] for w in want[:8]]}
        return None
    finally:
        os.unlink(path)


def _dump_refuse(case):
    store = case["store"]
    path = os.path.join(gen.tmpdir(), f"c16r-{os.getpid()}.cool")
    _build(store, path)
    try:
        for mask in case["masks"]:
            o = _opt_of(mask, store, None, None)
            if o["annotate"]:
                o["annotate"] = ["start"]
            a = drv().ask("C16.dump", **_lean_store(store), opts=[o], lib=None, lib_fill=None)["results"][0]
            argv = _dump_argv(path, o, {}, None, None, None)
            r, out = _invoke(argv)
            if a["refuses"] != (r.exit_code != 0):
                return {"mismatch": True, "argv": argv[:-1] + ["<cool>"], "model_refuses": a["refuses"], "impl_exit": r.exit_code,
                        "impl": _exc(r), "note": "--balanced without a weight column must be refused, and only that"}
        return None
    finally:
        os.unlink(path)


# ------------------------------------------------------------------------------------------------
# --table bins / chroms
# ------------------------------------------------------------------------------------------------

def _table(case):
    store = case["store"]
    path = os.path.join(gen.tmpdir(), f"c16t-{os.getpid()}.cool")
    _build(store, path)
    try:
        clr = cooler.Cooler(path)
        order = [str(c) for c in clr.bins().columns][3:]
        ls = _lean_store(store, order)
        for table, cols in case["requests"]:
            libdf = impl(lambda: (clr.bins() if table == "bins" else clr.chroms())[cols][:] if cols else
                         (clr.bins() if table == "bins" else clr.chroms())[:])
            m = drv().ask("C16.table", **ls, table=table, columns=cols)["rows"]
            names_seen = None
            for header in (True, False):
                argv = ["dump", "-t", table] + (["-c", ",".join(cols)] if cols else []) + (["-H"] if header else []) + \
                       ["--float-format", ".17g", "--na-rep", "NA", path]
                r, out = _invoke(argv)
                ctx = {"argv": argv[:-1] + ["<cool>"]}
                if r.exit_code != 0:
                    return {"mismatch": True, **ctx, "impl": _exc(r)}
                lines = out.split("\n")
                if lines and lines[-1] == "":
                    lines.pop()
                if header:
                    names_seen = lines[0].split("\t")
                    lines = lines[1:]
                names = names_seen
                got = sorted(tuple(sorted(zip(names, ln.split("\t")))) for ln in lines)
                want = sorted(tuple(sorted((nm, _fmt(c, "%.17g", "NA")) for nm, c in row)) for row in m)
                lib = sorted(tuple(sorted((str(nm), _fmt_py(v, "%.17g", "NA")) for nm, v in zip(libdf.columns, rec)))
                             for rec in libdf.itertuples(index=False))
                if got != want:
                    return {"mismatch": True, **ctx, "impl": got[:6], "model": want[:6], "against": "Lean dumpTable"}
                if got != lib:
                    return {"mismatch": True, **ctx, "impl": got[:6], "library": lib[:6], "against": "Cooler.bins()/chroms()"}
                if cols and names != cols:
                    return {"mismatch": True, **ctx, "what": "columns are not the requested ones in the requested order", "impl": names}
        return None
    finally:
        os.unlink(path)


# ------------------------------------------------------------------------------------------------
# load
# ------------------------------------------------------------------------------------------------

def _write_bed(path, bins):
    with open(path, "w") as f:
        for c, s, e in bins:
            f.write(f"{gen.chromname(c)}\t{s}\t{e}\n")


def _bins_arg(d, bed, bins, how):
    """the BINS argument of load / cload: the BED file, or `<chromsizes>:<binsize>` when the table is a uniform binning
    (the documented second spelling; the chromsizes file lists the chromosomes in the table's own order)"""
    if how != "chromsizes" or not bins:
        return bed, []
    w = bins[0][2] - bins[0][1]
    lens = _lens(bins)
    want = [[c, s0, min(s0 + w, L)] for c, L in enumerate(lens) for s0 in range(0, L, w)]
    if w <= 0 or want != [list(b) for b in bins]:
        return bed, []
    cs = os.path.join(d, "genome.chromsizes")
    with open(cs, "w") as f:
        for c, L in enumerate(lens):
            f.write(f"{gen.chromname(c)}\t{L}\n")
    return f"{cs}:{w}", [cs]


def _read_table(path, cols):
    c = cooler.Cooler(path)
    px = c.pixels()[:]
    return {col: [[int(a), int(b), int(round(float(v)))] for a, b, v in zip(px["bin1_id"], px["bin2_id"], px[col])] for col in cols}, \
        {col: str(px[col].dtype) for col in cols}


NUMERIC = ["1", "2", "3", "4", "5", "6", "7", "8", "9", "10", "11", "12"]


def _load(case):
    if case.get("names") == "numeric":
        # every chromosome name a numeral (a BED reader that infers integers no longer matches the text records)
        with gen.names_as(NUMERIC):
            return _load({k: v for k, v in case.items() if k != "names"})
    store = case["store"]
    d = os.path.join(gen.tmpdir(), f"c16l-{os.getpid()}")
    os.makedirs(d, exist_ok=True)
    src, bed, txt, out = (os.path.join(d, x) for x in ("src.cool", "bins.bed", "in.txt", "out.cool"))
    _build(store, src)
    _write_bed(bed, store["bins"])
    nrun = 0
    try:
        for v in case["variants"]:
            fmt, ob, cs = v["fmt"], v["one_based"], v["chunksize"]
            dargv = ["dump"] + (["--join"] if fmt == "bg2" else [])
            if ob:
                dargv.append("--one-based-starts" if fmt == "bg2" else "--one-based-ids")
            ncoord = 6 if fmt == "bg2" else 2
            fieldargs, values, fields = [], ["count"], None
            tag = store["ext"]["name"] if store.get("ext") and store["ext"]["kind"] == "int" else None
            if v.get("field") and tag:
                dargv += ["--annotate", tag]
                if v["field"] == "count_col":       # the count is read from a non-default column (tag of bin 1)
                    fieldargs = ["--field", f"count={ncoord + 2}"]
                    fields = {"count": ncoord + 1}
                elif v["field"] == "count_col2":    # … from the last column, declared with a dtype
                    fieldargs = ["--field", f"count={ncoord + 3}:dtype=int64"]
                    fields = {"count": ncoord + 2}
                elif v["field"] == "two":           # a second value field
                    fieldargs = ["--field", f"count={ncoord + 1}", "--field", f"t2={ncoord + 3}"]
                    fields = {"count": ncoord, "t2": ncoord + 2}
                    values = ["count", "t2"]
                elif v["field"] == "two_rev":       # declared in descending column order
                    fieldargs = ["--field", f"t2={ncoord + 3}", "--field", f"count={ncoord + 1}"]
                    fields = {"t2": ncoord + 2, "count": ncoord}
                    values = ["t2", "count"]
            dargv += ["-o", txt, src]
            r, _ = _invoke(dargv)
            if r.exit_code != 0:
                return {"mismatch": True, "argv": dargv, "impl": _exc(r), "note": "dump failed"}
            lines = open(txt).read().split("\n")
            if lines and lines[-1] == "":
                lines.pop()
            rewrite = False
            if v.get("ids_swapped") and fmt == "coo":
                # the two id columns in the other order, declared with --field bin1_id=2 --field bin2_id=1
                lines = ["\t".join([c[1], c[0]] + c[2:]) for c in (ln.split("\t") for ln in lines)]
                # (once any --field is given, `count` is no longer implicit: it is declared too)
                fieldargs = ["--field", "bin1_id=2", "--field", "bin2_id=1"] + (fieldargs or ["--field", "count=3"])
                rewrite = True
            if v.get("shuffle") is not None:
                random.Random(v["shuffle"]).shuffle(lines)
                rewrite = True
            if rewrite:
                with open(txt, "w") as f:
                    f.write("".join(ln + "\n" for ln in lines))
            binsarg, extra = _bins_arg(d, bed, store["bins"], v.get("bins_arg"))
            largv = ["load", "-f", fmt] + (["--one-based"] if ob else []) + ([] if store["symm"] else ["-N"]) + \
                    (["--chunksize", str(cs)] if cs else []) + (["--count-as-float"] if v.get("as_float") else []) + fieldargs + [binsarg, txt, out]
            if os.path.exists(out):
                os.unlink(out)
            r, _ = _invoke(largv)
            nrun += 1
            ctx = {"dump_argv": dargv[:-3] + ["-o", "<txt>", "<cool>"], "load_argv": largv[:-3] + ["<bed>" if binsarg == bed else "<chromsizes>:" + binsarg.rsplit(":", 1)[1], "<txt>", "<out>"],
                   "input": "\n".join(lines[:40]), "bins_bed": open(bed).read()}
            # the model on the same lines, cut into the reader's chunks
            toks = _toks(lines, (0, 3) if fmt == "bg2" else ())
            step = cs or max(len(toks), 1)
            chunks = [toks[k:k + step] for k in range(0, len(toks), step)]
            base = ([["bin1_id", 1], ["bin2_id", 0]] if v.get("ids_swapped") else [["bin1_id", 0], ["bin2_id", 1]]) if fmt == "coo" else \
                [["chrom1", 0], ["start1", 1], ["end1", 2], ["chrom2", 3], ["start2", 4], ["end2", 5]]
            fl = base + ([[k, c] for k, c in fields.items()] if fields else [["count", ncoord]])
            m = drv().ask("C16.load", format=fmt, opts={"one_based": ob, "symm": store["symm"]}, bins=store["bins"],
                          contigs=_names(store["bins"]), fields=fl, values=values, chunks=chunks)
            if r.exit_code != 0:
                if "err" in m and not lines:
                    continue
                return {"mismatch": True, **ctx, "impl": _exc(r), "model": m, "note": "load failed on its own dump"}
            if "err" in m:
                return {"mismatch": True, **ctx, "impl": "created", "model": m, "note": "model rejects what cooler load accepted"}
            got, dtypes = impl(_read_table, out, values)
            want = {nm: t for nm, t in m["ok"]}
            plain = not v.get("field")
            if plain:
                assert want["count"] == store["pixels"], "Lean loadCoo/loadBg2 of a valid dump != s.px: theorem load_dump_* contradicted"
            for col in values:
                if got[col] != want[col]:
                    return {"mismatch": True, **ctx, "column": col, "impl": got[col], "model": want[col],
                            "original": store["pixels"] if plain else None,
                            "note": "re-imported pixel table differs from the original" if plain else "loaded value column differs from the model"}
            if v.get("as_float") and not dtypes["count"].startswith("float"):
                return {"mismatch": True, **ctx, "what": "--count-as-float did not store a float count", "dtype": dtypes["count"]}
            viol = monitor.violations(out)
            if viol:
                return {"mismatch": True, **ctx, "what": "schema (C02 raw monitor)", "violated": viol}
        return {"stats": {"loads": nrun}}
    finally:
        for p in (src, bed, txt, out, os.path.join(d, "genome.chromsizes")):
            if os.path.exists(p):
                os.unlink(p)


# ------------------------------------------------------------------------------------------------
# cload pairs
# ------------------------------------------------------------------------------------------------

def _decoy(rec, k, bins, zero):
    """content of an undeclared column: plausible but different data, so that reading a wrong column yields wrong pixels"""
    names = _names(bins)
    lens = _lens(bins)
    if k % 3 == 0:
        return names[(rec[0] + 1 + k) % len(names)]
    if k % 3 == 1:
        c = rec[2]
        L = lens[c]
        p = (rec[3] + 3 + 5 * k) % L
        return str(p if zero else p + 1)
    return "."


def _pairs_line(rec, lay, bins, zero):
    cols = [None] * lay["width"]
    vals = [gen.chromname(rec[0]), str(rec[1]), gen.chromname(rec[2]), str(rec[3])]
    for pos, v in zip(lay["cols"], vals):
        cols[pos - 1] = v
    if lay.get("val"):
        cols[lay["val"] - 1] = str(rec[4])
    for k in range(len(cols)):
        if cols[k] is None:
            cols[k] = _decoy(rec, k, bins, zero)
    return "\t".join(cols)


def _pairs(case):
    if case.get("names") == "numeric":
        with gen.names_as(NUMERIC):
            return _pairs({k: v for k, v in case.items() if k != "names"})
    bins, recs, zero, symm = case["bins"], case["records"], case["zero_based"], case["symm"]
    d = os.path.join(gen.tmpdir(), f"c16p-{os.getpid()}")
    os.makedirs(d, exist_ok=True)
    bed, txt, out = (os.path.join(d, x) for x in ("bins.bed", "in.pairs", "out.cool"))
    _write_bed(bed, bins)
    cs = case.get("chunksize")
    try:
        lay_req, texts, argvs = [], [], []
        for lay in case["layouts"]:
            lines = [_pairs_line(r, lay, bins, zero) for r in recs]
            texts.append(lines)
            toks = _toks(lines, (lay["cols"][0] - 1, lay["cols"][2] - 1))
            step = cs or max(len(toks), 1)
            fields = [[nm, c - 1] for nm, c in zip(["chrom1", "pos1", "chrom2", "pos2"], lay["cols"])]
            if lay.get("val"):
                fields.append(["val", lay["val"] - 1])
            lay_req.append({"fields": fields, "chunks": [toks[k:k + step] for k in range(0, len(toks), step)]})
        has_val = any(lay.get("val") for lay in case["layouts"])
        answers = []
        for want_val in ((False, True) if has_val else (False,)):
            idx = [k for k, lay in enumerate(case["layouts"]) if bool(lay.get("val")) == want_val]
            if idx:
                res = drv().ask("C16.pairs", bins=bins, contigs=_names(bins), value=("val" if want_val else None),
                                zero_based=zero, symm=symm, layouts=[lay_req[k] for k in idx])
                answers += list(zip(idx, res))
        answers = [a for _, a in sorted(answers, key=lambda t: t[0])]
        first = None
        for kk, (lay, lines, a) in enumerate(zip(case["layouts"], texts, answers)):
            assert a["valid_bins"]
            assert not a["at_len"], "generator produced a position at the chromosome length (D13 territory)"
            assert a["l1"] == a["l0"], f"cloadPairs (L1) != pairsSpec (L0): {a}"
            with open(txt, "w") as f:
                f.write("".join(ln + "\n" for ln in lines))
            c1, p1, c2, p2 = lay["cols"]
            binsarg, _ = _bins_arg(d, bed, bins, "chromsizes" if kk % 3 == 2 else None)   # every third layout: <chromsizes>:<binsize>
            argv = ["cload", "pairs", "-c1", str(c1), "-p1", str(p1), "-c2", str(c2), "-p2", str(p2)] + (["-0"] if zero else []) + \
                   ([] if symm else ["-N"]) + (["--chunksize", str(cs)] if cs else []) + \
                   (["--field", f"val={lay['val']}"] if lay.get("val") else []) + [binsarg, txt, out]
            if os.path.exists(out):
                os.unlink(out)
            r, _ = _invoke(argv)
            ctx = {"argv": argv[:-3] + ["<bed>" if binsarg == bed else "<chromsizes>:" + binsarg.rsplit(":", 1)[1], "<pairs>", "<out>"], "input": "\n".join(lines[:30]), "bins_bed": open(bed).read(),
                   "layout": lay}
            if r.exit_code != 0:
                if "err" in a["l0"]:
                    continue
                return {"mismatch": True, **ctx, "impl": _exc(r), "model": a["l0"],
                        "note": "cload pairs failed where the specification bins every record"}
            if "err" in a["l0"]:
                return {"mismatch": True, **ctx, "impl": "created", "model": a["l0"]}
            cols = ["count"] + (["val"] if lay.get("val") else [])
            got, _ = impl(_read_table, out, cols)
            if got["count"] != a["l0"]["ok"]["count"]:
                return {"mismatch": True, **ctx, "impl": got["count"], "model": a["l0"]["ok"]["count"],
                        "note": "pixel counts differ from one unit per record in the pixel of its two declared positions"}
            if lay.get("val") and got["val"] != a["l0"]["ok"]["sum"]:
                return {"mismatch": True, **ctx, "column": "val", "impl": got["val"], "model": a["l0"]["ok"]["sum"]}
            if first is None:
                first = got["count"]
            elif got["count"] != first:
                return {"mismatch": True, **ctx, "impl": got["count"], "first_layout": first,
                        "note": "the same records under another layout gave another cooler"}
            viol = monitor.violations(out)
            if viol:
                return {"mismatch": True, **ctx, "what": "schema (C02 raw monitor)", "violated": viol}
        return {"stats": {"layouts": len(case["layouts"])}}
    finally:
        for p in (bed, txt, out, os.path.join(d, "genome.chromsizes")):
            if os.path.exists(p):
                os.unlink(p)


# ------------------------------------------------------------------------------------------------
# units
# ------------------------------------------------------------------------------------------------

def _pandas_primitive(case):
    rows = case["rows"]
    text = "".join("\t".join(str(x) for x in row) + "\n" for row in rows)
    fields = case["fields"]
    ans = drv().ask("C16.read_fields", fields=fields, rows=rows)
    names, usecols = [f[0] for f in fields], [f[1] for f in fields]
    try:
        df = pd.read_csv(io.StringIO(text), sep="\t", usecols=usecols, names=names, header=None)
        got = [{"ok": sorted([nm, int(df[nm].iloc[k])] for nm in names)} for k in range(len(rows))]
    except Exception as e:  # noqa
        got = [{"err": errclass(e)}] * len(rows)
    dup = len(set(usecols)) != len(usecols)
    for row, g, a in zip(rows, got, ans):
        want = a["pandas"]
        w = {"ok": sorted(want["ok"])} if "ok" in want else {"err": "ValueError"}
        if dup and "err" in g and "err" in w:
            continue    # repeated column numbers are outside the domain (not injective): only "no record is produced" is compared
        if g != w:
            return {"mismatch": True, "row": row, "usecols": usecols, "names": names, "impl": g, "model": w,
                    "note": "pandas assigns `names` to the selected columns in ascending column order"}
    return None


def _field_param(case):
    from cooler.cli._util import parse_field_param
    for ic in (True, False):
        for ia in (True, False):
            ans = drv().ask("C16.field_param", args=case["args"], includes_colnum=ic, includes_agg=ia)
            for arg, a in zip(case["args"], ans):
                try:
                    name, colnum, dtype, agg = parse_field_param(arg, includes_colnum=ic, includes_agg=ia)
                    got = {"ok": [name, colnum, None if dtype is None else str(np.dtype(dtype)), agg]}
                except TypeError:
                    got = {"err": "TypeError"}
                except Exception as e:  # noqa
                    got = {"err": "BadParameter" if any(c.__name__ == "BadParameter" for c in type(e).__mro__) else errclass(e)}
                want = a
                if "ok" in want:
                    nm, cn, dt, ag = want["ok"]
                    want = {"ok": [nm, cn, None if dt is None else str(np.dtype(dt)), ag]}
                if got != want:
                    return {"mismatch": True, "arg": arg, "includes_colnum": ic, "includes_agg": ia, "impl": got, "model": want}
    return None


def _constants(case):
    c = drv().ask("C16.constants")
    for nm in c["dtype_names"]:
        try:
            np.dtype(nm)
        except TypeError:
            return {"mismatch": True, "what": f"numpy rejects dtype {nm!r} which the model's isDtype accepts"}
    for nm in GARBAGE_DTYPES:
        try:
            np.dtype(nm)
            return {"mismatch": True, "what": f"numpy accepts {nm!r}"}
        except TypeError:
            pass
    from cooler._reduce import HIGLASS_TILE_DIM
    from cooler.create._ingest import SANITIZE_PRESETS
    if HIGLASS_TILE_DIM != c["tile_dim"]:
        return {"mismatch": True, "what": "HIGLASS_TILE_DIM", "impl": HIGLASS_TILE_DIM}
    want = {"bg2": ("start", ("chrom", "start", "end"), True), "pairs": ("pos", ("chrom", "pos"), False)}
    for k, (anchor, sided, srt) in want.items():
        p = SANITIZE_PRESETS[k]
        if (p["anchor_field"], tuple(p["sided_fields"]), p["sort"]) != (anchor, sided, srt) or p["is_one_based"] or not p["validate"] \
                or p["tril_action"] != "reflect":
            return {"mismatch": True, "what": f"SANITIZE_PRESETS[{k}]", "impl": {x: str(y) for x, y in p.items()}}
    if [f[0] for f in c["coo_fields"]] != ["bin1_id", "bin2_id", "count"] or [f[1] for f in c["bg2_fields"]] != list(range(7)):
        raise AssertionError("model constants")
    return None


# ------------------------------------------------------------------------------------------------
# zoomify -r
# ------------------------------------------------------------------------------------------------

def _zoomify_spec(case):
    nb, bs, spec = case["nbins"], case["binsize"], case["spec"]
    d = os.path.join(gen.tmpdir(), f"c16z-{os.getpid()}")
    os.makedirs(d, exist_ok=True)
    base, out = os.path.join(d, "base.cool"), os.path.join(d, "out.mcool")
    bins = [[0, k * bs, (k + 1) * bs] for k in range(nb)]
    px = [[i, j, v] for i, j, v in case["pixels"]]
    gen.write_cooler(base, bins, px, symm=True)
    try:
        items = [s.strip().lower() for s in spec.split(",")]
        m = drv().ask("C16.resolutions", curres=bs, genome_length=nb * bs, items=items)
        argv = ["zoomify", "-r", spec, "-o", out, base]
        r, _ = _invoke(argv)
        ctx = {"argv": argv[:-3] + ["-o", "<out>", "<base: 1 chromosome, %d bins of %d bp>" % (nb, bs)], "spec": spec}
        if "err" in m:
            if r.exit_code == 0:
                return {"mismatch": True, **ctx, "impl": "created", "model": m}
            return None
        if r.exit_code != 0:
            return {"mismatch": True, **ctx, "impl": _exc(r), "model_levels": m["levels"],
                    "note": "zoomify refuses a documented resolution spelling"}
        got = sorted(int(p.rsplit("/", 1)[-1]) for p in impl(cooler.fileops.list_coolers, out))
        if got != m["levels"]:
            return {"mismatch": True, **ctx, "impl_levels": got, "model_levels": m["levels"], "model_resolutions": m["ok"]}
        return {"stats": {"levels": len(got)}}
    finally:
        for p in (base, out):
            if os.path.exists(p):
                os.unlink(p)


CHECKS = {"constants": _constants, "dump": _dump, "dump_layout": _dump_layout, "dump_refuse": _dump_refuse, "table": _table,
          "load": _load, "pairs": _pairs, "pandas_primitive": _pandas_primitive, "field_param": _field_param,
          "zoomify_spec": _zoomify_spec}


# ------------------------------------------------------------------------------------------------
# generators
# ------------------------------------------------------------------------------------------------

WEIGHTS = [0.5, 2.0, 0.1, 0.3, 1.5, 0.7, 1.0 / 3.0, 1.25]


def _gen_bins(rng, n, var):
    layout = gen.split_layout(rng, n)
    if len(layout) > 2:
        layout = [layout[0], sum(layout[1:])]
    if not var:
        return gen.layout_bins(layout)
    out = []
    for c, k in enumerate(layout):
        out += gen.chrom_bins(c, [rng.choice([4, 7, 10, 13]) for _ in range(k)])
    return out


def _gen_store(rng, n, symm, kind=None, var=False, ext_kind="float", weight=True):
    bins = _gen_bins(rng, n, var)
    px = gen.matrix_kinds(rng, n, symm, kind)
    w = None
    if weight:
        w = [rng.choice(WEIGHTS) for _ in range(n)]
        w[rng.randrange(n)] = None
    if ext_kind == "float":
        ext = {"name": "gc", "kind": "float", "values": [rng.choice([0.25, 0.5, 0.1, 0.75, 1.0]) for _ in range(n)]}
    else:
        ext = {"name": "tag", "kind": "int", "values": [rng.randint(1, 9) * 10 + k for k in range(n)]}
    return {"bins": bins, "pixels": px, "symm": symm, "weight": w, "ext": ext, "kind": kind}


def _span_str(bins, lo, hi, rng):
    """a region covering bins [lo, hi) of one chromosome; sometimes ending inside the last bin"""
    c = bins[lo][0]
    first, last = bins[lo], bins[hi - 1]
    whole = [b for b in bins if b[0] == c]
    if whole[0] is first and whole[-1] is last and rng.random() < 0.5:
        return gen.chromname(c)
    end = last[2] if rng.random() < 0.6 else last[2] - 1
    start = first[1] if rng.random() < 0.6 else min(first[1] + 1, end - 1)
    return f"{gen.chromname(c)}:{start}-{end}"


def _chrom_ranges(bins):
    out = {}
    for k, b in enumerate(bins):
        out.setdefault(b[0], []).append(k)
    return out


def _regions(rng, bins):
    """[none, -r, -r -r2 above, below, straddling the diagonal]"""
    n = len(bins)
    ch = _chrom_ranges(bins)
    regs = [{"kind": "none"}]
    c = rng.choice(sorted(ch))
    ids = ch[c]
    a = rng.randrange(len(ids))
    b = rng.randint(a + 1, len(ids))
    regs.append({"kind": "r", "r": _span_str(bins, ids[a], ids[b - 1] + 1, rng)})
    # two disjoint spans, the first before the second
    if len(ch) >= 2:
        c0, c1 = sorted(ch)[0], sorted(ch)[-1]
        s0, s1 = ch[c0], ch[c1]
        lo = (s0[0], s0[rng.randrange(len(s0))] + 1)
        hi = (s1[rng.randrange(len(s1))], s1[-1] + 1)
    else:
        ids = ch[sorted(ch)[0]]
        if len(ids) >= 2:
            cut = rng.randint(1, len(ids) - 1)
            lo, hi = (ids[0], ids[cut - 1] + 1), (ids[cut], ids[-1] + 1)
        else:
            lo = hi = (ids[0], ids[0] + 1)
    regs.append({"kind": "above", "r": _span_str(bins, lo[0], lo[1], rng), "r2": _span_str(bins, hi[0], hi[1], rng)})
    regs.append({"kind": "below", "r": _span_str(bins, hi[0], hi[1], rng), "r2": _span_str(bins, lo[0], lo[1], rng)})
    # overlapping spans on one chromosome (the box straddles the diagonal, not anchored on it)
    c = max(ch, key=lambda k: len(ch[k]))
    ids = ch[c]
    if len(ids) >= 3:
        regs.append({"kind": "straddle", "r": _span_str(bins, ids[0], ids[-2] + 1, rng), "r2": _span_str(bins, ids[1], ids[-1] + 1, rng)})
    elif len(ids) == 2:
        regs.append({"kind": "straddle", "r": _span_str(bins, ids[0], ids[1] + 1, rng), "r2": _span_str(bins, ids[1], ids[1] + 1, rng)})
    else:
        regs.append({"kind": "straddle", "r": gen.chromname(c), "r2": gen.chromname(c)})
    # nested the other way round (wider than tall)
    if len(ids) >= 3:
        regs.append({"kind": "nested", "r": _span_str(bins, ids[1], ids[-2] + 1, rng), "r2": gen.chromname(c)})
    return regs


PERMS = [list(p) for p in itertools.permutations([1, 2, 3, 4])]
WIDE = [{"cols": [5, 2, 1, 7], "width": 7}, {"cols": [7, 6, 3, 1], "width": 7}, {"cols": [2, 7, 6, 4], "width": 7},
        {"cols": [3, 1, 4, 2], "width": 6}, {"cols": [6, 5, 4, 3], "width": 7}, {"cols": [1, 3, 5, 7], "width": 7}]
WIDE_VAL = [{"cols": [3, 4, 5, 6], "width": 7, "val": 1}, {"cols": [6, 3, 4, 2], "width": 7, "val": 1},
            {"cols": [5, 2, 7, 4], "width": 7, "val": 3}, {"cols": [2, 3, 4, 5], "width": 5, "val": 1}]


def _gen_records(rng, bins, zero, k):
    lens = _lens(bins)
    recs = []
    for t in range(k):
        c1, c2 = rng.randrange(len(lens)), rng.randrange(len(lens))
        p1, p2 = rng.randrange(lens[c1]), rng.randrange(lens[c2])
        if not zero:
            p1, p2 = p1 + 1, p2 + 1
        recs.append([c1, p1, c2, p2, rng.randint(1, 9)])
    if recs and rng.random() < 0.7:
        recs.append(list(recs[0]))                              # a repeated pair: the pixel is counted twice
        recs.append([recs[0][2], recs[0][3], recs[0][0], recs[0][1], 2])   # and its mirror image
    return recs


LOAD_FIELD_KINDS = ["count_col", "count_col2", "two", "two_rev"]


def _load_variants(rng, store, thorough):
    vs = []
    npx = len(store["pixels"])
    for fmt in ("coo", "bg2"):
        for ob in (False, True):
            for cs in (1, 2, None):
                vs.append({"fmt": fmt, "one_based": ob, "chunksize": cs})
        vs.append({"fmt": fmt, "one_based": rng.random() < 0.5, "chunksize": rng.choice([1, 2, 3, None]), "shuffle": rng.randrange(10 ** 6)})
        vs.append({"fmt": fmt, "one_based": rng.random() < 0.5, "chunksize": None, "as_float": True})
        vs.append({"fmt": fmt, "one_based": rng.random() < 0.5, "chunksize": rng.choice([2, None]), "bins_arg": "chromsizes"})
        if fmt == "coo":
            vs.append({"fmt": fmt, "one_based": rng.random() < 0.5, "chunksize": rng.choice([1, 2, None]), "ids_swapped": True,
                       "shuffle": rng.randrange(10 ** 6) if rng.random() < 0.5 else None})
        if store.get("ext") and store["ext"]["kind"] == "int":
            kinds = LOAD_FIELD_KINDS if thorough else rng.sample(LOAD_FIELD_KINDS, 2)
            for k in kinds:
                vs.append({"fmt": fmt, "one_based": rng.random() < 0.5, "chunksize": rng.choice([1, 2, None]), "field": k,
                           "shuffle": rng.randrange(10 ** 6) if rng.random() < 0.5 else None})
    return vs


def _field_args(rng, k):
    names = ["count", "score", "a", "bin1_id", "", "x1"]
    nums = ["1", "3", "10", "0", "-2", "+4", "x", "", "2.0", "007", "-0", "12a"]
    props = ["dtype=int", "dtype=float", "dtype=float32", "dtype=nope", "agg=sum", "agg=mean", "agg=", "foo=1", "dtype", "=",
             "dtype=int=3", "", "dtype=i4", "agg=first", "dtype=floaty", "Dtype=int"]
    out = []
    for _ in range(k):
        s = rng.choice(names)
        r = rng.random()
        if r < 0.7:
            s += "=" + rng.choice(nums)
        elif r < 0.8:
            s += "=" + rng.choice(nums) + "=" + rng.choice(nums)
        r = rng.random()
        if r < 0.6:
            s += ":" + ",".join(rng.choice(props) for _ in range(rng.randint(1, 3)))
        elif r < 0.7:
            s += ":" + rng.choice(props) + ":" + rng.choice(props)
        if rng.random() < 0.1:
            s = "".join(rng.choice("a1=:,") for _ in range(rng.randint(0, 7)))
        out.append(s)
    return out


ZOOM_SPECS = ["N", "B", "4DN", "5000N", "20B", "20b", "1000,2000,4000", "n", "b", "40n", "20B,4DN", "30,B", "N,B", "4dn,20b,160",
              " 20B , 4DN ", "x", "20q", "b,"]


def cases(tier, rng):
    thorough = tier == "thorough"
    yield "constants", {}
    # --- corpus: the minimal replays of the repaired defects D11 / D12 / D10 ---------------------
    s0 = {"bins": gen.layout_bins([3, 2]), "pixels": [[0, 0, 5], [0, 2, 1], [1, 1, 7], [1, 4, 2], [2, 3, 4], [4, 4, 9]], "symm": True,
          "weight": [0.5, None, 0.1, 0.3, 2.0], "ext": {"name": "gc", "kind": "float", "values": [0.25, 0.5, 0.75, 1.0, 0.1]}, "kind": "corpus"}
    yield "dump", {"store": s0, "region": {"kind": "none"}, "masks": [32, 64, 96, 33], "variants": [[None, None, None]]}
    yield "pairs", {"bins": gen.layout_bins([2, 2]), "records": [[0, 5, 1, 12, 3], [1, 18, 0, 11, 2], [0, 3, 0, 17, 1]], "zero_based": False,
                    "symm": True, "layouts": [{"cols": [1, 2, 3, 4], "width": 4}, {"cols": [3, 2, 1, 4], "width": 4}]}
    # --- dump ---------------------------------------------------------------------------------------
    if thorough:
        plan = [(6, True, "dense-random", True, "float"), (5, False, "dense-random", False, "int"), (4, True, "full", False, "int"),
                (3, False, "full", True, "float"), (6, False, "random", True, "int"), (5, True, "gaps", False, "float"),
                (2, True, "full", True, "int"), (1, True, "full", False, "float"), (4, False, "nodiag", False, "float"),
                (5, True, "nodiag", True, "int"), (6, True, "onerow", False, "float"), (3, True, "empty", False, "int")]
    else:
        plan = [(5, True, "dense-random", True, "float"), (4, False, "dense-random", False, "int")]
    if thorough:
        plan += [(rng.randint(2, 6), rng.random() < 0.6, rng.choice(["random", "dense-random", "gaps", "onerow", "nodiag"]),
                  rng.random() < 0.5, rng.choice(["float", "int"])) for _ in range(10)]
    dump_stores = []
    for n, symm, kind, var, ek in plan:
        st = _gen_store(rng, n, symm, kind, var, ek)
        dump_stores.append(st)
        for reg in _regions(rng, st["bins"]):
            for v in VARIANTS:
                yield "dump", {"store": st, "region": reg, "variants": [v]}
    for st in dump_stores[: (6 if thorough else 2)]:
        for reg in _regions(rng, st["bins"])[:3]:
            yield "dump_layout", {"store": st, "region": reg, "masks": sorted(rng.sample(range(128), 24 if thorough else 12)),
                                  "chunks": [1, None]}
    for symm in (True, False):
        st = _gen_store(rng, 3, symm, "full", False, "int", weight=False)
        yield "dump_refuse", {"store": st, "masks": [0, 4, 5, 12, 20, 36, 68, 8, 127]}
    # --- tables ---------------------------------------------------------------------------------------
    for st in dump_stores[: (6 if thorough else 2)]:
        ext = st["ext"]["name"]
        reqs = [["bins", None], ["chroms", None], ["bins", ["chrom", "start", "end"]], ["bins", ["end", "chrom"]],
                ["bins", [ext, "weight", "start"]], ["bins", ["weight"]], ["chroms", ["length", "name"]], ["chroms", ["name"]]]
        yield "table", {"store": st, "requests": reqs}
    # --- load -----------------------------------------------------------------------------------------
    lplan = [(5, True, False, "int"), (4, False, True, "int"), (6, True, True, "float"), (3, False, False, "float")]
    if thorough:
        lplan += [(rng.randint(1, 6), rng.random() < 0.5, rng.random() < 0.5, rng.choice(["int", "float"])) for _ in range(12)]
    for n, symm, var, ek in lplan:
        st = _gen_store(rng, n, symm, rng.choice(["dense-random", "random", "full", "nodiag", "gaps"]), var, ek)
        if len(st["pixels"]) < min(3, n):
            st["pixels"] = gen.matrix_kinds(rng, n, symm, "full")
            st["kind"] = "full"
        yield "load", {"store": st, "variants": _load_variants(rng, st, thorough)}
    # the same with chromosome names that are all numerals
    st = _gen_store(rng, 4, True, "dense-random", False, "int")
    yield "load", {"store": st, "names": "numeric",
                   "variants": [v for v in _load_variants(rng, st, thorough) if not v.get("field")][:: (1 if thorough else 3)]}
    # --- pairs ----------------------------------------------------------------------------------------
    pplan = [(False, True), (True, True), (False, False), (True, False)]
    if thorough:
        pplan = pplan * 3
    for zero, symm in pplan:
        bins = _gen_bins(rng, rng.randint(3, 6), rng.random() < 0.5)
        recs = _gen_records(rng, bins, zero, rng.randint(3, 7))
        lays = [{"cols": p, "width": 4} for p in PERMS] + WIDE + WIDE_VAL
        yield "pairs", {"bins": bins, "records": recs, "zero_based": zero, "symm": symm, "layouts": lays,
                        "chunksize": rng.choice([None, 1, 2, 3])}
    bins = _gen_bins(rng, 5, False)
    yield "pairs", {"bins": bins, "records": _gen_records(rng, bins, False, 6), "zero_based": False, "symm": True, "names": "numeric",
                    "layouts": [{"cols": p, "width": 4} for p in PERMS[:: (1 if thorough else 5)]] + WIDE[:2], "chunksize": 2}
    # --- units ----------------------------------------------------------------------------------------
    for _ in range(60 if thorough else 20):
        w = rng.randint(2, 7)
        k = rng.randint(1, min(w, 5))
        cols = rng.sample(range(w), k)
        r = rng.random()
        if r < 0.15:
            cols[rng.randrange(k)] = rng.choice(cols)           # repeated column
        elif r < 0.25:
            cols[rng.randrange(k)] = w + rng.randint(0, 2)       # past the end
        yield "pandas_primitive", {"rows": [[rng.randint(0, 99) for _ in range(w)] for _ in range(2)],
                                   "fields": [[f"f{t}", c] for t, c in enumerate(cols)]}
    yield "field_param", {"args": ["count=3", "count=3:dtype=float", "score=5:dtype=float,agg=mean", "count:dtype=int", "count=0", "a=1:b:c",
                                   "a=1=2", "count=x", "count=2:agg=sum", "count=2:dtype=nope", "count=2:dtype", "=1", "", ":", "count=+4",
                                   "count=2:dtype=int,dtype=float32", "count=2:"]}
    for _ in range(12 if thorough else 4):
        yield "field_param", {"args": _field_args(rng, 40)}
    # --- zoomify --------------------------------------------------------------------------------------
    px = [[0, 0, 4], [0, 7, 1], [3, 900, 2], [100, 101, 5], [2047, 2047, 1]]
    for spec in ZOOM_SPECS if thorough else ZOOM_SPECS[:9] + ["x"]:
        yield "zoomify_spec", {"nbins": 2048, "binsize": 10, "spec": spec, "pixels": px}
    # genome lengths that are NOT multiples of 256, where ceil(L/256) is itself a term of the progression (the coarsest level
    # exists only if the bound is a ceiling): L = 1000 -> 4, 257 -> 2, 1200 -> 5, 2305 -> 10
    for nb, bs, specs in ((1000, 1, ["b", "n", "1b", "2b", "1n"]), (257, 1, ["b", "n"]), (600, 2, ["n", "2n", "b"]),
                          (461, 5, ["n", "b", "5n"])):
        for spec in specs if thorough else specs[:2]:
            yield "zoomify_spec", {"nbins": nb, "binsize": bs, "spec": spec,
                                   "pixels": [[0, 0, 4], [0, 7, 1], [3, nb - 2, 2], [100, 101, 5], [nb - 1, nb - 1, 1]]}


def nontrivial(name, case):
    if name in ("dump", "dump_layout", "load", "table"):
        return len(case["store"]["pixels"]) >= 2
    if name == "pairs":
        return len(case["records"]) >= 2
    return True


def distribution(name, case):
    if name == "dump":
        yield f"dump.region={case['region']['kind']}"
        yield f"dump.{'symm' if case['store']['symm'] else 'square'}.n={len(case['store']['bins'])}"
    if name == "load":
        for v in case["variants"]:
            yield f"load.{v['fmt']}.{'one' if v['one_based'] else 'zero'}-based"
    if name == "pairs":
        yield f"pairs.{'zero' if case['zero_based'] else 'one'}-based.{'symm' if case['symm'] else 'square'}"


def shrink(name, case):
    if name in ("dump", "dump_layout"):
        masks = case.get("masks") or list(range(128))
        if len(masks) > 1:
            h = len(masks) // 2
            for part in (masks[:h], masks[h:]):
                c = dict(case); c["masks"] = part
                yield c
        vs = case.get("variants") or VARIANTS
        if name == "dump" and len(vs) > 1:
            for v in vs:
                c = dict(case); c["variants"] = [v]
                yield c
        px = case["store"]["pixels"]
        if len(masks) <= 2:
            for k in range(len(px)):
                c = dict(case); c["store"] = dict(case["store"]); c["store"]["pixels"] = px[:k] + px[k + 1:]
                yield c
    elif name == "load":
        if len(case["variants"]) > 1:
            for v in case["variants"]:
                c = dict(case); c["variants"] = [v]
                yield c
        else:
            px = case["store"]["pixels"]
            for k in range(len(px)):
                if len(px) > 1:
                    c = dict(case); c["store"] = dict(case["store"]); c["store"]["pixels"] = px[:k] + px[k + 1:]
                    yield c
    elif name == "pairs":
        if len(case["layouts"]) > 2:
            for lay in case["layouts"][1:]:
                c = dict(case); c["layouts"] = [case["layouts"][0], lay]
                yield c
        else:
            recs = case["records"]
            for k in range(len(recs)):
                if len(recs) > 1:
                    c = dict(case); c["records"] = recs[:k] + recs[k + 1:]
                    yield c
    elif name == "field_param":
        if len(case["args"]) > 1:
            for a in case["args"]:
                yield {"args": [a]}


def escalate(name, case, rng):
    """a unit correspondence stopped checking: look for an end-to-end failure"""
    worker_init()
    if name == "pandas_primitive":
        bins = gen.layout_bins([2, 2])
        c = {"bins": bins, "records": _gen_records(rng, bins, False, 5), "zero_based": False, "symm": True,
             "layouts": [{"cols": p, "width": 4} for p in PERMS] + WIDE}
        r = run_check(_pairs, c)
        if r:
            return {"check": "pairs", "case": c, "result": r}
    if name == "dump_layout":
        c = {"store": case["store"], "region": case["region"]}
        r = run_check(_dump, c)
        if r:
            return {"check": "dump", "case": c, "result": r}
    if name == "field_param":
        # the same argument through `cooler load --field`
        st = _gen_store(rng, 3, True, "full", False, "int")
        c = {"store": st, "variants": [{"fmt": "coo", "one_based": False, "chunksize": None, "field": k} for k in LOAD_FIELD_KINDS]}
        r = run_check(_load, c)
        if r:
            return {"check": "load", "case": c, "result": r}
    return None
