"""C06 — unordered ingestion equals aggregating all records in memory."""
from __future__ import annotations

import itertools
import logging
import os
import re

import numpy as np
import pandas as pd

from harness import gen, monitor
from harness.common import ImplRaised, drv, guarded, impl, run_check

PID = "C06"
THEOREMS = ["unordered_eq_aggregate", "passes_irrelevant", "split_order_irrelevant", "chunk_order_irrelevant",
            "sortPass_irrelevant", "aggregate_pointwise", "groups_cover"]
LEVELS = {"unordered": "top", "edges": "unit", "cli": "top"}
DESCRIBE = {
    "unordered": "cooler.create_cooler(..., ordered=False, mergebuf, max_merge[, ensure_sorted]) over a chunking of a record multiset vs "
                 "Lean `aggregateAll` (= `createFromUnordered` for one or two passes over any valid grouping: theorem "
                 "unordered_eq_aggregate); temp directory listing before/after; output judged by the C02 raw monitor",
    "edges": "contract `validEdges` evaluated by Lean on the first-pass groups the real code logs ('Merging chunks lo-hi')",
    "cli": "`cooler load -f coo` with --chunksize/--mergebuf/--max-merge on a shuffled COO file vs Lean `aggregateAll`",
}
RULE = ("record multisets of <=8 records over n<=5 bins (repeats across chunks allowed); one case = one multiset with SEVERAL chunkings "
        "(all set partitions into <=3 chunks for <=5 records, seeded beyond; empty chunks inserted) x chunk orders x mergebuf in "
        "{1,2,3,nrec,nrec+1} x max_merge in {1,2,3,k,k+1,200} x ensure_sorted; non-trivial = a pixel repeated across chunks or >=3 chunks")
EXHAUSTIVE = {"quick": False, "thorough": False}
TRUSTED = ["tempfile.NamedTemporaryFile(delete=True) lifetime and CPython reference counting (temp files observed, not proved)",
           "first-pass edges (np.linspace) are a free unit checked by contract through the log"]
ASSUMPTIONS = ["each chunk has distinct keys (the default dupcheck rejects duplicates within a chunk)"]
CHUNK = 1


def worker_init():
    global cooler
    import cooler  # noqa


class _Cap(logging.Handler):
    def __init__(self):
        super().__init__(level=logging.INFO)
        self.groups = []

    def emit(self, rec):
        m = re.match(r"Merging chunks (\d+)-(\d+):", rec.getMessage())
        if m:
            self.groups.append([int(m.group(1)), int(m.group(2))])


def _frames(chunks, quarter):
    """the chunk stream as data frames; `quarter`: the count column is float64 holding count/4 (never integral sums unless
    the model's are multiples of 4), requested as float64 in the output"""
    for c in chunks:
        df = gen.pixels_df(c, "float64" if quarter else "int32")
        if quarter:
            df["count"] = df["count"] / 4.0
        yield df


def _run_one(bdf, chunks, symm, mb, mm, ensure_sorted, outdir, tag, nochecks=False, quarter=False):
    out = os.path.join(outdir, f"u-{tag}.cool")
    before = set(os.listdir(outdir))
    cap = _Cap()
    lg = logging.getLogger("cooler.create")
    old = (lg.level, lg.propagate)
    lg.setLevel(logging.INFO)
    lg.propagate = False
    lg.addHandler(cap)
    try:
        kw = dict(boundscheck=False, triucheck=False, dupcheck=False) if nochecks else {}
        if quarter:
            kw["dtypes"] = {"count": "float64"}
        impl(cooler.create_cooler, out, bdf, _frames(chunks, quarter), symmetric_upper=symm, ordered=False,
             mergebuf=mb, max_merge=mm, ensure_sorted=ensure_sorted, **kw)
    finally:
        lg.removeHandler(cap)
        lg.setLevel(old[0])
        lg.propagate = old[1]
    after = set(os.listdir(outdir))
    t = cooler.Cooler(out).pixels()[:]
    sc = 4 if quarter else 1
    got = [[int(a), int(b), (int(v * sc) if float(v * sc) == int(v * sc) else float(v * sc))] for a, b, v in zip(t["bin1_id"], t["bin2_id"], t["count"])]
    info = dict(cooler.Cooler(out).info)
    info["sum"] = info["sum"] * sc
    if quarter and str(t["count"].dtype) != "float64":
        got = [["count column dtype", str(t["count"].dtype)]] + got
    viol = monitor.violations(out) if not quarter else [v for v in monitor.violations(out) if "sum" not in v]
    os.unlink(out)
    return got, info, sorted(after - before - {os.path.basename(out)}), cap.groups, viol


def _unordered(case):
    n, symm = case["n"], case["symm"]
    bdf = gen.bins_df(gen.layout_bins(case.get("layout") or [n]))
    outdir = os.path.join(gen.tmpdir(), f"u{os.getpid()}")
    os.makedirs(outdir, exist_ok=True)
    nruns = 0
    for chunks in case["chunkings"]:
        m = drv().ask("C06.unordered", chunks=[sorted(c) for c in chunks], edges=None)
        assert m["model"] == m["spec"]
        k = len(chunks)
        nrec = sum(len(c) for c in chunks)
        for prm in case["params"]:
            mb, mm, es = prm[:3]
            nochecks = len(prm) > 3 and prm[3]
            mm_eff = {"k": k, "k+1": k + 1}.get(mm, mm)
            use = [sorted(c) for c in chunks] if not es else chunks
            got, info, leftover, groups, viol = _run_one(bdf, use, symm, mb, mm_eff, es, outdir, os.getpid(), nochecks,
                                                         quarter=bool(case.get("quarter")))
            nruns += 1
            ctx = {"chunks": chunks, "mergebuf": mb, "max_merge": mm_eff, "ensure_sorted": es, "checks_off": nochecks}
            if case.get("quarter"):
                ctx["count_column"] = "float64 holding count/4 (values below shown x4)"
            if got != m["spec"]:
                return {"mismatch": True, **ctx, "impl": got, "model": m["spec"]}
            if int(info["sum"]) != m["total"]:
                return {"mismatch": True, **ctx, "what": "sum attribute", "impl": int(info["sum"]), "model": m["total"]}
            if leftover:
                return {"mismatch": True, **ctx, "what": "temporary files outlive a successful run", "leftover": leftover}
            if viol:
                return {"mismatch": True, **ctx, "what": "schema (C02 monitor)", "violated": viol}
            if groups:
                edges = [groups[0][0]] + [g[1] for g in groups]
                ok = all(a[1] == b[0] for a, b in zip(groups, groups[1:]))
                e = drv().ask("C06.unordered", chunks=[sorted(c) for c in chunks], edges=edges)
                assert e["model"] == e["spec"] or not e["edges_valid"]
                if not ok or not e["edges_valid"]:
                    return {"mismatch": True, **ctx, "what": "first-pass groups do not cover the chunks consecutively", "groups": groups,
                            "unit": True}
    return {"stats": {"runs": nruns}}


def _edges(case):
    """drive the two-pass path for every chunk count n and max_merge < n; contract on the logged groups"""
    bdf = gen.bins_df(gen.layout_bins([3]))
    outdir = os.path.join(gen.tmpdir(), f"e{os.getpid()}")
    os.makedirs(outdir, exist_ok=True)
    k = case["k"]
    chunks = [[[t % 3, 2, 1 + t]] if t % 3 <= 2 else [] for t in range(k)]
    chunks = [[[min(t % 3, 2), 2, 1 + t]] for t in range(k)]
    got, info, leftover, groups, viol = _run_one(bdf, chunks, True, 3, case["max_merge"], False, outdir, os.getpid())
    m = drv().ask("C06.unordered", chunks=chunks, edges=None)
    if got != m["spec"]:
        return {"mismatch": True, "impl": got, "model": m["spec"], "top": True}
    if k > case["max_merge"] > 0:
        if not groups:
            # the grouping of the first pass is read off a log line; its wording is not behaviour: no line, no verdict on the
            # grouping (the result itself was compared with the specification above)
            return {"stats": {"first_pass_groups_not_observable": 1}}
        edges = [groups[0][0]] + [g[1] for g in groups]
        e = drv().ask("C06.unordered", chunks=chunks, edges=edges)
        if not e["edges_valid"] or not all(a[1] == b[0] for a, b in zip(groups, groups[1:])):
            return {"mismatch": True, "groups": groups, "note": "edges are not a chain from 0 to the number of chunks"}
    return None


def _cli(case):
    from click.testing import CliRunner
    from cooler.cli import cli
    d = os.path.join(gen.tmpdir(), f"c{os.getpid()}")
    os.makedirs(d, exist_ok=True)
    n = case["n"]
    cs, txt, out = (os.path.join(d, x) for x in ("cs.txt", "in.coo", "o.cool"))
    with open(cs, "w") as f:
        f.write(f"c0\t{n * 10}\n")
    with open(txt, "w") as f:
        for i, j, v in case["records"]:
            f.write(f"{i}\t{j}\t{v}\n")
    before = set(os.listdir(d))
    args = ["load", "-f", "coo", "--chunksize", str(case["chunksize"]), "--mergebuf", str(case["mergebuf"]),
            "--max-merge", str(case["max_merge"]), f"{cs}:10", txt, out]
    r = CliRunner().invoke(cli, args)
    if r.exit_code != 0:
        return {"mismatch": True, "args": args, "exit": r.exit_code, "exception": repr(r.exception)[:300]}
    # chunks as the reader forms them: consecutive groups of `chunksize` lines (each sanitised+sorted by the pipeline)
    recs = case["records"]
    chunks = [recs[a:a + case["chunksize"]] for a in range(0, len(recs), case["chunksize"])]
    m = drv().ask("C06.unordered", chunks=[sorted(c) for c in chunks], edges=None)
    t = cooler.Cooler(out).pixels()[:]
    got = [[int(a), int(b), int(v)] for a, b, v in zip(t["bin1_id"], t["bin2_id"], t["count"])]
    import gc
    gc.collect()
    leftover = sorted(set(os.listdir(d)) - before - {"o.cool"})
    os.unlink(out)
    if got != m["spec"]:
        return {"mismatch": True, "args": args, "impl": got, "model": m["spec"]}
    if leftover:
        return {"mismatch": True, "args": args, "what": "temporary files left", "leftover": leftover}
    return None


CHECKS = {"unordered": _unordered, "edges": _edges, "cli": _cli}


def nontrivial(name, case):
    if name == "unordered":
        for ch in case["chunkings"]:
            keys = [set((p[0], p[1]) for p in c) for c in ch]
            if len(ch) >= 3 or any(keys[a] & keys[b] for a in range(len(keys)) for b in range(a)):
                return True
        return False
    return True


def distribution(name, case):
    if name == "unordered":
        yield f"unordered.count={'float64 (count/4)' if case.get('quarter') else 'int32'}"
        yield f"unordered.in_chunk_repeats={bool(case.get('in_chunk_repeats'))}"
        for ch in case["chunkings"]:
            yield f"unordered.nchunks={len(ch)}"


def set_partitions(items, maxparts):
    if not items:
        yield []
        return
    first, rest = items[0], items[1:]
    for part in set_partitions(rest, maxparts):
        for k in range(len(part)):
            yield part[:k] + [[first] + part[k]] + part[k + 1:]
        if len(part) < maxparts:
            yield [[first]] + part


def _split_valid(part):
    """a chunk must not repeat a key (dupcheck): sum repeats inside one chunk"""
    out = []
    for c in part:
        acc = {}
        for i, j, v in c:
            acc[(i, j)] = acc.get((i, j), 0) + v
        out.append([[i, j, v] for (i, j), v in acc.items()])
    return out


def cases(tier, rng):
    thorough = tier == "thorough"
    # corpus: D7 (2-3 chunks, max_merge below) and D6 (empty epoch)
    yield "unordered", {"n": 3, "symm": True, "chunkings": [[[[0, 1, 1]], [[0, 1, 2], [1, 1, 1]]], [[[0, 1, 1]], [[1, 1, 2]], [[0, 1, 5]]]],
                        "params": [[2, 1, False], [1, 2, False], [5, 200, False]]}
    yield "unordered", {"n": 4, "symm": True, "chunkings": [[[[2, 3, 1], [0, 1, 2], [1, 1, 3], [0, 2, 4]], [[3, 3, 5], [0, 1, 6], [1, 2, 7]]]],
                        "params": [[2, 200, True, True], [1, 1, True, True]]}
    # a pixel repeated INSIDE one chunk with the duplicate check off (seeded change C06-7): summed like any other repeat
    yield "unordered", {"n": 3, "symm": True, "in_chunk_repeats": True,
                        "chunkings": [[[[0, 1, 1], [0, 1, 2], [1, 2, 4]]], [[[0, 1, 1], [0, 1, 2]], [[2, 2, 5]]]],
                        "params": [[1000, 200, False, True], [1, 200, False, True], [2, 1, True, True]]}
    # float count column through the two-pass merge (seeded change C06-4): four chunks, max_merge 2
    yield "unordered", {"n": 3, "symm": True, "quarter": True,
                        "chunkings": [[[[0, 1, 1], [1, 2, 3]], [[0, 1, 5]], [[1, 2, 2], [2, 2, 7]], [[0, 1, 1]]]],
                        "params": [[2, 2, False], [1, 200, False], [3, 1, False]]}
    for k in range(2, 22 if thorough else 14):
        for mm in ((1, 2, 3, 4) if thorough else (1, 2, 4)):
            if mm < k:
                yield "edges", {"k": k, "max_merge": mm}
    for _ in range(80 if thorough else 16):
        n = rng.randint(1, 5)
        symm = rng.random() < 0.7
        cells = [(i, j) for i in range(n) for j in range(n) if i <= j or not symm]
        nrec = rng.randint(1, 8)
        recs = [[*rng.choice(cells), rng.randint(1, 9)] for _ in range(nrec)]
        chunkings = []
        if nrec <= 5:
            parts = list(set_partitions(recs, 3))
            rng.shuffle(parts)
            parts = parts[: (12 if thorough else 5)]
        else:
            parts = []
            for _ in range(6 if thorough else 3):
                k = rng.randint(1, 4)
                p = [[] for _ in range(k)]
                for r in recs:
                    p[rng.randrange(k)].append(r)
                parts.append(p)
        keep = _ % 4 == 3        # every fourth case: repeats INSIDE a chunk are kept (only legal with the duplicate check off)
        for p in parts:
            # (a chunk cannot hold more records than the matrix has cells: the temporary store's pixel table is created with
            # that maximal size — more repeats than cells fail with an HDF5 RuntimeError, see DESIGN 12.6)
            p = [list(c) for c in p] if (keep and all(len(c) <= len(cells) for c in p)) else _split_valid([list(c) for c in p])
            if rng.random() < 0.3:
                p.insert(rng.randint(0, len(p)), [])
            rng.shuffle(p)
            for c in p:
                rng.shuffle(c)
            chunkings.append(p)
        params = [[1, 200, False], [2, 1, False], [3, 2, True], [nrec, "k", False], [nrec + 1, "k+1", True], [2, 3, False],
                  [2, 200, True, True], [1, 2, True, True]]   # last two: ensure_sorted with every validation check off
        if keep:
            nock = [[2, 200, True, True], [1, 2, True, True], [3, 1, False, True], [nrec + 1, 200, False, True], [1, 1, False, True]]
            yield "unordered", {"n": n, "symm": symm, "chunkings": chunkings, "params": nock if thorough else rng.sample(nock, 3),
                                "layout": gen.split_layout(rng, n), "quarter": rng.random() < 0.3, "in_chunk_repeats": True}
            continue
        yield "unordered", {"n": n, "symm": symm, "chunkings": chunkings,
                            "params": params if thorough else rng.sample(params[:6], 3) + [rng.choice(params[6:])],
                            "layout": gen.split_layout(rng, n), "quarter": rng.random() < 0.4}
    for _ in range(20 if thorough else 5):
        n = rng.randint(2, 5)
        cells = [(i, j) for i in range(n) for j in range(i, n)]
        recs = [[*rng.choice(cells), rng.randint(1, 9)] for _ in range(rng.randint(1, 12))]
        # keep lines of one reader chunk free of repeated keys
        cs = rng.randint(1, 5)
        ok = all(len({(r[0], r[1]) for r in recs[a:a + cs]}) == len(recs[a:a + cs]) for a in range(0, len(recs), cs))
        if ok:
            yield "cli", {"n": n, "records": recs, "chunksize": cs, "mergebuf": rng.randint(1, 9), "max_merge": rng.choice([1, 2, 200])}


def shrink(name, case):
    if name == "unordered":
        for k in range(len(case["chunkings"])):
            c = dict(case); c["chunkings"] = [case["chunkings"][k]]
            yield c
        for k in range(len(case["params"])):
            c = dict(case); c["params"] = [case["params"][k]]
            yield c


def escalate(name, case, rng):
    return None
