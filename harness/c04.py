"""C04 — genomic ranges map to exactly the bins that cover them."""
from __future__ import annotations

import itertools
import os

import numpy as np

from harness import gen
from harness.common import ImplRaised, drv, guarded, impl, run_check
from harness.c20 import all_segmentations

PID = "C04"
THEOREMS = ["ssRight_iff", "ssLeft_iff", "extent_var_correct", "one_le_ssRight", "extent_fixed_correct",
            "extent_fixed_sound", "extent_empty_var", "extent_empty_fixed", "shortest_cover", "gsFetch_correct",
            "gsFetch_empty", "parseRegion_bounds", "parseRegion_defaults", "lift_run", "extent_table_correct",
            "extent_table_empty", "regionToExtent_ok", "gsFetchAbs_ok", "regionToExtentIdx_eq",
            "pixelsFetch_correct", "pixelsFetch_ok", "offset_ok", "mem_binsSlice", "binsSlice_labels",
            "regionOfTriple_ok", "regionOfTriple_reject", "regionOfTriple_unknown", "coolerExtent_ok",
            # the one-pass forms the driver evaluates ARE the L0 verdicts (tables with 10^5 bins)
            "idsWhere_eq", "overlappingF_eq", "containingF_eq", "selOkF_eq", "runOkF_eq", "pxSelOkF_eq", "offsetOkF_eq",
            # a sorted column searched one chunk at a time: when a search may stop after / skip a chunk
            "ssLeft_append", "ssRight_append", "ssLeft_stop", "ssRight_stop", "ssLeft_skip", "ssRight_skip"]
LEVELS = {"table": "top", "bigtable": "top", "rewrite": "top", "extent_unit": "unit", "float_division": "unit", "bounds": "unit"}
DESCRIBE = {
    "table": "one created cooler per bin table; for EVERY (chrom,s,e), 0<=s<=e<=L, as tuple / 'c:s-e' string / open-ended "
             "(c,s,None) / bare name: Cooler.extent, Cooler.offset, bins().fetch (labels+rows), pixels().fetch (rows+labels), "
             "GenomeSegmentation.fetch, bedslice judged by the Lean L0 verdicts `runOk`/`selOk`/`offsetOk`/`pxSelOk` "
             "(exactly the `overlapping` bins; empty range: at most the one bin containing the position; never another "
             "chromosome); matrix(balance=False).fetch(r1,r2) == Lean `specDense` on the two reported extents. (The driver "
             "evaluates the verdicts through their one-pass forms `runOkF` … — theorems `runOkF_eq`, `selOkF_eq`, `offsetOkF_eq`, "
             "`pxSelOkF_eq`: equal on every input)",
    "bigtable": "the `table` check on tables with MANY bins — one chromosome of more than 2^15, 2^16, 2^17 bins (variable width; fixed "
                "width with a short last bin; one width but a longer last bin) beside small ones, in all three file layouts: ranges "
                "whose starts and ends lie exactly ON the bin boundaries at in-chromosome indexes 2^k - 1, 2^k, 2^k + 1 (k = 12..17), "
                "10^4 / 10^5 +- 1, the chromosome ends and random indexes, one base pair before / after them, empty ranges on them "
                "and a few ranges from / to the chromosome ends, in every region form (also 'chr:1,234-5,678'), through extent / "
                "offset / bins().fetch / pixels().fetch / GenomeSegmentation.fetch / bedslice / matrix().fetch(r1, r2); same verdicts",
    "rewrite": "a collection is written OVER an earlier one at the same URI (file root; nested group; nested group beside a "
               "different root collection): create_cooler(mode='a'), merge_coolers(mode='a') of two coolers, coarsen_cooler of a "
               "finer cooler (it appends by default) — fixed width b over variable, variable over fixed, b over b', fewer bins "
               "over more, other chromosome sets — and after EVERY step every access path of `table` is queried: every answer must "
               "be that of the table stored NOW (for merge / coarsen outputs: the bin and pixel tables as read back whole)",
    "extent_unit": "cooler.core.region_to_extent / region_to_offset on dict-backed stored columns (chrom_offset, bins/start) with "
                   "the bin size get_binsize infers (and None on uniform tables) == Lean `regionToExtentIdx`, every region",
    "float_division": "region_to_extent fixed-width arithmetic (float64 floor/ceil of start/binsize) == Lean `extentFixed` "
                      "(Nat division) for bin sizes up to 2^20 and coordinates up to 2^40",
    "bounds": "util.parse_region / Cooler.extent / bins().fetch on in- and out-of-bounds triples (s,e in -1..L+1, None; unknown "
              "chromosome): accepted or refused exactly as Lean `regionOfTriple` (= parseRegion_bounds), accepted values equal",
}
RULE = ("bigtable: quick 3 variable-width (2^17, 2^16, 2^15 + a few bins) + 2 fixed-width + 1 longer-last-bin tables (thorough 14 + 6 + "
        "3), ~200-300 regions each (see bigtable), every 6th region through every access path and form, the others through "
        "Cooler.extent + one bin-frame fetcher; the theorems (L1 = L0) are re-evaluated on every 3rd region, every observation is "
        "judged by L0. rewrite: EVERY ordered pair (first, second) of 8 small tables (fixed 4 / 4 with short last bins / 2 / 3, "
        "variable x2, longer last bin, one-bin chromosomes), the second written by create_cooler(mode='a') at the root (every other "
        "pair also in one nested place) and, every other pair each, by merge / coarsen in one place (thorough: all pairs x 3 ways x 3 places), plus 12 "
        "(120) seeded chains of 3-4 random tables with the way of writing drawn per step; per step every range between two bin "
        "edges, an off-edge variant of each, empty ranges on and next to every edge (a fifth of them on the first, fresh, collection). "
        "tables for the file-based `table` check: quick = EVERY valid segmentation of <=2 chromosomes of length <=5, every "
        "one-chromosome table of length 6 and a seeded 7% of the two-chromosome tables with a length-6 chromosome; thorough = "
        "EVERY one of length <=6 plus every chromosome of length 7 (8) alone and paired in both orders with every partner of length "
        "<=5 (<=3); `extent_unit` covers EVERY segmentation of <=2 chromosomes of length <=6 (quick) / <=8 (thorough); plus the "
        "D1-regression corpus, uniform two-chromosome tables of lengths 7..10 x widths 2..5, seeded random 3-4 chromosome tables "
        "(uniform, variable, longer last bin, one-bin chromosomes) large-coordinate uniform tables (bin size up to 2^20, file "
        "coordinates < 2^31; unit level up to 2^40) and fixed-width tables with few but huge bins (bin size 10^7..10^9, chromosome "
        "length within one bin of 2^31 - 1). Every table is stored in one of three file layouts (alone at the root; in a nested "
        "group of a file without a root collection; in a group of a file that also holds a DIFFERENT collection at the root) and "
        "read both from an h5py handle and by URI. Inside a table EVERY in-bounds (chrom,s,e) goes through Cooler.extent (tuple, "
        "and open-ended tuple when e = L) and GenomeSegmentation.fetch / bedslice (large tables: bin edges +-1 and a seeded sample "
        "instead of every region); the string forms, Cooler.offset and the DataFrame-returning fetches run on every region of `full` "
        "tables (one chromosome, or both lengths <=3) and on every `stride`-th region (2 for lengths <=4, 12 for 5, else 24; the "
        "bare chromosome name always) of the others; non-trivial = some chromosome with >=2 bins; distinct by canonical JSON")
EXHAUSTIVE = {"quick": True, "thorough": True}
TRUSTED = ["numpy searchsorted(left/right) on a sorted array == countP (<) / countP (<=) (`ssLeft`/`ssRight`); h5py dataset "
           "slicing; pandas groupby().get_group / iloc keep row labels",
           "float64 `start / binsize` idealised as Nat division (exact below 2^52; sampled up to 2^40)",
           "chrom_offset / bin1_offset as stored are the counting indexes (`chromOffsets`, `csrIndex`): that is property C02",
           "the stored bin-size attribute is get_binsize(bins) at creation (C20 `cooler_binsize`); C20.getBinsize_truthful "
           "licenses the fixed-width path"]
ASSUMPTIONS = ["bin table is a valid segmentation (chromosome-sorted, each chromosome tiles [0,L) with non-empty bins)",
               "0 <= start <= end <= chromosome length; coordinates < 2^31 in files (cooler stores int32 coordinates)"]
CHUNK = 4


def worker_init():
    global cooler, util, h5py, pd, region_to_extent, region_to_offset
    import cooler  # noqa
    import h5py  # noqa
    import pandas as pd  # noqa
    from cooler import util  # noqa
    from cooler.core import region_to_extent, region_to_offset  # noqa


# ---------------------------------------------------------------------------------------------
# helpers (marshalling only)
# ---------------------------------------------------------------------------------------------

def nchroms(bins):
    return max(b[0] for b in bins) + 1


def chrom_lens(bins):
    L = {}
    for c, s, e in bins:
        L[c] = e
    return [L[c] for c in range(nchroms(bins))]


BIG = 5000  # tables with more bins than this: compact case form, sampled regions, trimmed re-evaluation of the theorems


def expand_big(spec):
    """compact description of a table with MANY bins -> [[chrom, start, end], …]; `spec` = one `[nbins, pattern, last]` per
    chromosome: bin widths are `pattern` repeated (cut to nbins), the last bin's width is `last` unless None"""
    bins = []
    for c, (n, pattern, last) in enumerate(spec):
        w = np.tile(np.array(pattern, dtype=np.int64), n // len(pattern) + 1)[:n]
        if last is not None:
            w[-1] = last
        e = np.cumsum(w)
        bins += [[c, a, b] for a, b in zip((e - w).tolist(), e.tolist())]
    return bins


def case_bins(case):
    return case["bins"] if "bins" in case else expand_big(case["big"])


def all_regions(bins):
    out = []
    for c, L in enumerate(chrom_lens(bins)):
        for s in range(L + 1):
            for e in range(s, L + 1):
                out.append([c, s, e])
    return out


def default_pixels(bins):
    """a few stored pixels (upper triangle, sorted): the diagonal of the first and last bin of every chromosome, an
    off-diagonal neighbour for even rows, a pixel reaching the last bin of the table; some rows stay empty"""
    n = len(bins)
    cells = set()
    for k, b in enumerate(bins):
        first = k == 0 or bins[k - 1][0] != b[0]
        last = k == n - 1 or bins[k + 1][0] != b[0]
        if first or last:
            cells.add((k, k))
        if k % 2 == 0 and k + 1 < n:
            cells.add((k, k + 1))
        if k % 3 == 1:
            cells.add((k, n - 1))
    cells.add((0, n - 1))
    return [[i, j, 1 + i * (n + 1) + 3 * j] for i, j in sorted(cells)]


def default_pairs(nregions, k):
    if nregions == 0:
        return []
    step = max(1, nregions // k)
    return [[i, (i * 7 + 3) % nregions] for i in range(0, nregions, step)]


def _ids(frame):
    idx = frame.index
    if idx.dtype.kind in "iu":
        return idx.tolist()
    return [int(x) for x in idx]


def _spans(frame):
    a, b = frame["start"].values, frame["end"].values
    if a.dtype.kind in "iu" and b.dtype.kind in "iu":
        return [list(t) for t in zip(a.tolist(), b.tolist())]
    return [[int(x), int(y)] for x, y in zip(a.tolist(), b.tolist())]


def _rows(frame, names):
    cid = {n: i for i, n in enumerate(names)}
    return [[cid[c], s, e] if c in cid else [names.index(c), s, e]
            for c, (s, e) in zip(frame["chrom"].astype(str).tolist(), _spans(frame))]


def _forms(name, s, e, L):
    f = [("tuple", (name, s, e)), ("ucsc", f"{name}:{s}-{e}")]
    if e >= 1000:
        f.append(("ucsc-commas", f"{name}:{s:,}-{e:,}"))   # 'chr5:10,100,000-30,000,000' as in parse_region_string's docstring
    if e == L:
        f.append(("open", (name, s, None)))
        f.append(("ucsc-open", f"{name}:{s}-"))
    if s == 0 and e == L:
        f.append(("bare", name))
        f.append(("none", (name, None, None)))
    return f


# ---------------------------------------------------------------------------------------------
# top: one table, every region, every access path
# ---------------------------------------------------------------------------------------------

LAYOUTS = ("root", "sub", "sub+root")


def _write_layout(path, bins, pixels, layout):
    """store the collection under test and return its group path.
    root: alone at `/`;  sub: in the nested group `/a/res` of a file with no collection at the root;
    sub+root: in the group `/coarse` of a file that ALSO holds a different collection (other bin table, other pixel
    index) at the root — the multi-collection layouts of .mcool / .scool files"""
    if layout == "root":
        gen.write_cooler(path, bins, pixels, symm=True)
        return "/"
    if layout == "sub":
        with h5py.File(path, "w") as f:
            f.create_group("other")
        gen.write_cooler(path + "::/a/res", bins, pixels, symm=True, mode="a")
        return "/a/res"
    assert layout == "sub+root", layout
    n = len(bins) + 3
    other = [[i, j, 2 + i + j] for i in range(n) for j in (i, i + 1) if j < n]  # row offsets 0,2,4,… : unlike ours
    gen.write_cooler(path, gen.layout_bins([n], width=7), other, symm=True)
    gen.write_cooler(path + "::/coarse", bins, pixels, symm=True, mode="a")
    return "/coarse"


def _table(case):
    bins, pixels = case_bins(case), case["pixels"]
    path = os.path.join(gen.tmpdir(), f"c04-{os.getpid()}.cool")
    try:
        group = _write_layout(path, bins, pixels, case.get("layout", "root"))
        return _query(path, group, bins, pixels, case)
    finally:
        if os.path.exists(path):
            os.unlink(path)


def _run_or_ids(ids):
    """a long list of consecutive ids is handed to the model as the run it is (`runOk` = `selOk` of `runIds`)"""
    if len(ids) > 2000 and ids == list(range(ids[0], ids[-1] + 1)):
        return dict(k="ext", lo=ids[0], hi=ids[-1] + 1)
    return dict(k="ids", ids=ids)


def _query(path, group, bins, pixels, case):
    """every access path of the collection stored NOW at `path::group`, judged by Lean against the table `bins` / `pixels`"""
    stride, salt = case.get("stride", 1), case.get("salt", 0)
    nch = nchroms(bins)
    names = [gen.chromname(c) for c in range(nch)]
    regions = case.get("regions") or all_regions(bins)
    big = len(bins) > BIG
    # big tables: L1 == L0 (the theorems, re-evaluated) on every third region; EVERY observation below is judged by L0
    asked = regions[::3] if big else regions
    T = drv().ask("C04.table", bins=bins, nchroms=nch, regions=asked, brief=big)
    assert T["valid"], "generator produced an invalid segmentation"
    lens = T["lens"]
    for r, a in zip(asked, T["regions"]):
        assert a["ok"], f"L1 != L0 at {r}: theorems regionToExtent_ok / gsFetchAbs_ok / offset_ok / regionToExtentIdx_eq contradicted"
    h5 = None
    cur = None
    try:
        h5 = h5py.File(path, "r")
        clr = cooler.Cooler(h5[group])                                    # opened from an h5py handle
        clr_uri = cooler.Cooler(path if group == "/" else f"{path}::{group}")  # opened by path / URI
        df = gen.bins_df(bins, plain=True)      # the labels of the rows these two fetchers return are read as bin ids
        cs = clr.chromsizes
        gseg = util.GenomeSegmentation(cs, df)
        grouped = df.groupby("chrom", observed=True)
        sel_bins, sel_px = clr.bins(), clr.pixels()
        uri_bins, uri_px = clr_uri.bins(), clr_uri.pixels()
        obs, meta = [], []
        extents = {}
        nq = 0

        def rec(kind, c, s, e, form, api, shown, **kw):
            if kind == "ids":
                kw = _run_or_ids(kw["ids"])
                kind = kw.pop("k")
                if kind == "ext":
                    shown = {"ids": f"the {len(shown)} consecutive ids", "first": kw["lo"], "stop": kw["hi"]}
            obs.append(dict(k=kind, c=c, s=s, e=e, **kw))
            meta.append({"region": [c, s, e], "form": form, "api": api, "impl": shown})

        problems = []  # relational inconsistencies / raises: reported after the L0 verdicts on what was observed
        try:
            for idx, (c, s, e) in enumerate(regions):
                name, L = names[c], lens[c]
                whole = s == 0 and e == L
                picked = (idx + salt) % stride == 0
                forms = _forms(name, s, e, L) if (picked or whole) else [f for f in _forms(name, s, e, L) if f[0] in ("tuple", "open")]
                for form, reg in forms:
                    # every access path for the stride-selected regions and for the bare chromosome name; the other
                    # forms / regions go through Cooler.extent (+ the two bin-frame fetchers for the tuple form)
                    heavy = picked or form == "bare"
                    cur = {"region": [c, s, e], "form": form, "given_as": repr(reg)}
                    lo, hi = impl(clr.extent, reg)
                    lo, hi = int(lo), int(hi)
                    nq += 1
                    rec("ext", c, s, e, form, "Cooler.extent", [lo, hi], lo=lo, hi=hi)
                    if form == "tuple":
                        extents[idx] = (lo, hi)
                    if heavy or (form == "tuple" and e == s + 1):
                        o = int(impl(clr.offset, reg))
                        nq += 1
                        rec("off", c, s, e, form, "Cooler.offset", o, o=o)
                    if form == "tuple" or heavy:
                        # the two bin-frame fetchers: both on the selected regions, alternating on the others
                        frames = []
                        if heavy or stride == 1 or idx % 2 == 0:
                            g = impl(gseg.fetch, reg)
                            nq += 1
                            rec("ids", c, s, e, form, "GenomeSegmentation.fetch", _ids(g), ids=_ids(g))
                            frames.append((g, "GenomeSegmentation.fetch"))
                        if heavy or stride == 1 or idx % 2 == 1:
                            g2 = impl(util.bedslice, grouped, cs, reg)
                            nq += 1
                            rec("ids", c, s, e, form, "bedslice", _ids(g2), ids=_ids(g2))
                            frames.append((g2, "bedslice"))
                        for fr, api in frames:
                            if _spans(fr) != [bins[k][1:] for k in _ids(fr)] or (heavy and _rows(fr, names) != [bins[k] for k in _ids(fr)]):
                                problems.append({"mismatch": True, **cur, "api": api, "impl_rows": _rows(fr, names), "labels": _ids(fr),
                                        "note": "returned rows are not the bin-table rows their labels name"})
                    if not heavy:
                        continue
                    if form in ("ucsc", "ucsc-commas"):
                        lo2, hi2 = impl(clr_uri.extent, reg)
                        nq += 1
                        rec("ext", c, s, e, form, "Cooler(path).extent", [int(lo2), int(hi2)], lo=int(lo2), hi=int(hi2))
                    by_uri = form in ("ucsc", "ucsc-open", "ucsc-commas")
                    fb = impl((uri_bins if by_uri else sel_bins).fetch, reg)
                    nq += 1
                    rec("ids", c, s, e, form, "Cooler(uri).bins().fetch" if by_uri else "bins().fetch", _ids(fb), ids=_ids(fb))
                    if _rows(fb, names) != [bins[k] for k in _ids(fb) if 0 <= k < len(bins)]:
                        problems.append({"mismatch": True, **cur, "api": "bins().fetch", "impl_rows": _rows(fb, names), "labels": _ids(fb),
                                "extent": [lo, hi], "note": "returned rows are not the bin-table rows their labels name"})
                    fp = impl((uri_px if by_uri else sel_px).fetch, reg)
                    nq += 1
                    rows = [[int(a), int(b), int(v)] for a, b, v in zip(fp["bin1_id"], fp["bin2_id"], fp["count"])]
                    rec("px", c, s, e, form, "Cooler(uri).pixels().fetch" if by_uri else "pixels().fetch", rows, rows=rows)
                    lab = _ids(fp)
                    if len(lab) != len(rows) or any(not (0 <= k < len(pixels)) or pixels[k] != r for k, r in zip(lab, rows)):
                        problems.append({"mismatch": True, **cur, "api": "pixels().fetch", "impl_rows": rows, "labels": lab,
                                "note": "carried index is not the record's position in the pixel table"})
            # two-region matrix fetches == the index-slice query on the two extents
            pairs = case.get("pairs") or []
            boxes, got = [], []
            mat = clr.matrix(balance=False)
            for i1, i2 in pairs:
                (c1, s1, e1), (c2, s2, e2) = regions[i1], regions[i2]
                cur = {"region": regions[i1], "region2": regions[i2], "form": "tuple", "api": "matrix().fetch"}
                r1, r2 = (names[c1], s1, e1), (names[c2], s2, e2)
                if e2 == lens[c2]:  # an end at the chromosome end is also given open-ended / as the bare name
                    r2 = names[c2] if s2 == 0 else (names[c2], s2, None)
                    cur["given_as"] = repr((r1, r2))
                (a0, a1), (b0, b1) = extents[i1], extents[i2]
                if (a1 - a0) * (b1 - b0) > 400:
                    continue  # keep the dense oracle small on large tables
                m = impl(lambda: np.asarray(mat.fetch(r1, r2)))
                nq += 1
                if m.shape != (max(a1 - a0, 0), max(b1 - b0, 0)):
                    problems.append({"mismatch": True, **cur, "impl_shape": list(m.shape), "extents": [[a0, a1], [b0, b1]],
                            "note": "shape is not (extent1 length, extent2 length)"})
                boxes.append([a0, max(a0, a1), b0, max(b0, b1)])
                got.append(m.tolist())
                if i1 == i2 or (s1, e1, c1) == (s2, e2, c2):
                    m1 = impl(lambda: np.asarray(mat.fetch(r1)))
                    nq += 1
                    if m1.tolist() != m.tolist():
                        problems.append({"mismatch": True, **cur, "note": "fetch(r) differs from fetch(r, r)"})
        except ImplRaised as ex:
            problems.append({"mismatch": True, **(cur or {}), "impl_raised": ex.cls, "message": ex.msg, "where": ex.where,
                             "note": "the implementation raised on an in-bounds region"})
        verdicts = drv().ask("C04.judge", bins=bins, pixels=pixels, obs=obs)
        for ok, m in zip(verdicts, meta):
            if not ok:
                ex = drv().ask("C04.explain", bins=bins, pixels=pixels, region=m["region"])
                note = ("rows are not exactly the stored pixels whose first bin overlaps the range" if m["api"].endswith("pixels().fetch") else
                        "offset is not the first bin overlapping the range" if m["api"] == "Cooler.offset" else
                        "selection is not exactly the bins of that chromosome overlapping the range")
                return {"mismatch": True, **m, "spec": ex,
                        "note": note + " (empty range: at most the one bin containing the position)"}
        if problems:
            return problems[0]
        if boxes:
            want = drv().ask("C04.matrix", pixels=pixels, symm=True, boxes=boxes)
            for (i1, i2), bx, g, w in zip(pairs, boxes, got, want):
                w = w if (bx[1] > bx[0]) else []
                if g != w and not (np.asarray(g).size == 0 and all(len(r) == 0 for r in w)):
                    return {"mismatch": True, "region": regions[i1], "region2": regions[i2], "api": "matrix().fetch",
                            "form": "tuple", "box": bx, "impl": g, "model": w,
                            "note": "two-region fetch differs from the index-slice query on the two extents"}
        return {"stats": {"regions": len(regions), "queries": nq,
                          "fixed_path" if T["binsize"] is not None else "variable_path": 1}}
    finally:
        if h5 is not None:
            h5.close()


# ---------------------------------------------------------------------------------------------
# top: the collection at one URI is written OVER an earlier one; every answer is that of the table stored NOW
# ---------------------------------------------------------------------------------------------

WHERES = ("root", "sub", "sub+root")


def edge_regions(bins):
    """per chromosome: every range between two bin edges, one off-edge variant of each (an end moved one base pair in or
    out, cycling), the whole chromosome, and an empty range on every edge and next to it"""
    out = []
    for c, L in enumerate(chrom_lens(bins)):
        E = [0] + [b[2] for b in bins if b[0] == c]
        k = 0
        for i, a in enumerate(E):
            for b in E[i + 1:]:
                out.append([c, a, b])
                da, db = ((1, 0), (0, -1), (1, 1), (-1, -1), (0, 1), (-1, 0))[k % 6]
                k += 1
                a2, b2 = a + da, b + db
                if 0 <= a2 <= b2 <= L and [c, a2, b2] not in out:
                    out.append([c, a2, b2])
        for p_ in sorted({q for x in E for q in (x - 1, x, x + 1) if 0 <= q <= L}):
            out.append([c, p_, p_])
    return out


def _stored_table(uri, names):
    """the bin table and the pixel table as they are stored now (whole-table reads, no range query involved)"""
    clr = cooler.Cooler(uri)
    b = clr.bins()[:]
    bins = [[names.index(str(c)), int(x), int(y)] for c, x, y in zip(b["chrom"], b["start"], b["end"])]
    p = clr.pixels()[:]
    pixels = [[int(i), int(j), int(v)] for i, j, v in zip(p["bin1_id"], p["bin2_id"], p["count"])]
    return bins, pixels


def _rewrite(case):
    """steps[0] creates a collection at a URI (file root / nested group / nested group beside a different root collection);
    every later step writes ANOTHER collection to the same URI — create_cooler(mode='a'), merge_coolers(mode='a') of two
    coolers, coarsen_cooler (appends by default) of a finer cooler — and after every step every access path is queried"""
    d = gen.tmpdir()
    path = os.path.join(d, f"c04w-{os.getpid()}.cool")
    srcs = [os.path.join(d, f"c04w-{os.getpid()}-src{i}.cool") for i in range(2)]
    where = case["where"]
    group = {"root": "/", "sub": "/a/res", "sub+root": "/coarse"}[where]
    uri = path if group == "/" else f"{path}::{group}"
    nq = 0
    trail = []
    k = 0
    try:
        for k, step in enumerate(case["steps"]):
            bins, pixels, via = step["bins"], step.get("pixels"), step.get("via", "create")
            if pixels is None:
                pixels = default_pixels(bins)
            names = [gen.chromname(c) for c in range(nchroms(bins))]
            if k == 0:
                assert via == "create"
                _write_layout(path, bins, pixels, where)
                trail.append(f"create_cooler at {where}: {len(bins)} bins")
            elif via == "create":
                impl(gen.write_cooler, uri, bins, pixels, symm=True, mode="a")
                trail.append(f"create_cooler(mode='a') at the same uri: {len(bins)} bins")
            elif via == "merge":
                gen.write_cooler(srcs[0], bins, pixels[::2], symm=True)
                gen.write_cooler(srcs[1], bins, pixels[:1] + pixels[1::2], symm=True)  # pixel 0 in both: summed
                impl(cooler.merge_coolers, uri, srcs, mergebuf=step.get("mergebuf", 1000), mode="a")
                trail.append(f"merge_coolers(mode='a') of two {len(bins)}-bin coolers onto the same uri")
                bins, pixels = impl(_stored_table, uri, names)
            elif via == "coarsen":
                gen.write_cooler(srcs[0], bins, pixels, symm=True)
                impl(cooler.coarsen_cooler, srcs[0], uri, step.get("factor", 2), step.get("chunksize", 1000))
                trail.append(f"coarsen_cooler(factor={step.get('factor', 2)}) of a {len(bins)}-bin cooler onto the same uri")
                bins, pixels = impl(_stored_table, uri, names)
                if not drv().ask("C04.table", bins=bins, nchroms=nchroms(bins), regions=[])["valid"]:
                    return {"stats": {"produced_table_not_a_segmentation": 1}}  # what coarsening stores is C08's business
            else:
                raise AssertionError(via)
            q = dict(case)
            q["salt"] = case.get("salt", 0) + k
            q["regions"] = edge_regions(bins)
            if k == 0 and len(case["steps"]) > 1:
                # a fresh collection is the `table` check's subject: here a fifth of the ranges, so that whatever the library
                # remembers about this URI has been filled in before the collection is replaced
                q["regions"] = q["regions"][(q["salt"] % 5)::5]
            q["pairs"] = default_pairs(len(q["regions"]), case.get("npairs", 6))
            r = _query(path, group, bins, pixels, q)
            if r and r.get("mismatch"):
                return {**r, "after_step": k, "history": trail, "table_stored_now": bins}
            nq += r["stats"]["queries"]
        return {"stats": {"queries": nq, "steps": len(case["steps"])}}
    except ImplRaised as ex:
        return {"mismatch": True, "impl_raised": ex.cls, "message": ex.msg, "where": ex.where, "at_step": k, "history": trail,
                "note": "writing a collection over an earlier one raised"}
    finally:
        for f in [path] + srcs:
            if os.path.exists(f):
                os.unlink(f)


# ---------------------------------------------------------------------------------------------
# units
# ---------------------------------------------------------------------------------------------

class _StandInMiss(KeyError):
    """the dict-backed stand-in for the HDF5 group does not carry what the (refactored) code asked for"""


class _Cols(dict):
    def __missing__(self, k):
        raise _StandInMiss(k)


def _stored_columns(bins, dtype=np.int32):
    nch = nchroms(bins)
    offs = [sum(1 for b in bins if b[0] < c) for c in range(nch + 1)]  # marshalling of indexes/chrom_offset
    lens = chrom_lens(bins)
    d = _Cols({
        "indexes": _Cols({"chrom_offset": np.array(offs, dtype=np.int64),
                          "bin1_offset": np.zeros(len(bins) + 1, dtype=np.int64)}),
        "bins": _Cols({"chrom": np.array([b[0] for b in bins], dtype=np.int32),
                       "start": np.array([b[1] for b in bins], dtype=dtype),
                       "end": np.array([b[2] for b in bins], dtype=dtype)}),
        "chroms": _Cols({"length": np.array(lens, dtype=dtype)}),
    })
    return d, offs


def _skip_if_standin(ex):
    """a refactor that reads other datasets than the stand-in offers is not a disagreement: the unit is then
    not checkable this way (the file-based top check still is)"""
    if ex.cls == "_StandInMiss":
        return {"stats": {"standin_insufficient": 1}}
    raise ex


def _extent_unit(case):
    bins = case["bins"]
    nch = nchroms(bins)
    names = [gen.chromname(c) for c in range(nch)]
    ids = {n: c for c, n in enumerate(names)}
    big = max(b[2] for b in bins) >= 2 ** 31
    d, offs = _stored_columns(bins, np.int64 if big else np.int32)
    regions = case.get("regions") or all_regions(bins)
    lens = chrom_lens(bins)
    bs = impl(util.get_binsize, gen.bins_df(bins))
    bs = None if bs is None else int(bs)
    nq = 0
    try:
        for b in ([bs] if bs is None else [bs, None]):
            model = drv().ask("C04.unit", chrom_offset=offs, starts=[x[1] for x in bins], binsize=b, queries=regions)
            for (c, s, e), m in zip(regions, model):
                reg = (names[c], s, e)
                lo, hi = impl(region_to_extent, d, ids, reg, b)
                o = impl(region_to_offset, d, ids, reg, b)
                nq += 1
                if [int(lo), int(hi)] != m or int(o) != m[0]:
                    return {"mismatch": True, "region": [c, s, e], "binsize": b, "impl_extent": [int(lo), int(hi)],
                            "impl_offset": int(o), "model": m}
                if e == lens[c] and e < 2 ** 31:
                    # an omitted end reaches the unit as the int32 scalar read from chroms/length
                    lo, hi = impl(region_to_extent, d, ids, (names[c], s, np.int32(e)), b)
                    nq += 1
                    if [int(lo), int(hi)] != m:
                        return {"mismatch": True, "region": [c, s, e], "end_given_as": "numpy.int32 (chromosome length)",
                                "binsize": b, "impl_extent": [int(lo), int(hi)], "model": m}
    except ImplRaised as ex:
        return _skip_if_standin(ex)
    return {"stats": {"queries": nq}}


def _float_division(case):
    b, off = case["b"], case["off"]
    d = _Cols({"indexes": _Cols({"chrom_offset": np.array([off, off + 2 ** 62], dtype=np.int64)})})
    model = drv().ask("C04.fixed", off=off, b=b, queries=case["queries"])
    try:
        for (s, e), m in zip(case["queries"], model):
            lo, hi = impl(region_to_extent, d, {"c0": 0}, ("c0", s, e), b)
            if [int(lo), int(hi)] != m:
                return {"mismatch": True, "b": b, "off": off, "region": [s, e], "impl": [int(lo), int(hi)], "model": m}
    except ImplRaised as ex:
        return _skip_if_standin(ex)
    return None


def _bounds(case):
    bins = case["bins"]
    nch = nchroms(bins)
    names = [gen.chromname(c) for c in range(nch)]
    lens = chrom_lens(bins)
    model = drv().ask("C04.parse", lens=lens, queries=case["queries"])
    path = os.path.join(gen.tmpdir(), f"c04b-{os.getpid()}.cool")
    gen.write_cooler(path, bins, case["pixels"], symm=True)
    try:
        clr = cooler.Cooler(path)
        cs = clr.chromsizes
        for (c, s, e), m in zip(case["queries"], model):
            name = "zz" if c is None else names[c]
            forms = [("tuple", (name, s, e))]
            if s is not None and s >= 0 and (e is None or e >= 0):
                forms.append(("ucsc", f"{name}:{s}-{'' if e is None else e}"))
            if s is None and e is None:
                forms.append(("bare", name))
            for form, reg in forms:
                r = guarded(util.parse_region, reg, cs)
                if r[0] == "ok":
                    nm = str(r[1][0])
                    got = {"ok": [names.index(nm) if nm in names else nm, int(r[1][1]), int(r[1][2])]}
                else:
                    got = {"err": r[1]}
                if ("ok" in got) != ("ok" in m) or ("ok" in got and got["ok"] != m["ok"]):
                    return {"mismatch": True, "query": [c, s, e], "form": form, "api": "util.parse_region", "impl": got, "model": m}
                for api, f in (("Cooler.extent", clr.extent), ("bins().fetch", clr.bins().fetch),
                               ("matrix().fetch", clr.matrix(balance=False, sparse=True).fetch)):
                    r2 = guarded(f, reg)
                    if (r2[0] == "ok") != ("ok" in m):
                        return {"mismatch": True, "query": [c, s, e], "form": form, "api": api,
                                "impl": r2[0] if r2[0] == "ok" else {"err": r2[1]}, "model": m,
                                "note": "accepted/refused differently from parse_region's bounds rule"}
        return None
    finally:
        os.unlink(path)


CHECKS = {"table": _table, "bigtable": _table, "rewrite": _rewrite, "extent_unit": _extent_unit, "float_division": _float_division, "bounds": _bounds}


def nontrivial(name, case):
    from collections import Counter
    if "bins" in case:
        return max(Counter(b[0] for b in case["bins"]).values()) >= 2
    if "big" in case:
        return max(n for n, _, _ in case["big"]) >= 2
    if "steps" in case:
        return len(case["steps"]) >= 2 and any(max(Counter(b[0] for b in st["bins"]).values()) >= 2 for st in case["steps"])
    return True


def distribution(name, case):
    if name == "rewrite":
        yield f"rewrite.where={case['where']}"
        yield "rewrite.via=" + ">".join(st.get("via", "create") for st in case["steps"])
    if name == "bigtable":
        n = max(x[0] for x in case["big"])
        yield f"tables.bins-in-a-chromosome>2^{n.bit_length() - 1}"
        yield f"tables.kind={case.get('kind')}"
        yield f"tables.layout={case.get('layout', 'root')}"
    elif name == "table":
        yield f"tables.nchroms={nchroms(case['bins'])}"
        yield f"tables.{'full' if case.get('stride', 1) == 1 and not case.get('regions') else 'strided-or-sampled'}"
        yield f"tables.kind={case.get('kind', 'exhaustive')}"
        yield f"tables.layout={case.get('layout', 'root')}"


# ---------------------------------------------------------------------------------------------
# cases
# ---------------------------------------------------------------------------------------------

def table_case(bins, stride=1, salt=0, kind="exhaustive", regions=None, npairs=8, layout=None):
    if layout is None:  # half of the tables at the root, a quarter each in the two multi-collection layouts
        layout = ("root", "sub+root", "root", "sub")[(salt + salt // 4) % 4]
    c = {"bins": bins, "pixels": default_pixels(bins), "stride": stride, "salt": salt, "kind": kind, "layout": layout}
    if regions is not None:
        c["regions"] = regions
    nreg = len(regions) if regions is not None else sum((L + 1) * (L + 2) // 2 for L in chrom_lens(bins))
    c["pairs"] = default_pairs(nreg, npairs)
    return c


def sampled_regions(rng, bins, per_chrom):
    """large tables: every bin edge +-1 near a few bins, whole chromosome, empty ranges on and off edges, random ranges"""
    out = []
    lens = chrom_lens(bins)
    for c, L in enumerate(lens):
        g = [b for b in bins if b[0] == c]
        edges = sorted({0, L} | {b[1] for b in rng.sample(g, min(len(g), 6))} | {g[-1][1], g[0][2]})
        pts = sorted({p for x in edges for p in (x - 1, x, x + 1) if 0 <= p <= L})
        cand = [[c, 0, L]]
        for _ in range(per_chrom):
            a, b = rng.choice(pts), rng.choice(pts)
            cand.append([c, min(a, b), max(a, b)])
        for _ in range(per_chrom // 3):
            a, b = rng.randint(0, L), rng.randint(0, L)
            cand.append([c, min(a, b), max(a, b)])
        for p in rng.sample(pts, min(len(pts), 6)):
            cand.append([c, p, p])
        seen = set()
        for r in cand:
            if tuple(r) not in seen:
                seen.add(tuple(r))
                out.append(r)
    return out


def big_marks(n, rng):
    """in-chromosome bin indexes at which a count of bins crosses a power of two (2^12 … 2^17: id dtypes, read buffers and
    HDF5 chunks are sized in those) or a power of ten, both ends of the chromosome, and a few random ones"""
    m = {1, 2, n - 2, n - 1}
    for k in range(12, 18):
        m |= {2 ** k - 1, 2 ** k, 2 ** k + 1}
    for dec in (10 ** 4, 10 ** 5):
        m |= {dec - 1, dec, dec + 1}
    m |= {rng.randrange(1, n) for _ in range(3)} if n > 1 else set()
    return sorted(x for x in m if 1 <= x <= n - 1)


def big_table_case(rng, spec, kind, salt, layout):
    """regions of a table with MANY bins: starts and ends exactly ON the bin boundaries at the marked indexes, one base pair
    before and after them, empty ranges on them, a few ranges from / to the chromosome ends; a small pixel set around the
    same bins; two-region fetches among the narrow ranges"""
    bins = expand_big(spec)
    first = [0]
    for n, _, _ in spec:
        first.append(first[-1] + n)
    regions, narrow, rows = [], [], set()
    for c, (n, _, _) in enumerate(spec):
        st = [b[1] for b in bins[first[c]:first[c + 1]]]
        L = bins[first[c + 1] - 1][2]
        edge = st + [L]                              # edge[m] = start of bin m = end of bin m-1
        regions.append([c, 0, L])
        for m in big_marks(n, rng):
            B = edge[m]
            rows |= {first[c] + m - 1, first[c] + m}
            cand = [(edge[m - 1], B), (edge[max(m - 3, 0)], B), (edge[m - 1], B + 1), (B - 1, B + 1),
                    (B, edge[m + 1]), (B, edge[min(m + 2, n)]), (B + 1, edge[m + 1]), (B, B),
                    (rng.randint(edge[max(m - 4, 0)], B), rng.randint(B, edge[min(m + 3, n)]))]
            if m + 1 in (2 ** 15, 2 ** 16, 2 ** 17):   # a few long ranges ending / starting exactly on such a boundary
                cand += [(0, B), (B, L)][(m >> 15) % 2:][:1] + [(edge[m - 5000], B)]
            for a, z in cand:
                if 0 <= a <= z <= L and [c, a, z] not in regions[-40:]:
                    if z - a <= 64:
                        narrow.append(len(regions))
                    regions.append([c, a, z])
    nb = len(bins)
    cells = {(0, nb - 1)}
    for i in sorted(rows):
        cells |= {(i, i), (i, min(i + 1, nb - 1))}
        if i % 3 == 0:
            cells.add((i, min(i + 2, nb - 1)))
        if i % 7 == 0:
            cells.add((i, nb - 1))
    pixels = [[i, j, 1 + (i * 31 + j * 7) % 97] for i, j in sorted(cells)]
    pairs = [[i, i] for i in narrow[::9]] + [[narrow[(7 * i) % len(narrow)], narrow[(11 * i + 3) % len(narrow)]] for i in range(10)]
    return {"big": spec, "pixels": pixels, "regions": regions, "pairs": pairs, "stride": 6, "salt": salt, "kind": kind,
            "layout": layout}


def big_specs(rng, thorough):
    """tables with more than 2^15, 2^16, 2^17 bins in ONE chromosome: variable width, fixed width (short last bin), every bin
    of one width but a LONGER last one (variable by get_binsize), the long chromosome first / between / after small ones"""
    def pat():
        return [rng.randint(1, 15) for _ in range(rng.randint(5, 9))]
    small = lambda: [rng.randint(1, 6), pat(), None]  # noqa: E731
    out = []
    for k in range(14 if thorough else 3):
        n = (2 ** 17, 2 ** 16, 2 ** 15)[k % 3] + rng.choice([2, 3, 5, 40, 1000])
        out.append(("variable", [[small()], [], [small(), small()]][k % 3] + [[n, pat(), None]] + [[small()], [small()], []][k % 3]))
    for k in range(6 if thorough else 2):
        n = (2 ** 17, 2 ** 16, 2 ** 15)[k % 3] + rng.choice([2, 3, 5, 40])
        w = rng.choice([1, 2, 10, 1000, 4096, 10000]) if k else rng.choice([10, 1000])
        out.append(("fixed", [[n, [w], rng.randint(1, w)], [rng.randint(1, 5), [w], rng.randint(1, w)]][::1 if k % 2 else -1]))
    for k in range(3 if thorough else 1):
        n = (2 ** 16, 2 ** 17, 2 ** 15)[k % 3] + rng.choice([2, 3, 40])
        w = rng.choice([2, 10, 1000])
        out.append(("longer-last-bin", [[n, [w], w + rng.randint(1, w)], [3, [w], w]]))
    return out


def bounds_queries(bins):
    q = []
    for c, L in enumerate(chrom_lens(bins)):
        vals = [None, -1, 0, 1, L - 1, L, L + 1]
        for s in vals:
            for e in vals:
                q.append([c, s, e])
    q += [[None, None, None], [None, 0, 1], [None, 0, None]]
    return q


CORPUS = [
    # tables on which the pre-D1 get_binsize was untruthful (longer last bin / longer one-bin chromosome)
    [[0, 0, 10], [0, 10, 25]],
    [[0, 0, 10], [0, 10, 25], [1, 0, 10]],
    [[0, 0, 10], [0, 10, 20], [0, 20, 30], [1, 0, 16]],
    [[0, 0, 7], [0, 7, 30], [1, 0, 7]],
    [[0, 0, 2], [0, 2, 4], [0, 4, 7], [1, 0, 2], [1, 2, 3]],
    # shorter / equal last bins, one-bin chromosomes
    [[0, 0, 3], [0, 3, 6], [0, 6, 7], [1, 0, 2], [2, 0, 3], [2, 3, 6]],
    [[0, 0, 1], [1, 0, 1]],
]


# tables written over one another at one URI: fixed widths b / b', shorter last bins, variable, longer last bin, one-bin
# chromosomes, more / fewer bins and chromosomes
REWRITE_POOL = [
    gen.uniform_bins([12, 8], 4),                         # fixed 4
    gen.uniform_bins([10, 7, 3], 4),                      # fixed 4, short last bins, a one-bin chromosome
    gen.chrom_bins(0, [4, 1, 2, 3]) + gen.chrom_bins(1, [2, 2, 5]) + gen.chrom_bins(2, [3]),    # variable
    gen.uniform_bins([9, 5], 2),                          # fixed 2, more bins
    gen.chrom_bins(0, [2, 2, 5]) + gen.chrom_bins(1, [2, 2, 2]),                                # longer last bin: variable
    gen.chrom_bins(0, [6]) + gen.chrom_bins(1, [3]) + gen.chrom_bins(2, [11]),                  # one-bin chromosomes only
    gen.uniform_bins([9, 8], 3),                          # fixed 3
    gen.chrom_bins(0, [1, 3, 1, 1, 4, 2]),                # variable, one chromosome
]


def rewrite_cases(rng, thorough):
    """EVERY ordered pair (first table, table written over it) of the pool, the second written by create_cooler(mode='a') at
    the file root (every other pair also in one of the two nested places: nested group / nested group beside another root
    collection), and — every other pair each — by merge_coolers(mode='a') / coarsen_cooler in one place (thorough: every pair, every way, all three
    places); then seeded chains of 3-4 random tables, the way of writing drawn per step"""
    k = 0
    for i, first in enumerate(REWRITE_POOL):
        for j, second in enumerate(REWRITE_POOL):
            for via in ("create", "merge", "coarsen"):
                if thorough:
                    wheres = WHERES
                elif via == "create":
                    wheres = ("root", WHERES[1 + (i + j // 2) % 2]) if (i + j) % 2 else ("root",)
                elif (i + j) % 2 == (via == "merge"):
                    wheres = (WHERES[(i + j // 2) % 3],)
                else:
                    continue
                for where in wheres:
                    yield "rewrite", {"where": where, "stride": 4, "salt": k,
                                      "steps": [{"bins": first}, {"bins": second, "via": via}]}
                    k += 1
    for _ in range(120 if thorough else 12):
        steps = []
        for t in range(rng.randint(3, 4)):
            style = rng.choice(["uniform", "variable", "any"])
            if style == "uniform":
                b = rng.choice([2, 3, 5, 10])
                bins = gen.uniform_bins([rng.randint(1, 4 * b) for _ in range(rng.randint(1, 3))], b)
            else:
                bins = gen.random_segmentation(rng, rng.randint(1, 3), 12)
            st = {"bins": bins}
            if t:
                st["via"] = rng.choice(["create", "create", "merge", "coarsen"])
                if st["via"] == "coarsen":
                    st["factor"] = rng.choice([2, 3])
            steps.append(st)
        yield "rewrite", {"where": rng.choice(WHERES), "stride": 4, "salt": k, "steps": steps}
        k += 1


def _interleave(heavy, light, chunk):
    """the pool hands out `chunk` consecutive cases to one worker: one heavy case per chunk"""
    light = iter(light)
    for h in heavy:
        yield h
        for _ in range(chunk - 1):
            x = next(light, None)
            if x is not None:
                yield x
    yield from light


def cases(tier, rng):
    thorough = tier == "thorough"
    # the most expensive cases first (pool load balance): tables with MANY bins
    heavy = [("bigtable", big_table_case(rng, spec, kind, k, LAYOUTS[(k + k // 3) % 3]))
             for k, (kind, spec) in enumerate(big_specs(rng, thorough))]
    return _interleave(heavy, _cases(tier, rng), CHUNK)


def _cases(tier, rng):
    thorough = tier == "thorough"
    yield from rewrite_cases(rng, thorough)
    for bins in CORPUS:
        small = max(chrom_lens(bins)) <= 8
        for layout in (LAYOUTS if small else ("root",)):
            yield "table", table_case(bins, stride=1 if small else 8, kind="corpus", npairs=12, layout=layout)
        yield "extent_unit", {"bins": bins}
        yield "bounds", {"bins": bins, "pixels": default_pixels(bins), "queries": bounds_queries(bins)}
    # expensive seeded cases first (pool load balance)
    for k in range(60 if thorough else 14):
        b = rng.choice([2 ** 20, 2 ** 20 - 1, 10 ** 6 + 1, 999983, 2 ** 16, 1000, 4097])
        n = rng.randint(1, 2)
        nb_max = min(1200 if thorough else 500, (2 ** 31 - 1) // b)
        sizes = []
        for _ in range(n):
            nb = rng.randint(1, nb_max)
            sizes.append(min(2 ** 31 - 1, rng.choice([nb * b, nb * b - rng.randint(1, b - 1), (nb - 1) * b + 1])))
        bins = gen.uniform_bins(sizes, b)
        regs = sampled_regions(rng, bins, 30)
        yield "table", table_case(bins, stride=4, salt=k, kind="large-uniform", regions=regs, npairs=4)
    # few but huge bins: fixed-width tables whose chromosome length is within one bin width of 2^31 - 1 (the int32 limit of
    # the stored coordinate and length columns), so that `length + binsize` no longer fits the stored dtype
    widths = [10 ** 9, 2 ** 30, 10 ** 8, 3 * 10 ** 8 + 7, 10 ** 7, 123456789] + ([4 * 10 ** 6, 10 ** 6, 2 ** 28, 5 * 10 ** 8] if thorough else [])
    for k in range(2 * len(widths) if thorough else len(widths)):
        b = widths[k % len(widths)]
        L0 = rng.choice([2 ** 31 - 1, 2 ** 31 - 1000, 2147483000, 2 ** 31 - rng.randint(1, b - 1)])
        m = min(3, (2 ** 31 - 1) // b)  # every length stays a legal int32 chromosome length
        L1 = rng.choice([b * rng.randint(1, m), b * rng.randint(1, m) - rng.randint(1, b - 1), 2 ** 31 - rng.randint(1, b - 1), 1])
        sizes = [[L0], [L0, L1], [L1, L0]][k % 3]
        assert all(1 <= L <= 2 ** 31 - 1 for L in sizes)
        bins = gen.uniform_bins(sizes, b)
        regs = sampled_regions(rng, bins, 24 if len(bins) <= 600 else 8)
        yield "table", table_case(bins, stride=2 if len(bins) <= 600 else 4, salt=k, kind="huge-bins", regions=regs, npairs=6,
                                  layout=LAYOUTS[k % 3])
        yield "extent_unit", {"bins": bins, "regions": regs}
    for k in range(200 if thorough else 36):
        bins = gen.random_segmentation(rng, rng.randint(3, 4), 12 if k % 3 else 16)
        yield "table", table_case(bins, stride=8, salt=k, kind="random-3-4-chroms", npairs=8)
        yield "extent_unit", {"bins": bins}
        if k % 4 == 0:
            yield "bounds", {"bins": bins, "pixels": default_pixels(bins), "queries": bounds_queries(bins)}
    # exhaustive enumerations (no randomness consumed)
    # quick: the file-based check takes every table with lengths <= 5, every one-chromosome table of length 6 and a
    # seeded 7% of the two-chromosome tables containing a length-6 chromosome; thorough takes them all
    k = 0
    for n in (1, 2):
        for bins in all_segmentations(6, n):
            lens = chrom_lens(bins)
            yield "extent_unit", {"bins": bins}
            k += 1
            if not (thorough or n == 1 or max(lens) <= 5 or rng.random() < 0.07):
                continue
            full = n == 1 or max(lens) <= 3
            stride = 1 if full else (2 if max(lens) <= 4 else (12 if max(lens) == 5 else 24))
            yield "table", table_case(bins, stride=stride, salt=k, npairs=10 if full else 5)
    # fixed-width family beyond the enumeration above: lengths 7..10 x partner lengths x widths (shorter / equal last bins)
    for L0 in (7, 8, 9, 10):
        for L1 in (1, 2, 3, 5, 7, 10):
            for b in (2, 3, 4, 5):
                for sizes in (([L0, L1], [L1, L0]) if thorough else ([L0, L1],)):
                    bins = gen.uniform_bins(sizes, b)
                    yield "table", table_case(bins, stride=12, salt=k, kind="uniform-family", npairs=4)
                    yield "extent_unit", {"bins": bins}
                    k += 1
    if thorough:
        # every chromosome of length 7 (8) alone and paired, in both orders, with every partner of length <= 5 (<= 3)
        for L, pmax in ((7, 5), (8, 3)):
            partners = [ws for P in range(1, pmax + 1) for ws in gen.compositions(P)]
            for wsL in gen.compositions(L):
                yield "table", table_case(gen.chrom_bins(0, wsL), stride=1, salt=k, npairs=10)
                k += 1
                for ws in partners:
                    for a, b in ((wsL, ws), (ws, wsL)):
                        bins = gen.chrom_bins(0, a) + gen.chrom_bins(1, b)
                        yield "table", table_case(bins, stride=24, salt=k, npairs=5)
                        k += 1
        for n in (1, 2):
            for bins in all_segmentations(8, n):
                if max(chrom_lens(bins)) >= 7:
                    yield "extent_unit", {"bins": bins}
    # unit: float-division idealisation, virtual tables (only chrom_offset is read on the fixed path)
    for _ in range(400 if thorough else 80):
        b = rng.choice([1, 2, 3, 7, 10, 1000, 4097, 10 ** 6 + 1, 2 ** 20, 2 ** 20 - 1, rng.randint(1, 2 ** 20)])
        off = rng.choice([0, 1, 12345, 2 ** 31])
        qs = []
        for _ in range(40):
            kk = rng.randint(0, 2 ** 40 // b)
            a = max(0, kk * b + rng.choice([-1, 0, 1, b // 2, b - 1]))
            z = rng.choice([a, a + 1, a + b, a + b - 1, (kk + rng.randint(0, 5)) * b, rng.randint(a, 2 ** 40)])
            qs.append([a, max(a, z)])
        yield "float_division", {"b": b, "off": off, "queries": qs}
    # unit: variable-width search with coordinates beyond int32 (dict-backed int64 starts)
    for _ in range(40 if thorough else 8):
        n = rng.randint(1, 3)
        bins = []
        for c in range(n):
            ws = [rng.choice([1, 2, 2 ** 20, 2 ** 33, rng.randint(1, 2 ** 38)]) for _ in range(rng.randint(1, 8))]
            bins += gen.chrom_bins(c, ws)
        yield "extent_unit", {"bins": bins, "regions": sampled_regions(rng, bins, 30)}
    for _ in range(30 if thorough else 6):
        bins = gen.random_segmentation(rng, rng.randint(1, 3), 9)
        yield "bounds", {"bins": bins, "pixels": default_pixels(bins), "queries": bounds_queries(bins)}


# ---------------------------------------------------------------------------------------------
# shrinking and failing-input search
# ---------------------------------------------------------------------------------------------

def _drop_chrom(bins, c):
    rest = [b for b in bins if b[0] != c]
    remap = {old: new for new, old in enumerate(sorted({b[0] for b in rest}))}
    return [[remap[b[0]], b[1], b[2]] for b in rest], remap


def shrink(name, case):
    if name in ("table", "bigtable"):
        r = run_check(_table, case)
        if r and "region" in r and (case.get("regions") != [r["region"]] and "region2" not in r):
            c = dict(case)
            c.update(regions=[r["region"]], stride=1, pairs=[])
            yield c
        bins = case.get("bins") or []   # (a big table keeps its compact form: only the regions / pixels shrink)
        chroms = sorted({b[0] for b in bins})
        keep = {x[0] for x in (case.get("regions") or [])}
        for ch in chroms:
            if len(chroms) > 1 and ch not in keep and case.get("regions"):
                nb, remap = _drop_chrom(bins, ch)
                c = table_case(nb, stride=1, kind=case.get("kind", "shrunk"),
                               regions=[[remap[x[0]], x[1], x[2]] for x in case["regions"]], npairs=1,
                               layout=case.get("layout", "root"))
                c["pairs"] = []
                yield c
        if case["pixels"]:
            c = dict(case)
            c.update(pixels=[], pairs=[])
            yield c
        if "big" in case and case.get("regions") and not case["pixels"] and not case.get("pairs"):
            # a table with many bins: chromosomes that hold no queried region go, one at a time
            used = {x[0] for x in case["regions"]}
            for ch in range(len(case["big"])):
                if ch not in used and len(case["big"]) > 1:
                    c = dict(case)
                    c["big"] = [sp for i, sp in enumerate(case["big"]) if i != ch]
                    c["regions"] = [[x[0] - (x[0] > ch), x[1], x[2]] for x in case["regions"]]
                    yield c
    elif name == "rewrite":
        steps = case["steps"]
        for i in range(len(steps) - 1, -1, -1):   # leave a step out (the first one left is then plainly created)
            if len(steps) > 1:
                rest = [dict(st) for j, st in enumerate(steps) if j != i]
                if rest[0].get("via", "create") != "create":
                    continue
                c = dict(case)
                c["steps"] = rest
                yield c
        if case["where"] != "root":
            c = dict(case)
            c["where"] = "root"
            yield c
    elif name in ("extent_unit", "bounds") and "bins" in case:
        bins = case["bins"]
        chroms = sorted({b[0] for b in bins})
        if len(chroms) > 1 and not case.get("regions") and name == "extent_unit":
            for ch in chroms:
                yield {"bins": _drop_chrom(bins, ch)[0]}
    elif name == "float_division":
        for q in case["queries"]:
            if len(case["queries"]) > 1:
                yield {"b": case["b"], "off": case["off"], "queries": [q]}


def _narrowed(c, r):
    """the failing table restricted to the failing region, if that alone still fails"""
    if r and "region" in r and "region2" not in r:
        c2 = dict(c)
        c2.update(regions=[r["region"]], stride=1, pairs=[])
        r2 = run_check(_table, c2)
        if r2:
            return {"check": "table", "case": c2, "result": r2}
    return {"check": "table", "case": c, "result": r}


def escalate(name, case, rng):
    """a unit correspondence stopped checking: enumerate every region end to end on the same table, then on
    uniform tables around the disagreeing bin size, then on every small two-chromosome table"""
    worker_init()
    cands = []
    if "bins" in case and max(b[2] for b in case["bins"]) < 2 ** 31 and len(case["bins"]) <= 64:
        bins = case["bins"]
        regs = case.get("regions")
        if regs is None and sum((L + 1) * (L + 2) // 2 for L in chrom_lens(bins)) > 4000:
            regs = sampled_regions(rng, bins, 40)
        cands.append(table_case(bins, stride=1, kind="escalation", regions=regs))
    if name == "float_division":
        b = case["b"]
        nb = min(40, max(2, (2 ** 31 - 1) // b))
        bins = gen.uniform_bins([min(2 ** 31 - 1, nb * b - (1 if b > 1 else 0))], b)
        cands.append(table_case(bins, stride=1, kind="escalation", regions=sampled_regions(rng, bins, 60)))
    for c in cands:
        r = run_check(_table, c)
        if r:
            return _narrowed(c, r)
    for bins in itertools.chain(CORPUS, all_segmentations(4, 2)):
        c = table_case(bins, stride=4, kind="escalation", npairs=2)
        r = run_check(_table, c)
        if r:
            return _narrowed(c, r)
    return None
