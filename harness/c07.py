"""C07 — merging coolers is the exact element-wise aggregate of the inputs."""
from __future__ import annotations

import itertools
import os

import numpy as np
import pandas as pd

from harness import gen, monitor
from harness.common import ImplRaised, drv, guarded, impl, run_check

PID = "C07"
THEOREMS = ["merger_eq_spec", "mergerFrom_spec", "merge_buffer_independent", "merge_comm", "merge_assoc", "merge_sum",
            "merge_pointwise", "merger_stream_sorted", "breakLoop_spec", "breakpoints_contract",
            "merger_agg_eq_spec", "mergerAggFrom_spec", "merge_agg_comm", "merge_agg_buffer_independent", "groupAgg_sum", "groupAgg_eq_of",
            # the refusal clause (Props/C07Compat.lean)
            "compat_accepts_iff", "compat_accepts_same", "compat_same_accepts", "merge_refuses", "fastpath_sound",
            "uniform_table_unique", "uniformChrom_unique", "sorted_ext", "rows_inj", "compat_ok_iff", "legacy_fastpath_unsound",
            "fixed_group_is_tiling", "merge_refuses_empty"]
LEVELS = {"merge": "top", "refuses": "top", "compat": "top", "limits": "top", "breakpoints": "unit", "agg": "top", "mixed_dtypes": "top", "cli_merge": "top"}
DESCRIBE = {
    "merge": "cooler.merge_coolers(out, inputs, mergebuf) for EVERY mergebuf 1..sum(nnz)+1 and every order of the inputs, plus a "
             "nested merge, vs Lean `mergeSpec` (= streaming `merger` for any valid partition, theorem merger_eq_spec); recorded "
             "sum vs `total`; output judged by the C02 raw monitor",
    "refuses": "inputs differing in bin table, resolution, chromosome set or storage mode must be refused with an error",
    "compat": "WHICH lists of inputs are merged and which are refused: lists of 2 and 3 coolers (differing input first / in the middle / last, "
              "identical inputs) over every valid segmentation of <=2 small chromosomes, fixed-width tables of different widths over equal "
              "chromosome sizes, tables equal but for the last bin, same lengths under other names, same names in another order, one-bin "
              "chromosomes, both storage modes; real cooler.merge_coolers (and `cooler merge` for a slice) merged/refused vs Lean "
              "`mergeCompat` (= `allSame`: same storage mode, names and bin table as the first input — theorem compat_accepts_iff; the "
              "bin-size shortcut is sound by fastpath_sound over C20.getBinsize_truthful); a merged output carries the inputs' bin table",
    "limits": "values near the limits of the value dtype: the stored value equals the exact aggregate or the call errs",
    "breakpoints": "contract `validBreakpoints` evaluated by Lean on the real merge_breakpoints(indexes, bufsize) output",
    "mixed_dtypes": "inputs whose count columns have DIFFERENT dtypes (int32/int64/float32/float64, values multiples of 1/4) in every order: "
                    "the stored values must be the exact per-pixel sums (Lean `mergeSpec` on the values scaled by 4), never truncated",
    "cli_merge": "`cooler merge` with one or several --field options (dtype=, agg=) in every order vs Lean `mergeSpec` / `mergeSpecAgg` per column",
    "agg": "merge_coolers(columns=[count, w], agg={w: max|min|sum|first|last}) for several merge buffers vs Lean `mergeSpecAgg` "
           "(= streaming `mergerAgg` for any valid partition and ANY aggregation function: theorem merger_agg_eq_spec)",
}
RULE = ("k = 1..3 (quick) / 1..4 (thorough) inputs over a common table of n<=5 bins (empty, disjoint supports, identical supports, rows "
        "with leading empties, random), symmetric and square; mergebuf exhaustive 1..sum(nnz)+1; all k! input orders; nested merges; "
        "non-trivial = >=2 inputs sharing at least one pixel; distinct by canonical JSON.  Check `compat` is EXHAUSTIVE over its small "
        "universe: every ordered pair (and triples with the odd one at each position) of valid segmentations with equal chromosome "
        "sizes (1 chromosome of length <=5, 2 chromosomes of total length <=5; thorough <=6 / <=7), every ordered pair of ALL valid "
        "segmentations of <=2 chromosomes of length <=3 (thorough <=4), every name variant and storage-mode mix of those; plus "
        "seeded larger tables")
# `compat` (and mergebuf in `merge`) enumerate exhaustively; the merge inputs themselves are sampled
EXHAUSTIVE = {"quick": True, "thorough": True}
TRUSTED = ["pandas concat/groupby(sort=True).aggregate and h5py dtype conversion are primitives",
           "merge partition (merge_breakpoints) is a free unit checked by contract"]
ASSUMPTIONS = ["integer value columns; aggregation functions are modelled as List Int -> Int applied to a pixel's values in input order"]
CHUNK = 1


def worker_init():
    global cooler
    import cooler  # noqa


def _read(path):
    c = cooler.Cooler(path)
    t = c.pixels()[:]
    return [[int(a), int(b), int(v)] for a, b, v in zip(t["bin1_id"], t["bin2_id"], t["count"])], c.info


def _merge(case):
    n, symm, inputs = case["n"], case["symm"], case["inputs"]
    d = gen.tmpdir()
    tag = os.getpid()
    bins = gen.layout_bins(case.get("layout") or [n])
    paths = []
    out = os.path.join(d, f"m-{tag}-out.cool")
    try:
        for k, px in enumerate(inputs):
            p = os.path.join(d, f"m-{tag}-{k}.cool")
            gen.write_cooler(p, bins, px, symm=symm)
            paths.append(p)
        tot = sum(len(px) for px in inputs)
        nq = 0
        for mb in (case.get("mergebufs") or range(1, tot + 2)):
            m = drv().ask("C07.merge", inputs=inputs, n=n, mergebuf=mb)
            assert m["l1_agrees"] and m["model_partition_valid"], "theorem merger_eq_spec / model partition contradicted"
            orders = list(itertools.permutations(range(len(inputs)))) if mb in (1, 2, tot + 1) else [tuple(range(len(inputs)))]
            for order in orders:
                impl(cooler.merge_coolers, out, [paths[k] for k in order], mergebuf=mb)
                nq += 1
                got, info = _read(out)
                if got != m["spec"]:
                    return {"mismatch": True, "mergebuf": mb, "order": list(order), "impl": got, "model": m["spec"]}
                if int(info["sum"]) != m["total"] or int(info["nnz"]) != len(m["spec"]):
                    return {"mismatch": True, "mergebuf": mb, "what": "sum/nnz attributes", "impl": [info["sum"], info["nnz"]],
                            "model": [m["total"], len(m["spec"])]}
                v = monitor.violations(out)
                if v:
                    return {"mismatch": True, "mergebuf": mb, "what": "schema (C02 monitor)", "violated": v}
        # associativity: merge(merge(a,b), c) == merge(a,b,c)
        if len(inputs) >= 3:
            ab = os.path.join(d, f"m-{tag}-ab.cool")
            paths.append(ab)
            impl(cooler.merge_coolers, ab, paths[:2], mergebuf=3)
            impl(cooler.merge_coolers, out, [ab] + paths[2:len(inputs)], mergebuf=2)
            got, _ = _read(out)
            m = drv().ask("C07.merge", inputs=inputs, n=n, mergebuf=2)
            if got != m["spec"]:
                return {"mismatch": True, "what": "nested merge", "impl": got, "model": m["spec"]}
        return {"stats": {"merges": nq}}
    finally:
        for p in paths + [out]:
            if os.path.exists(p):
                os.unlink(p)


def _refuses(case):
    d = gen.tmpdir()
    tag = os.getpid()
    a, b, out = (os.path.join(d, f"r-{tag}-{x}.cool") for x in "abo")
    try:
        gen.write_cooler(a, case["bins_a"], case["px_a"], symm=case["symm_a"])
        gen.write_cooler(b, case["bins_b"], case["px_b"], symm=case["symm_b"])
        r = guarded(cooler.merge_coolers, out, [a, b], mergebuf=5)
        if r[0] == "ok":
            return {"mismatch": True, "kind": case["kind"], "impl": "merged without error",
                    "note": "inputs that differ in bin table, resolution or storage mode must be refused"}
        return None
    finally:
        for p in (a, b, out):
            if os.path.exists(p):
                os.unlink(p)


def _limits(case):
    d = gen.tmpdir()
    tag = os.getpid()
    bins = gen.layout_bins([3])
    paths = []
    out = os.path.join(d, f"l-{tag}-out.cool")
    try:
        for k, v in enumerate(case["values"]):
            p = os.path.join(d, f"l-{tag}-{k}.cool")
            gen.write_cooler(p, bins, [[0, 1, v], [1, 1, 1]], dtype=case["dtype"], dtypes={"count": case["dtype"]})
            paths.append(p)
        r = guarded(cooler.merge_coolers, out, paths, mergebuf=4)
        exact = sum(case["values"])
        if r[0] == "ok":
            t = cooler.Cooler(out).pixels()[:]
            got = int(t["count"][0])
            if got != exact or int(cooler.Cooler(out).info["sum"]) != exact + len(paths):
                return {"mismatch": True, "stored": got, "exact": exact, "sum_attr": int(cooler.Cooler(out).info["sum"]),
                        "note": "a stored value is silently different from the exact aggregate"}
            return {"stats": {"fits": 1}}
        return {"stats": {"errs": 1}}
    finally:
        for p in paths + [out]:
            if os.path.exists(p):
                os.unlink(p)


def _breakpoints(case):
    from cooler._reduce import merge_breakpoints
    import warnings
    idx = [np.array(x) for x in case["indexes"]]
    for buf in case["bufsizes"]:
        with warnings.catch_warnings():
            warnings.simplefilter("ignore")
            part, cum = impl(merge_breakpoints, idx, buf)
        part = [int(x) for x in part]
        if any(x < 0 for x in part):
            return {"mismatch": True, "bufsize": buf, "impl_partition": part, "note": "negative row id in the partition"}
        m = drv().ask("C07.breakpoints", indexes=case["indexes"], bufsize=buf, impl_partition=part)
        if not m["impl_valid"]:
            return {"mismatch": True, "bufsize": buf, "impl_partition": part, "combined": m["combined"], "model_partition": m["model"],
                    "note": "partition is not a strictly increasing chain from 0 that reaches the end of the data"}
        if [int(x) for x in cum] != [m["combined"][p] for p in part]:
            return {"mismatch": True, "bufsize": buf, "impl_cum": [int(x) for x in cum], "note": "cum_nrecords != combined_index[partition]"}
    return None


def _agg_range(s):
    return s.max() - s.min()


def _agg_twice(s):
    return 2 * s.sum()


# aggregates given as callables (NOT the identity on a single value, like "count"): a pixel present in one input only must go
# through the aggregation too
AGG_PY = {"range": _agg_range, "twice": _agg_twice}


def _agg(case):
    """merge with a requested aggregation on an extra INTEGER value column `w` (count stays summed): both columns vs Lean"""
    d = gen.tmpdir()
    tag = os.getpid()
    n = case["n"]
    bins = gen.layout_bins([n])
    paths = []
    out = os.path.join(d, f"g-{tag}-out.cool")
    wval = lambda k, v: v * 3 - 7 * k + (k % 2) * 11          # distinct per input, may be negative
    try:
        for k, px in enumerate(case["inputs"]):
            p = os.path.join(d, f"g-{tag}-{k}.cool")
            gen.write_cooler(p, bins, px, extra={"w": np.array([wval(k, v) for _, _, v in px], dtype=np.int64)},
                             columns=["count", "w"], dtypes={"w": "int64"})
            paths.append(p)
        w_inputs = [[[i, j, wval(k, v)] for i, j, v in px] for k, px in enumerate(case["inputs"])]
        for mb in case["mergebufs"]:
            impl(cooler.merge_coolers, out, paths, mergebuf=mb, columns=["count", "w"], agg={"w": AGG_PY.get(case["agg"], case["agg"])})
            t = cooler.Cooler(out).pixels()[:]
            got_c = [[int(a), int(b), int(c)] for a, b, c in zip(t["bin1_id"], t["bin2_id"], t["count"])]
            got_w = [[int(a), int(b), int(w)] for a, b, w in zip(t["bin1_id"], t["bin2_id"], t["w"])]
            mc = drv().ask("C07.merge", inputs=case["inputs"], n=n, mergebuf=mb)
            mw = drv().ask("C07.merge_agg", inputs=w_inputs, n=n, mergebuf=mb, agg=case["agg"])
            assert mw["l1_agrees"], "theorem merger_agg_eq_spec contradicted"
            if got_c != mc["spec"]:
                return {"mismatch": True, "mergebuf": mb, "what": "count column (sum) under a custom agg on another column",
                        "impl": got_c, "model": mc["spec"]}
            if got_w != mw["spec"]:
                return {"mismatch": True, "mergebuf": mb, "what": f"column w, agg={case['agg']}", "impl": got_w, "model": mw["spec"]}
        return None
    finally:
        for p in paths + [out]:
            if os.path.exists(p):
                os.unlink(p)


def _mixed_dtypes(case):
    import itertools as it
    d = gen.tmpdir()
    tag = os.getpid()
    n = case["n"]
    bins = gen.layout_bins([n])
    paths = []
    out = os.path.join(d, f"x-{tag}-out.cool")
    try:
        # values are quarter units: integer inputs hold multiples of 4
        q_inputs = []
        for k, (px, dt) in enumerate(zip(case["inputs"], case["dtypes"])):
            p = os.path.join(d, f"x-{tag}-{k}.cool")
            isint = dt.startswith("int")
            q = [[i, j, (v * 4 if isint else v)] for i, j, v in px]
            q_inputs.append(q)
            df = gen.pixels_df([[i, j, 0] for i, j, _ in px])
            df["count"] = np.array([qq[2] / 4 for qq in q], dtype=dt)
            impl(cooler.create_cooler, p, gen.bins_df(bins), df, dtypes={"count": dt}, ordered=True)
            paths.append(p)
        # the `dtypes` argument in its equally valid spellings: omitted, None, an empty dict, a dict naming another column only —
        # in each of them the count column's dtype is the common type of the inputs
        spell = case.get("dtypes_arg", "omitted")
        kw = {"omitted": {}, "none": {"dtypes": None}, "empty": {"dtypes": {}}, "other": {"dtypes": {"nosuchcolumn": np.dtype("float32")}}}[spell]
        for order in it.permutations(range(len(paths))):
            impl(cooler.merge_coolers, out, [paths[k] for k in order], mergebuf=case["mergebuf"], **{k_: (dict(v_) if isinstance(v_, dict) else v_) for k_, v_ in kw.items()})
            t = cooler.Cooler(out).pixels()[:]
            got = [[int(a), int(b), float(c) * 4] for a, b, c in zip(t["bin1_id"], t["bin2_id"], t["count"])]
            m = drv().ask("C07.merge", inputs=[q_inputs[k] for k in order], n=n, mergebuf=case["mergebuf"])
            want = [[i, j, float(v)] for i, j, v in m["spec"]]
            if got != want:
                return {"mismatch": True, "order": list(order), "dtypes": [case["dtypes"][k] for k in order], "dtypes_argument": spell,
                        "stored_dtype": str(t["count"].dtype), "impl_quarters": got, "model_quarters": want,
                        "note": "a stored value differs from the exact aggregate (values are multiples of 1/4)"}
            if float(cooler.Cooler(out).info["sum"]) * 4 != float(m["total"]):
                return {"mismatch": True, "order": list(order), "what": "sum attribute", "impl": cooler.Cooler(out).info["sum"],
                        "model_quarters": m["total"]}
        return None
    finally:
        for p in paths + [out]:
            if os.path.exists(p):
                os.unlink(p)


def _cli_merge(case):
    from click.testing import CliRunner
    from cooler.cli import cli
    d = gen.tmpdir()
    tag = os.getpid()
    n = case["n"]
    bins = gen.layout_bins([n])
    paths = []
    out = os.path.join(d, f"y-{tag}-out.cool")
    wval = lambda k, v: v * 5 - 3 * k
    try:
        for k, px in enumerate(case["inputs"]):
            p = os.path.join(d, f"y-{tag}-{k}.cool")
            gen.write_cooler(p, bins, px, extra={"w": np.array([wval(k, v) for _, _, v in px], dtype=np.int64)},
                             columns=["count", "w"], dtypes={"w": "int64"})
            paths.append(p)
        w_inputs = [[[i, j, wval(k, v)] for i, j, v in px] for k, px in enumerate(case["inputs"])]
        args = ["merge", "-c", str(case["mergebuf"])]
        for f in case["fields"]:
            args += ["--field", f]
        args += [out] + paths
        r = CliRunner().invoke(cli, args)
        if r.exit_code != 0:
            return {"mismatch": True, "argv": args[:-len(paths) - 1], "exit": r.exit_code, "exception": repr(r.exception)[:300]}
        t = cooler.Cooler(out).pixels()[:]
        for f in (case["fields"] or ["count"]):
            name = f.split(":")[0].split(",")[0]
            agg = "sum"
            if "agg=" in f:
                agg = f.split("agg=")[1].split(",")[0]
            src = case["inputs"] if name == "count" else w_inputs
            m = drv().ask("C07.merge_agg", inputs=src, n=n, mergebuf=case["mergebuf"], agg=agg)
            got = [[int(a), int(b), int(v)] for a, b, v in zip(t["bin1_id"], t["bin2_id"], t[name])]
            if got != m["spec"]:
                return {"mismatch": True, "argv": args[:-len(paths) - 1], "column": name, "agg": agg, "impl": got, "model": m["spec"]}
        return None
    finally:
        for p in paths + [out]:
            if os.path.exists(p):
                os.unlink(p)


# ---------------------------------------------------------------------------------------------
# the refusal clause: which lists of inputs are merged and which are refused
# ---------------------------------------------------------------------------------------------

# chromosome names by NAME id (the Lean model's `Name`); deliberately not in lexicographic order
_CNAMES = ["chr2", "chr10", "chr1", "scaf_7", "chrX", "chrM"]


def _table(widths_per_chrom):
    bins = []
    for c, ws in enumerate(widths_per_chrom):
        bins += gen.chrom_bins(c, ws)
    return bins


def _inp(bins, names=None, symm=True):
    n = max(b[0] for b in bins) + 1
    return {"symm": symm, "names": list(range(n)) if names is None else list(names), "bins": bins}


def _write_input(path, x, value):
    with gen.names_as([_CNAMES[k] for k in x["names"]]):
        gen.write_cooler(path, x["bins"], [[0, 0, value]], symm=x["symm"])


def _heads(path):
    """the two stored heads the merge looks at, as the real cooler reports them (diagnosis only)"""
    c = cooler.Cooler(path)
    bs = c.binsize
    return (None if bs is None else int(bs),
            [[_CNAMES.index(str(nm)) if str(nm) in _CNAMES else 10 ** 6, int(L)] for nm, L in c.chromsizes.items()])


def _compat(case):
    pool = case["pool"]
    d = gen.tmpdir()
    tag = os.getpid()
    paths = [os.path.join(d, f"c-{tag}-{k}.cool") for k in range(len(pool))]
    dups = {}
    out = os.path.join(d, f"c-{tag}-out.cool")
    stats = {}

    def count(k):
        stats[k] = stats.get(k, 0) + 1
    try:
        sent = []
        for k, x in enumerate(pool):
            _write_input(paths[k], x, 1 + k)
            bs, cs = impl(_heads, paths[k])
            sent.append(dict(x, stored_binsize=bs, stored_chromsizes=cs))
        for lst in case["lists"]:
            m = drv().ask("C07.compat", inputs=[sent[k] for k in lst])
            assert m["wf"], f"the generator produced an input outside the theorem's hypotheses: {[pool[k] for k in lst]}"
            assert (m["compat"] == "ok") == m["all_same"], "theorem compat_accepts_iff contradicted (mergeCompat vs allSame)"
            # an input listed twice is given as two files holding the same table
            use, seen = [], set()
            for k in lst:
                if k in seen:
                    if k not in dups:
                        dups[k] = os.path.join(d, f"c-{tag}-{k}-dup.cool")
                        _write_input(dups[k], pool[k], 100 + k)
                    use.append(dups[k])
                else:
                    seen.add(k)
                    use.append(paths[k])
            if os.path.exists(out):
                os.unlink(out)
            if case.get("cli"):
                from click.testing import CliRunner
                from cooler.cli import cli
                r = CliRunner().invoke(cli, ["merge", "-c", "5", out] + use)
                merged, err = r.exit_code == 0, (None if r.exit_code == 0 else repr(r.exception)[:200])
            else:
                r = guarded(cooler.merge_coolers, out, use, mergebuf=5)
                merged, err = r[0] == "ok", (None if r[0] == "ok" else r[1])
            want = m["compat"] == "ok"
            count("lists")
            count("merged" if merged else f"refused.{m['decided_by']}")
            if merged != want:
                return {"mismatch": True, "list": lst, "inputs": [pool[k] for k in lst], "via": "cooler merge (CLI)" if case.get("cli") else "merge_coolers",
                        "impl": "merged" if merged else f"refused ({err})", "model": "merge" if want else "refuse",
                        "model_decided_by": m["decided_by"], "model_binsizes": m["binsizes"],
                        "stored_heads_are_the_derived_ones": m["heads_match"], "model_on_the_stored_heads": m["compat_stored"],
                        "note": ("inputs that differ in bin table, resolution or storage mode were merged" if merged else
                                 "inputs with the same storage mode, chromosome names and bin table were not merged")}
            x0 = pool[lst[0]]
            if merged:
                c = impl(cooler.Cooler, out)
                t = impl(lambda: c.bins()[["chrom", "start", "end"]][:])
                rows = [[str(a), int(s_), int(e)] for a, s_, e in zip(t["chrom"].astype(str), t["start"], t["end"])]
                want_rows = [[_CNAMES[x0["names"][b[0]]], b[1], b[2]] for b in x0["bins"]]
                if rows != want_rows or (c.storage_mode == "symmetric-upper") != x0["symm"]:
                    return {"mismatch": True, "list": lst, "inputs": [pool[k] for k in lst], "what": "bin table / storage mode of the merged cooler",
                            "impl": [rows, c.storage_mode], "expected": [want_rows, "symmetric-upper" if x0["symm"] else "square"]}
            elif os.path.exists(out) and cooler.fileops.is_cooler(out):
                return {"mismatch": True, "list": lst, "inputs": [pool[k] for k in lst],
                        "note": "the merge raised but left a cooler at the output path (refused AND merged)"}
        return {"stats": stats}
    finally:
        for p in paths + list(dups.values()) + [out]:
            if os.path.exists(p):
                os.unlink(p)


def _prune(case, lists):
    used = sorted({k for l in lists for k in l})
    re_ = {k: i for i, k in enumerate(used)}
    c = dict(case)
    c["pool"] = [case["pool"][k] for k in used]
    c["lists"] = [[re_[k] for k in l] for l in lists]
    return c


def _chunks(family, pool, lists, **kw):
    size = max(120, 4 * len(pool))          # a pool member is written once per chunk
    for a in range(0, len(lists), size):
        yield "compat", dict(_prune({"family": family, "pool": pool}, lists[a:a + size]), **kw)


def _odd_one_out(i, j, every):
    t3 = [[j, i, i], [i, j, i], [i, i, j]]
    return t3 if every else [t3[(i + j) % 3]]


def _all_tables(maxlen, nchroms):
    per = [ws for L in range(1, maxlen + 1) for ws in gen.compositions(L)]
    return [_table(combo) for combo in itertools.product(per, repeat=nchroms)]


def _swap2(bins):
    """the two chromosomes of a 2-chromosome table in the other order"""
    return [[0, s, e] for c, s, e in bins if c == 1] + [[1, s, e] for c, s, e in bins if c == 0]


def _compat_cases(tier, rng):
    thorough = tier == "thorough"
    # (a) EQUAL chromosome sizes, every valid segmentation: all ordered pairs, the odd one out of three at every position.
    #     This is where the bin-size shortcut (which never looks at the tables) has to be sound.
    one, two, trip = (6, 7, 6) if thorough else (5, 5, 4)
    for n in (1, 2):
        for sizes in itertools.product(range(1, 7), repeat=n):
            if sum(sizes) > (one if n == 1 else two):
                continue
            pool = [_inp(_table(combo)) for combo in itertools.product(*[list(gen.compositions(L)) for L in sizes])]
            s = len(pool)
            lists = [[i, j] for i in range(s) for j in range(s)]
            for i in range(s):
                for j in range(s):
                    if i != j:
                        lists += _odd_one_out(i, j, sum(sizes) <= trip)
            lists += [[i, i, i] for i in range(min(s, 3))]
            yield from _chunks("same-chromsizes", pool, lists)
    # (b) ALL valid segmentations of <=2 chromosomes of length <=3 (4): every ordered pair (different chromosome counts,
    #     lengths, fixed first / variable first, one-bin chromosomes ...)
    m = 4 if thorough else 3
    pool = [_inp(t) for n in (1, 2) for t in _all_tables(m, n)]
    sizes_of = [sorted({b[0]: b[2] for b in x["bins"]}.items()) for x in pool]       # chromosome id -> end of its last bin
    lists = [[i, j] for i in range(len(pool)) for j in range(len(pool)) if sizes_of[i] != sizes_of[j]]      # equal sizes: see (a)
    yield from _chunks("all-pairs", pool, lists)
    # (c) names: same lengths under other names, same names in another order (ids re-assigned or not)
    for mm, full in ((2, True), (3, False)):
        for t in _all_tables(mm, 2):
            if not full and max(b[2] for b in t) < 3:
                continue
            v = [_inp(t, [0, 1]), _inp(t, [0, 2]), _inp(t, [2, 1]), _inp(t, [1, 0]), _inp(_swap2(t), [1, 0]), _inp(_swap2(t), [0, 1])]
            if full:
                lists = [[i, j] for i in range(6) for j in range(6)] + [l for j in range(1, 6) for l in _odd_one_out(0, j, True)]
            else:
                lists = [[0, j] for j in range(1, 6)] + [[1, 0], [4, 0]] + _odd_one_out(0, 1 + len(t) % 5, False)
            yield from _chunks("names", v, lists)
    pool = [_inp(t, [k]) for t in _all_tables(3, 1) for k in (0, 1)]
    yield from _chunks("names", pool, [[i, i ^ 1] for i in range(len(pool))] + [[0, 1, 0], [2, 2, 3]])
    # (d) storage modes
    for mm, full in ((2, True), (3, False)):
        for n in (1, 2):
            for t in _all_tables(mm, n):
                if not full and max(b[2] for b in t) < 3:
                    continue
                pool = [_inp(t, symm=True), _inp(t, symm=False)]
                lists = [[0, 1], [1, 0], [1, 1], [0, 0, 1], [0, 1, 0], [1, 0, 0], [1, 1, 0], [1, 0, 1], [0, 1, 1]] if full else \
                        [[0, 1], [1, 0], [[0, 0, 1], [0, 1, 0], [1, 0, 0], [1, 1, 1]][len(t) % 4]]
                yield from _chunks("modes", pool, lists)
    # (e) fixed-width tables of different widths over the same chromosome sizes (larger genomes)
    sizes_list = [[L] for L in (range(1, 15) if thorough else (6, 10))]
    for _ in range(10 if thorough else 3):
        sizes_list.append([rng.randint(1, 12) for _ in range(rng.randint(2, 3))])
    for sizes in sizes_list:
        seen, pool = set(), []
        for b in range(1, max(sizes) + 2):
            t = gen.uniform_bins(sizes, b)
            if str(t) not in seen:
                seen.add(str(t))
                pool.append(_inp(t))
        lists = [[i, j] for i in range(len(pool)) for j in range(len(pool))]
        yield from _chunks("widths", pool, lists)
    #     tables equal except for the LAST bin of the LAST chromosome; a moved inner boundary; a re-cut first chromosome
    for _ in range(150 if thorough else 30):
        t = gen.random_segmentation(rng, rng.randint(1, 3), 24)
        longer = [list(b) for b in t]
        longer[-1][2] += 1
        pool = [_inp(t), _inp(longer)]
        if t[-1][2] - t[-1][1] > 1:
            shorter = [list(b) for b in t]
            shorter[-1][2] -= 1
            pool.append(_inp(shorter))
        inner = [k for k in range(len(t) - 1) if t[k][0] == t[k + 1][0] and t[k][2] - t[k][1] > 1]
        if inner:
            k = rng.choice(inner)
            moved = [list(b) for b in t]
            moved[k][2] -= 1
            moved[k + 1][1] -= 1
            pool.append(_inp(moved))
        lists = [[0, 0]] + [l for j in range(1, len(pool)) for l in ([0, j], [j, 0])] + _odd_one_out(0, 1, True)
        yield from _chunks("last-bin", pool, lists)
    #     one bin per chromosome: no bin size is reported whatever the lengths, the tables themselves are compared
    pool = [_inp(_table([[L] for L in Ls])) for n in (1, 2, 3) for Ls in itertools.product((3, 7), repeat=n)]
    lists = [[i, j] for i in range(len(pool)) for j in range(len(pool))]
    yield from _chunks("one-bin", pool, lists)
    # (f) seeded larger genomes: a table, one altered copy, lists of 2..3 with the odd one anywhere
    for _ in range(300 if thorough else 50):
        n = rng.randint(1, 4)
        t = gen.random_segmentation(rng, n, 24)
        kind = rng.choice(["same", "width", "rename", "reorder", "mode", "drop", "recut"])
        base, other = _inp(t), None
        if kind == "same":
            other = _inp(t)
        elif kind == "width":
            sizes = [max(b[2] for b in t if b[0] == c) for c in range(n)]
            other = _inp(gen.uniform_bins(sizes, rng.randint(1, 13)))
        elif kind == "rename":
            names = list(range(n))
            names[rng.randrange(n)] = 5
            other = _inp(t, names)
        elif kind == "reorder" and n >= 2:
            names = list(range(n))
            a, b_ = rng.sample(range(n), 2)
            names[a], names[b_] = names[b_], names[a]
            other = _inp(t, names)
        elif kind == "mode":
            other = _inp(t, symm=False)
        elif kind == "drop" and n >= 2:
            other = _inp([b for b in t if b[0] < n - 1])
        else:
            c = rng.randrange(n)
            L = max(b[2] for b in t if b[0] == c)
            other = _inp([b for b in t if b[0] < c] + gen.chrom_bins(c, gen._randcomp(rng, L)) + [b for b in t if b[0] > c])
        k = rng.randint(2, 3)
        lst = [0] * k
        lst[rng.randrange(k)] = 1
        yield from _chunks("seeded", [base, other], [lst, [1, 0]])
    # (g) the command line: `cooler merge` on a slice of the above
    pool = [_inp(_table(combo)) for combo in itertools.product(list(gen.compositions(2)), list(gen.compositions(3)))]
    lists = [[i, j] for i in range(len(pool)) for j in range(len(pool))] + [l for j in range(1, len(pool)) for l in _odd_one_out(0, j, True)]
    yield from _chunks("cli", pool, lists if thorough else lists[::2], cli=True)
    t = _table([[2, 2, 1], [2, 1]])
    v = [_inp(t, [0, 1]), _inp(t, [0, 2]), _inp(t, [1, 0]), _inp(_swap2(t), [1, 0]), _inp(t, symm=False), _inp(gen.uniform_bins([5, 3], 3))]
    yield from _chunks("cli", v, [[i, j] for i in range(6) for j in range(6) if thorough or (i + j) % 2 == 0 or i == 0], cli=True)


CHECKS = {"mixed_dtypes": _mixed_dtypes, "cli_merge": _cli_merge, "merge": _merge, "refuses": _refuses, "limits": _limits, "breakpoints": _breakpoints, "agg": _agg,
          "compat": _compat}


def nontrivial(name, case):
    if name == "merge":
        keys = [set((p[0], p[1]) for p in px) for px in case["inputs"]]
        return len(keys) >= 2 and any(keys[a] & keys[b] for a in range(len(keys)) for b in range(a))
    if name == "compat":
        return any(len(set(l)) >= 2 for l in case["lists"])
    return True


def distribution(name, case):
    if name == "merge":
        yield f"merge.k={len(case['inputs'])}.{'symm' if case['symm'] else 'square'}"
    if name == "compat":
        yield f"compat.family={case.get('family')}"


def _inputs(rng, n, symm, k):
    style = rng.choice(["random", "identical", "disjoint", "leading-empty", "with-empty"])
    if style == "identical":
        base = gen.matrix_kinds(rng, n, symm, "random")
        return [[[i, j, v + t] for i, j, v in base] for t in range(k)]
    if style == "disjoint":
        allp = gen.matrix_kinds(rng, n, symm, "dense-random")
        return [allp[t::k] for t in range(k)]
    if style == "leading-empty":
        return [[p for p in gen.matrix_kinds(rng, n, symm, "dense-random") if p[0] >= min(2, n - 1)] for _ in range(k)]
    if style == "with-empty":
        return [[] if t == 0 else gen.matrix_kinds(rng, n, symm) for t in range(k)]
    return [gen.matrix_kinds(rng, n, symm) for _ in range(k)]


def cases(tier, rng):
    thorough = tier == "thorough"
    # corpus: D6 witnesses (empty epochs) and D8 (overflow)
    yield "merge", {"n": 4, "symm": True, "inputs": [[[2, 2, 1], [2, 3, 1]], [[2, 2, 5], [2, 3, 2], [3, 3, 1]]]}
    yield "merge", {"n": 3, "symm": True, "inputs": [[], []]}
    yield "limits", {"values": [2 ** 31 - 1, 2 ** 31 - 1], "dtype": "int32"}
    for _ in range(160 if thorough else 36):
        n = rng.randint(1, 5)
        symm = rng.random() < 0.7
        k = rng.randint(1, 4 if thorough else 3)
        ins = _inputs(rng, n, symm, k)
        c = {"n": n, "symm": symm, "inputs": ins, "layout": gen.split_layout(rng, n)}
        tot = sum(len(x) for x in ins)
        if tot > 14:
            c["mergebufs"] = sorted({1, 2, 3, rng.randint(1, tot), tot, tot + 1})
        yield "merge", c
    # incompatible pairs of every kind
    b10 = gen.layout_bins([3, 2], 10)
    kinds = [
        ("different width", b10, gen.layout_bins([3, 2], 5), True, True),
        ("different chromosome lengths", b10, gen.chrom_bins(0, [10, 10, 7]) + gen.chrom_bins(1, [10, 10]), True, True),
        ("different chromosome count", b10, gen.layout_bins([3], 10), True, True),
        ("variable vs variable", gen.chrom_bins(0, [3, 4, 5]), gen.chrom_bins(0, [4, 3, 5]), True, True),
        ("fixed vs variable same lengths", gen.chrom_bins(0, [4, 4, 4]), gen.chrom_bins(0, [4, 3, 5]), True, True),
        ("mixed storage modes", b10, b10, True, False),
        ("mixed storage modes 2", b10, b10, False, True),
    ]
    for kind, ba, bb, sa, sb in kinds:
        yield "refuses", {"kind": kind, "bins_a": ba, "bins_b": bb, "symm_a": sa, "symm_b": sb,
                          "px_a": [[0, 1, 1]], "px_b": [[0, 1, 2]]}
    for vals, dt in [([2 ** 31 - 1, 1], "int32"), ([2 ** 30, 2 ** 30], "int32"), ([2 ** 30, 2 ** 30 - 1], "int32"),
                     ([-2 ** 31, -1], "int32"), ([2 ** 31 - 1, 2 ** 31 - 1, 2], "int32"), ([2 ** 40, 2 ** 40], "int64"),
                     ([2 ** 31 - 2, 1], "int32"), ([100, 200], "int32")]:
        yield "limits", {"values": vals, "dtype": dt}
    for _ in range(120 if thorough else 30):
        n = rng.randint(1, 7)
        k = rng.randint(1, 3)
        idx = []
        for _ in range(k):
            steps = [rng.choice([0, 0, 1, 2, 5]) for _ in range(n)]
            idx.append([0] + list(itertools.accumulate(steps)))
        tot = sum(x[-1] for x in idx)
        yield "breakpoints", {"indexes": idx, "bufsizes": list(range(1, min(tot, 12) + 2)) + [10 ** 6]}
    for _ in range(24 if thorough else 6):
        n = rng.randint(2, 4)
        k = rng.randint(2, 3)
        ins = _inputs(rng, n, True, k)
        yield "mixed_dtypes", {"n": n, "inputs": ins, "mergebuf": rng.randint(1, 9),
                               "dtypes": [rng.choice(["int32", "int64", "float32", "float64"]) for _ in range(k)],
                               "dtypes_arg": ["omitted", "none", "empty", "other"][_ % 4]}
    yield "mixed_dtypes", {"n": 3, "inputs": [[[0, 1, 1], [1, 1, 2]], [[0, 1, 6], [1, 2, 9]]], "mergebuf": 5, "dtypes": ["float64", "float64"],
                           "dtypes_arg": "empty"}
    yield "mixed_dtypes", {"n": 3, "inputs": [[[0, 1, 1], [1, 1, 2]], [[0, 1, 6], [1, 2, 9]]], "mergebuf": 5, "dtypes": ["int64", "float64"]}
    field_sets = [[], ["count"], ["count", "w"], ["w", "count"], ["count", "w:agg=max"], ["w:agg=min", "count"],
                  ["count:dtype=int64", "w:dtype=int64,agg=max"], ["w:agg=first"], ["count", "w:agg=last"]]
    for fs in (field_sets if thorough else field_sets[:7]):
        n = rng.randint(2, 4)
        yield "cli_merge", {"n": n, "inputs": _inputs(rng, n, True, rng.randint(2, 3)), "mergebuf": rng.choice([1, 2, 5, 100]), "fields": fs}
    for t in range(36 if thorough else 12):
        n = rng.randint(2, 5)
        ins = _inputs(rng, n, True, rng.randint(1, 3))
        if not any(ins):
            ins[0] = [[0, n - 1, 2]]
        tot = sum(len(x) for x in ins)
        yield "agg", {"n": n, "inputs": ins, "mergebufs": sorted({1, 2, rng.randint(1, tot + 1), tot + 1}),
                      "agg": ["max", "min", "sum", "first", "last", "count", "range", "twice"][t % 8]}
    yield from _compat_cases(tier, rng)


def shrink(name, case):
    if name == "merge":
        ins = case["inputs"]
        for a in range(len(ins)):
            if len(ins) > 1:
                c = dict(case); c["inputs"] = ins[:a] + ins[a + 1:]
                yield c
        for a in range(len(ins)):
            for k in range(len(ins[a])):
                c = dict(case); c["inputs"] = [x if t != a else x[:k] + x[k + 1:] for t, x in enumerate(ins)]
                yield c
    if name == "compat":
        ls = case["lists"]
        if len(ls) > 1:
            yield _prune(case, ls[:len(ls) // 2])
            yield _prune(case, ls[len(ls) // 2:])
        elif ls and len(ls[0]) > 2:
            for a in range(len(ls[0])):
                yield _prune(case, [ls[0][:a] + ls[0][a + 1:]])


def escalate(name, case, rng):
    """merge_breakpoints contract broken: look for a wrong merge end to end"""
    worker_init()
    if name != "breakpoints":
        return None
    for _ in range(60):
        n = rng.randint(2, 5)
        ins = _inputs(rng, n, True, rng.randint(2, 3))
        c = {"n": n, "symm": True, "inputs": ins}
        r = run_check(_merge, c)
        if r:
            return {"check": "merge", "case": c, "result": r}
    return None
