"""C07 — merging coolers is the exact element-wise aggregate of the inputs."""
from __future__ import annotations

import itertools
import os

import numpy as np
import pandas as pd

from harness import gen, monitor
from harness.common import ImplRaised, drv, guarded, impl, run_check

PID = "C07"
THEOREMS = ["merger_eq_spec", "mergerFrom_spec", "merge_buffer_independent", "merge_comm", "merge_assoc", "merge_sum",
            "merge_pointwise", "merger_stream_sorted", "breakLoop_spec", "breakpoints_contract",
            "merger_agg_eq_spec", "mergerAggFrom_spec", "merge_agg_comm", "merge_agg_buffer_independent", "groupAgg_sum", "groupAgg_eq_of",
            # the refusal clause (Props/C07Compat.lean)
            "compat_accepts_iff", "compat_accepts_same", "compat_same_accepts", "merge_refuses", "fastpath_sound",
            "uniform_table_unique", "uniformChrom_unique", "sorted_ext", "rows_inj", "compat_ok_iff", "legacy_fastpath_unsound",
            "fixed_group_is_tiling", "merge_refuses_empty",
            # the dtype clause (Props/C07Dtype.lean)
            "merge_exact_or_error", "mergeTyped_exact", "mergeTyped_refuses_iff", "mergerTyped_eq", "mergeTyped_buffer_independent",
            "mergeTyped_comm", "checkedWrite_none_iff_clip", "clip_eq_iff_fits", "commonInt_holds", "fitsInt_widen",
            "fitsInt_unsigned_to_signed", "fitsInt_gap", "fitsFloat_iff", "wrap64_eq_iff", "aggAsBuilt_exact", "rnd_of_fits"]
LEVELS = {"merge": "top", "refuses": "top", "compat": "top", "limits": "top", "breakpoints": "unit", "agg": "top", "mixed_dtypes": "top", "cli_merge": "top"}
DESCRIBE = {
    "merge": "cooler.merge_coolers(out, inputs, mergebuf) for EVERY mergebuf 1..sum(nnz)+1 and every order of the inputs, plus a "
             "nested merge, vs Lean `mergeSpec` (= streaming `merger` for any valid partition, theorem merger_eq_spec); recorded "
             "sum vs `total`; output judged by the C02 raw monitor",
    "refuses": "inputs differing in bin table, resolution, chromosome set or storage mode must be refused with an error",
    "compat": "WHICH lists of inputs are merged and which are refused: lists of 2 and 3 coolers (differing input first / in the middle / last, "
              "identical inputs) over every valid segmentation of <=2 small chromosomes, fixed-width tables of different widths over equal "
              "chromosome sizes, tables equal but for the last bin, same lengths under other names, same names in another order, one-bin "
              "chromosomes, both storage modes; real cooler.merge_coolers (and `cooler merge` for a slice) merged/refused vs Lean "
              "`mergeCompat` (= `allSame`: same storage mode, names and bin table as the first input — theorem compat_accepts_iff; the "
              "bin-size shortcut is sound by fastpath_sound over C20.getBinsize_truthful); a merged output carries the inputs' bin table",
    "limits": "values near the limits of the value dtype, for EVERY pair (dtype the inputs' columns are stored in, dtype of the output column): "
              "inputs stored as int8..int64, uint8..uint64, float32, float64 (all of one dtype or mixed), output requested through `dtypes=` "
              "(as a numpy dtype, a string or a scalar type) / `--field count:dtype=...` as any of those ten types or omitted; aggregates "
              "sum, max, min, first, last landing ON and just BEYOND every boundary of every integer type (-2^63-1 .. 2^64: between 2^31 "
              "and 2^32, negative into unsigned, beyond 2^63 and 2^64 ...), with 1..3 inputs, several merge buffers, library and `cooler "
              "merge`.  Oracle: Lean `mergeTyped` (= `C01.checkedWrite` of the exact aggregate `mergeSpecAgg`; theorems "
              "merge_exact_or_error, mergeTyped_refuses_iff, mergerTyped_eq): the merged column holds exactly the aggregate, or the merge "
              "is refused — and it may be refused only when Lean says some exact aggregate does not fit the output type (omitted: the "
              "common type of the inputs, `common`, commonInt_holds).  Float columns: demanded only where the integer model answers "
              "(Lean `verdict`: every value and partial sum exactly held by the significands involved); rounding by a requested float "
              "type is not judged.  The recorded total is compared where every accumulator holds it (`totalSafe`)",
    "breakpoints": "contract `validBreakpoints` evaluated by Lean on the real merge_breakpoints(indexes, bufsize) output",
    "mixed_dtypes": "inputs whose count columns have DIFFERENT dtypes (int32/int64/float32/float64, values multiples of 1/4) in every order: "
                    "the stored values must be the exact per-pixel sums (Lean `mergeSpec` on the values scaled by 4), never truncated",
    "cli_merge": "`cooler merge` with one or several --field options (dtype=, agg=) in every order vs Lean `mergeSpec` / `mergeSpecAgg` per column",
    "agg": "merge_coolers(columns=[count, w], agg={w: max|min|sum|first|last}) for several merge buffers vs Lean `mergeSpecAgg` "
           "(= streaming `mergerAgg` for any valid partition and ANY aggregation function: theorem merger_agg_eq_spec)",
}
RULE = ("k = 1..3 (quick) / 1..4 (thorough) inputs over a common table of n<=5 bins (empty, disjoint supports, identical supports, rows "
        "with leading empties, random), symmetric and square; mergebuf exhaustive 1..sum(nnz)+1; all k! input orders; nested merges; "
        "non-trivial = >=2 inputs sharing at least one pixel; distinct by canonical JSON.  Check `compat` is EXHAUSTIVE over its small "
        "universe: every ordered pair (and triples with the odd one at each position) of valid segmentations with equal chromosome "
        "sizes (1 chromosome of length <=5, 2 chromosomes of total length <=5; thorough <=6 / <=7), every ordered pair of ALL valid "
        "segmentations of <=2 chromosomes of length <=3 (thorough <=4), every name variant and storage-mode mix of those; plus "
        "seeded larger tables.  Check `limits` covers EVERY (stored dtype, output dtype or omitted) pair of the ten value dtypes: per "
        "pair one merge whose shared and unshared pixels sit on every reachable in-range boundary value, and merges with one "
        "aggregate just beyond the output type's upper and lower limit and on a farther boundary (thorough: that for every "
        "aggregate through both entry points, and five more farther boundaries for sum)")
# `compat` (and mergebuf in `merge`) enumerate exhaustively; the merge inputs themselves are sampled
EXHAUSTIVE = {"quick": True, "thorough": True}
TRUSTED = ["pandas concat/groupby(sort=True).aggregate and h5py dtype conversion are primitives",
           "merge partition (merge_breakpoints) is a free unit checked by contract"]
ASSUMPTIONS = ["integer value columns; aggregation functions are modelled as List Int -> Int applied to a pixel's values in input order",
               "float columns hold integer values; a merge involving a float column is judged only where floating-point aggregation is exact "
               "(Lean `verdict`); an aggregate that a REQUESTED float type does not hold exactly may be rounded (not judged)"]
CHUNK = 1


def worker_init():
    global cooler
    import cooler  # noqa


def _read(path):
    c = cooler.Cooler(path)
    t = c.pixels()[:]
    return [[int(a), int(b), int(v)] for a, b, v in zip(t["bin1_id"], t["bin2_id"], t["count"])], c.info


def _merge(case):
    n, symm, inputs = case["n"], case["symm"], case["inputs"]
    d = gen.tmpdir()
    tag = os.getpid()
    bins = gen.layout_bins(case.get("layout") or [n])
    paths = []
    out = os.path.join(d, f"m-{tag}-out.cool")
    try:
        for k, px in enumerate(inputs):
            p = os.path.join(d, f"m-{tag}-{k}.cool")
            gen.write_cooler(p, bins, px, symm=symm)
            paths.append(p)
        tot = sum(len(px) for px in inputs)
        nq = 0
        for mb in (case.get("mergebufs") or range(1, tot + 2)):
            m = drv().ask("C07.merge", inputs=inputs, n=n, mergebuf=mb)
            assert m["l1_agrees"] and m["model_partition_valid"], "theorem merger_eq_spec / model partition contradicted"
            orders = list(itertools.permutations(range(len(inputs)))) if mb in (1, 2, tot + 1) else [tuple(range(len(inputs)))]
            for order in orders:
                impl(cooler.merge_coolers, out, [paths[k] for k in order], mergebuf=mb)
                nq += 1
                got, info = _read(out)
                if got != m["spec"]:
                    return {"mismatch": True, "mergebuf": mb, "order": list(order), "impl": got, "model": m["spec"]}
                if int(info["sum"]) != m["total"] or int(info["nnz"]) != len(m["spec"]):
                    return {"mismatch": True, "mergebuf": mb, "what": "sum/nnz attributes", "impl": [info["sum"], info["nnz"]],
                            "model": [m["total"], len(m["spec"])]}
                v = monitor.violations(out)
                if v:
                    return {"mismatch": True, "mergebuf": mb, "what": "schema (C02 monitor)", "violated": v}
        # associativity: merge(merge(a,b), c) == merge(a,b,c)
        if len(inputs) >= 3:
            ab = os.path.join(d, f"m-{tag}-ab.cool")
            paths.append(ab)
            impl(cooler.merge_coolers, ab, paths[:2], mergebuf=3)
            impl(cooler.merge_coolers, out, [ab] + paths[2:len(inputs)], mergebuf=2)
            got, _ = _read(out)
            m = drv().ask("C07.merge", inputs=inputs, n=n, mergebuf=2)
            if got != m["spec"]:
                return {"mismatch": True, "what": "nested merge", "impl": got, "model": m["spec"]}
        return {"stats": {"merges": nq}}
    finally:
        for p in paths + [out]:
            if os.path.exists(p):
                os.unlink(p)


def _refuses(case):
    d = gen.tmpdir()
    tag = os.getpid()
    a, b, out = (os.path.join(d, f"r-{tag}-{x}.cool") for x in "abo")
    try:
        gen.write_cooler(a, case["bins_a"], case["px_a"], symm=case["symm_a"])
        gen.write_cooler(b, case["bins_b"], case["px_b"], symm=case["symm_b"])
        r = guarded(cooler.merge_coolers, out, [a, b], mergebuf=5)
        if r[0] == "ok":
            return {"mismatch": True, "kind": case["kind"], "impl": "merged without error",
                    "note": "inputs that differ in bin table, resolution or storage mode must be refused"}
        return None
    finally:
        for p in (a, b, out):
            if os.path.exists(p):
                os.unlink(p)


# the value dtypes of the domain, as the Lean model names them (`MergeDtype.VType`)
_INTS = ["int8", "int16", "int32", "int64", "uint8", "uint16", "uint32", "uint64"]
_FLOATS = ["float32", "float64"]
_VT = {**{t: {"signed": not t.startswith("u"), "bits": int(t.lstrip("uint"))} for t in _INTS}, "float32": {"mant": 24}, "float64": {"mant": 53}}


def _dtype_arg(name, spelling):
    """the same dtype in the spellings `dtypes=` accepts"""
    return {"dtype": np.dtype(name), "str": name, "type": getattr(np, name)}[spelling]


def _exact_int(v):
    """a stored number as an exact Python integer (a float that is not an integer stays a float)"""
    if isinstance(v, (np.integer, int)):
        return int(v)
    f = float(v)
    return int(f) if f.is_integer() else f


def _limits_form(case):
    if "values" in case:
        # the earlier form of a case: k inputs of one dtype holding `values` at one pixel and 1 at another, `dtypes` omitted
        return {"n": 3, "inputs": [[[0, 1, v], [1, 1, 1]] for v in case["values"]], "in_dtypes": [case["dtype"]] * len(case["values"]),
                "out": None, "agg": "sum", "via": "api", "mergebuf": 4}
    return case


def _limits(case):
    from click.testing import CliRunner
    from cooler.cli import cli
    case = _limits_form(case)
    n, ins, out_dt, agg, mb = case["n"], case["in_dtypes"], case["out"], case["agg"], case["mergebuf"]
    m = drv().ask("C07.merge_typed", inputs=case["inputs"], n=n, mergebuf=mb, agg=agg, in_types=[_VT[t] for t in ins],
                  out=None if out_dt is None else _VT[out_dt])
    assert m["inputs_ok"], f"the generator produced a value its input column cannot hold: {case}"
    assert m["stream_agrees"] and m["model_partition_valid"], "theorem mergerTyped_eq contradicted"
    verdict = m["verdict"]
    assert verdict == "unconstrained" or (m["stored"] is None) == (verdict == "refuse"), "theorem mergeTyped_refuses_iff contradicted"
    assert m["stored"] is None or m["stored"] == m["spec"], "theorem mergeTyped_exact contradicted"
    d = gen.tmpdir()
    tag = os.getpid()
    bins = gen.layout_bins([n])
    paths = []
    out = os.path.join(d, f"l-{tag}-out.cool")
    try:
        for k, (px, dt) in enumerate(zip(case["inputs"], ins)):
            p = os.path.join(d, f"l-{tag}-{k}.cool")
            gen.write_cooler(p, bins, px, dtype=dt, dtypes={"count": dt})
            paths.append(p)
        if case["via"] == "cli":
            props = ([f"dtype={out_dt}"] if out_dt else []) + ([f"agg={agg}"] if agg != "sum" or case.get("agg_explicit") else [])
            field = ["--field", "count" + (":" + ",".join(props) if props else "")] if props or case.get("field_explicit") else []
            argv = ["merge", "-c", str(mb)] + field
            r = CliRunner().invoke(cli, argv + [out] + paths)
            merged, err, how = r.exit_code == 0, (None if r.exit_code == 0 else repr(r.exception)[:200]), "cooler " + " ".join(argv)
        else:
            kw = {}
            if out_dt:
                kw["dtypes"] = {"count": _dtype_arg(out_dt, case.get("spelling", "dtype"))}
            if agg != "sum" or case.get("agg_explicit"):
                kw["agg"] = {"count": agg}
            r = guarded(cooler.merge_coolers, out, paths, mergebuf=mb, **kw)
            merged, err, how = r[0] == "ok", (None if r[0] == "ok" else r[1]), f"merge_coolers(mergebuf={mb}, " + ", ".join(f"{a}={b!r}" for a, b in kw.items()) + ")"
        what = {"call": how, "input_dtypes": ins, "output_dtype": out_dt or "omitted", "model_output_type": m["out"], "model_verdict": verdict}
        if not merged:
            if verdict == "exact":
                return dict(what, mismatch=True, impl=f"refused ({err})", impl_outcome=None, exact=m["spec"],
                            note="the merge was refused although every exact aggregate fits the output type")
            return {"stats": {"refused" if verdict == "refuse" else "unconstrained": 1}}
        c = impl(cooler.Cooler, out)
        t = impl(lambda: c.pixels()[:])
        got = [[int(a), int(b), _exact_int(v)] for a, b, v in zip(t["bin1_id"], t["bin2_id"], t["count"])]
        if verdict == "unconstrained":
            return {"stats": {"unconstrained": 1}}
        if got != m["spec"]:
            return dict(what, mismatch=True, stored_dtype=str(t["count"].dtype), impl=got, impl_outcome=got, exact=m["spec"],
                        an_unchecked_write_would_store=m["unchecked"],
                        note="a stored value is silently different from the exact aggregate" +
                             ("" if verdict == "exact" else " (no exact aggregate fits the output type: the merge had to be refused)"))
        info = c.info
        if int(info["nnz"]) != len(m["spec"]):
            return dict(what, mismatch=True, what_differs="nnz attribute", impl=int(info["nnz"]), model=len(m["spec"]))
        if m["total_safe"]:
            s_ = info["sum"]
            if not (float(s_).is_integer() and int(s_) == m["total"]):
                return dict(what, mismatch=True, what_differs="sum attribute", impl=_exact_int(s_), model=m["total"], stored=got,
                            impl_outcome=got, sum_impl=float(s_),
                            note="the recorded total is not the sum of the input totals")
        return {"stats": {"exact": 1}}
    finally:
        for p in paths + [out]:
            if os.path.exists(p):
                os.unlink(p)


def _breakpoints(case):
    from cooler._reduce import merge_breakpoints
    import warnings
    idx = [np.array(x) for x in case["indexes"]]
    for buf in case["bufsizes"]:
        with warnings.catch_warnings():
            warnings.simplefilter("ignore")
            part, cum = impl(merge_breakpoints, idx, buf)
        part = [int(x) for x in part]
        if any(x < 0 for x in part):
            return {"mismatch": True, "bufsize": buf, "impl_partition": part, "note": "negative row id in the partition"}
        m = drv().ask("C07.breakpoints", indexes=case["indexes"], bufsize=buf, impl_partition=part)
        if not m["impl_valid"]:
            return {"mismatch": True, "bufsize": buf, "impl_partition": part, "combined": m["combined"], "model_partition": m["model"],
                    "note": "partition is not a strictly increasing chain from 0 that reaches the end of the data"}
        if [int(x) for x in cum] != [m["combined"][p] for p in part]:
            return {"mismatch": True, "bufsize": buf, "impl_cum": [int(x) for x in cum], "note": "cum_nrecords != combined_index[partition]"}
    return None


def _agg_range(s):
    return s.max() - s.min()


def _agg_twice(s):
    return 2 * s.sum()


# aggregates given as callables (NOT the identity on a single value, like "count"): a pixel present in one input only must go
# through the aggregation too
AGG_PY = {"range": _agg_range, "twice": _agg_twice}


def _agg(case):
    """merge with a requested aggregation on an extra INTEGER value column `w` (count stays summed): both columns vs Lean"""
    d = gen.tmpdir()
    tag = os.getpid()
    n = case["n"]
    bins = gen.layout_bins([n])
    paths = []
    out = os.path.join(d, f"g-{tag}-out.cool")
    wval = lambda k, v: v * 3 - 7 * k + (k % 2) * 11          # distinct per input, may be negative
    try:
        for k, px in enumerate(case["inputs"]):
            p = os.path.join(d, f"g-{tag}-{k}.cool")
            gen.write_cooler(p, bins, px, extra={"w": np.array([wval(k, v) for _, _, v in px], dtype=np.int64)},
                             columns=["count", "w"], dtypes={"w": "int64"})
            paths.append(p)
        w_inputs = [[[i, j, wval(k, v)] for i, j, v in px] for k, px in enumerate(case["inputs"])]
        for mb in case["mergebufs"]:
            impl(cooler.merge_coolers, out, paths, mergebuf=mb, columns=["count", "w"], agg={"w": AGG_PY.get(case["agg"], case["agg"])})
            t = cooler.Cooler(out).pixels()[:]
            got_c = [[int(a), int(b), int(c)] for a, b, c in zip(t["bin1_id"], t["bin2_id"], t["count"])]
            got_w = [[int(a), int(b), int(w)] for a, b, w in zip(t["bin1_id"], t["bin2_id"], t["w"])]
            mc = drv().ask("C07.merge", inputs=case["inputs"], n=n, mergebuf=mb)
            mw = drv().ask("C07.merge_agg", inputs=w_inputs, n=n, mergebuf=mb, agg=case["agg"])
            assert mw["l1_agrees"], "theorem merger_agg_eq_spec contradicted"
            if got_c != mc["spec"]:
                return {"mismatch": True, "mergebuf": mb, "what": "count column (sum) under a custom agg on another column",
                        "impl": got_c, "model": mc["spec"]}
            if got_w != mw["spec"]:
                return {"mismatch": True, "mergebuf": mb, "what": f"column w, agg={case['agg']}", "impl": got_w, "model": mw["spec"]}
        return None
    finally:
        for p in paths + [out]:
            if os.path.exists(p):
                os.unlink(p)


def _mixed_dtypes(case):
    import itertools as it
    d = gen.tmpdir()
    tag = os.getpid()
    n = case["n"]
    bins = gen.layout_bins([n])
    paths = []
    out = os.path.join(d, f"x-{tag}-out.cool")
    try:
        # values are quarter units: integer inputs hold multiples of 4
        q_inputs = []
        for k, (px, dt) in enumerate(zip(case["inputs"], case["dtypes"])):
            p = os.path.join(d, f"x-{tag}-{k}.cool")
            isint = dt.startswith("int")
            q = [[i, j, (v * 4 if isint else v)] for i, j, v in px]
            q_inputs.append(q)
            df = gen.pixels_df([[i, j, 0] for i, j, _ in px])
            df["count"] = np.array([qq[2] / 4 for qq in q], dtype=dt)
            impl(cooler.create_cooler, p, gen.bins_df(bins), df, dtypes={"count": dt}, ordered=True)
            paths.append(p)
        # the `dtypes` argument in its equally valid spellings: omitted, None, an empty dict, a dict naming another column only —
        # in each of them the count column's dtype is the common type of the inputs
        spell = case.get("dtypes_arg", "omitted")
        kw = {"omitted": {}, "none": {"dtypes": None}, "empty": {"dtypes": {}}, "other": {"dtypes": {"nosuchcolumn": np.dtype("float32")}}}[spell]
        for order in it.permutations(range(len(paths))):
            impl(cooler.merge_coolers, out, [paths[k] for k in order], mergebuf=case["mergebuf"], **{k_: (dict(v_) if isinstance(v_, dict) else v_) for k_, v_ in kw.items()})
            t = cooler.Cooler(out).pixels()[:]
            got = [[int(a), int(b), float(c) * 4] for a, b, c in zip(t["bin1_id"], t["bin2_id"], t["count"])]
            m = drv().ask("C07.merge", inputs=[q_inputs[k] for k in order], n=n, mergebuf=case["mergebuf"])
            want = [[i, j, float(v)] for i, j, v in m["spec"]]
            if got != want:
                return {"mismatch": True, "order": list(order), "dtypes": [case["dtypes"][k] for k in order], "dtypes_argument": spell,
                        "stored_dtype": str(t["count"].dtype), "impl_quarters": got, "model_quarters": want,
                        "note": "a stored value differs from the exact aggregate (values are multiples of 1/4)"}
            if float(cooler.Cooler(out).info["sum"]) * 4 != float(m["total"]):
                return {"mismatch": True, "order": list(order), "what": "sum attribute", "impl": cooler.Cooler(out).info["sum"],
                        "model_quarters": m["total"]}
        return None
    finally:
        for p in paths + [out]:
            if os.path.exists(p):
                os.unlink(p)


def _cli_merge(case):
    from click.testing import CliRunner
    from cooler.cli import cli
    d = gen.tmpdir()
    tag = os.getpid()
    n = case["n"]
    bins = gen.layout_bins([n])
    paths = []
    out = os.path.join(d, f"y-{tag}-out.cool")
    wval = lambda k, v: v * 5 - 3 * k
    try:
        for k, px in enumerate(case["inputs"]):
            p = os.path.join(d, f"y-{tag}-{k}.cool")
            gen.write_cooler(p, bins, px, extra={"w": np.array([wval(k, v) for _, _, v in px], dtype=np.int64)},
                             columns=["count", "w"], dtypes={"w": "int64"})
            paths.append(p)
        w_inputs = [[[i, j, wval(k, v)] for i, j, v in px] for k, px in enumerate(case["inputs"])]
        args = ["merge", "-c", str(case["mergebuf"])]
        for f in case["fields"]:
            args += ["--field", f]
        args += [out] + paths
        r = CliRunner().invoke(cli, args)
        if r.exit_code != 0:
            return {"mismatch": True, "argv": args[:-len(paths) - 1], "exit": r.exit_code, "exception": repr(r.exception)[:300]}
        t = cooler.Cooler(out).pixels()[:]
        for f in (case["fields"] or ["count"]):
            name = f.split(":")[0].split(",")[0]
            agg = "sum"
            if "agg=" in f:
                agg = f.split("agg=")[1].split(",")[0]
            src = case["inputs"] if name == "count" else w_inputs
            m = drv().ask("C07.merge_agg", inputs=src, n=n, mergebuf=case["mergebuf"], agg=agg)
            got = [[int(a), int(b), int(v)] for a, b, v in zip(t["bin1_id"], t["bin2_id"], t[name])]
            if got != m["spec"]:
                return {"mismatch": True, "argv": args[:-len(paths) - 1], "column": name, "agg": agg, "impl": got, "model": m["spec"]}
        return None
    finally:
        for p in paths + [out]:
            if os.path.exists(p):
                os.unlink(p)


# ---------------------------------------------------------------------------------------------
# the refusal clause: which lists of inputs are merged and which are refused
# ---------------------------------------------------------------------------------------------

# chromosome names by NAME id (the Lean model's `Name`); deliberately not in lexicographic order
_CNAMES = ["chr2", "chr10", "chr1", "scaf_7", "chrX", "chrM"]


def _table(widths_per_chrom):
    bins = []
    for c, ws in enumerate(widths_per_chrom):
        bins += gen.chrom_bins(c, ws)
    return bins


def _inp(bins, names=None, symm=True):
    n = max(b[0] for b in bins) + 1
    return {"symm": symm, "names": list(range(n)) if names is None else list(names), "bins": bins}


def _write_input(path, x, value):
    with gen.names_as([_CNAMES[k] for k in x["names"]]):
        gen.write_cooler(path, x["bins"], [[0, 0, value]], symm=x["symm"])


def _heads(path):
    """the two stored heads the merge looks at, as the real cooler reports them (diagnosis only)"""
    c = cooler.Cooler(path)
    bs = c.binsize
    return (None if bs is None else int(bs),
            [[_CNAMES.index(str(nm)) if str(nm) in _CNAMES else 10 ** 6, int(L)] for nm, L in c.chromsizes.items()])


def _compat(case):
    pool = case["pool"]
    d = gen.tmpdir()
    tag = os.getpid()
    paths = [os.path.join(d, f"c-{tag}-{k}.cool") for k in range(len(pool))]
    dups = {}
    out = os.path.join(d, f"c-{tag}-out.cool")
    stats = {}

    def count(k):
        stats[k] = stats.get(k, 0) + 1
    try:
        sent = []
        for k, x in enumerate(pool):
            _write_input(paths[k], x, 1 + k)
            bs, cs = impl(_heads, paths[k])
            sent.append(dict(x, stored_binsize=bs, stored_chromsizes=cs))
        for lst in case["lists"]:
            m = drv().ask("C07.compat", inputs=[sent[k] for k in lst])
            assert m["wf"], f"the generator produced an input outside the theorem's hypotheses: {[pool[k] for k in lst]}"
            assert (m["compat"] == "ok") == m["all_same"], "theorem compat_accepts_iff contradicted (mergeCompat vs allSame)"
            # an input listed twice is given as two files holding the same table
            use, seen = [], set()
            for k in lst:
                if k in seen:
                    if k not in dups:
                        dups[k] = os.path.join(d, f"c-{tag}-{k}-dup.cool")
                        _write_input(dups[k], pool[k], 100 + k)
                    use.append(dups[k])
                else:
                    seen.add(k)
                    use.append(paths[k])
            if os.path.exists(out):
                os.unlink(out)
            if case.get("cli"):
                from click.testing import CliRunner
                from cooler.cli import cli
                r = CliRunner().invoke(cli, ["merge", "-c", "5", out] + use)
                merged, err = r.exit_code == 0, (None if r.exit_code == 0 else repr(r.exception)[:200])
            else:
                r = guarded(cooler.merge_coolers, out, use, mergebuf=5)
                merged, err = r[0] == "ok", (None if r[0] == "ok" else r[1])
            want = m["compat"] == "ok"
            count("lists")
            count("merged" if merged else f"refused.{m['decided_by']}")
            if merged != want:
                return {"mismatch": True, "list": lst, "inputs": [pool[k] for k in lst], "via": "cooler merge (CLI)" if case.get("cli") else "merge_coolers",
                        "impl": "merged" if merged else f"refused ({err})", "model": "merge" if want else "refuse",
                        "model_decided_by": m["decided_by"], "model_binsizes": m["binsizes"],
                        "stored_heads_are_the_derived_ones": m["heads_match"], "model_on_the_stored_heads": m["compat_stored"],
                        "note": ("inputs that differ in bin table, resolution or storage mode were merged" if merged else
                                 "inputs with the same storage mode, chromosome names and bin table were not merged")}
            x0 = pool[lst[0]]
            if merged:
                c = impl(cooler.Cooler, out)
                t = impl(lambda: c.bins()[["chrom", "start", "end"]][:])
                rows = [[str(a), int(s_), int(e)] for a, s_, e in zip(t["chrom"].astype(str), t["start"], t["end"])]
                want_rows = [[_CNAMES[x0["names"][b[0]]], b[1], b[2]] for b in x0["bins"]]
                if rows != want_rows or (c.storage_mode == "symmetric-upper") != x0["symm"]:
                    return {"mismatch": True, "list": lst, "inputs": [pool[k] for k in lst], "what": "bin table / storage mode of the merged cooler",
                            "impl": [rows, c.storage_mode], "expected": [want_rows, "symmetric-upper" if x0["symm"] else "square"]}
            elif os.path.exists(out) and cooler.fileops.is_cooler(out):
                return {"mismatch": True, "list": lst, "inputs": [pool[k] for k in lst],
                        "note": "the merge raised but left a cooler at the output path (refused AND merged)"}
        return {"stats": stats}
    finally:
        for p in paths + list(dups.values()) + [out]:
            if os.path.exists(p):
                os.unlink(p)


def _prune(case, lists):
    used = sorted({k for l in lists for k in l})
    re_ = {k: i for i, k in enumerate(used)}
    c = dict(case)
    c["pool"] = [case["pool"][k] for k in used]
    c["lists"] = [[re_[k] for k in l] for l in lists]
    return c


def _chunks(family, pool, lists, **kw):
    size = max(120, 4 * len(pool))          # a pool member is written once per chunk
    for a in range(0, len(lists), size):
        yield "compat", dict(_prune({"family": family, "pool": pool}, lists[a:a + size]), **kw)


def _odd_one_out(i, j, every):
    t3 = [[j, i, i], [i, j, i], [i, i, j]]
    return t3 if every else [t3[(i + j) % 3]]


def _all_tables(maxlen, nchroms):
    per = [ws for L in range(1, maxlen + 1) for ws in gen.compositions(L)]
    return [_table(combo) for combo in itertools.product(per, repeat=nchroms)]


def _swap2(bins):
    """the two chromosomes of a 2-chromosome table in the other order"""
    return [[0, s, e] for c, s, e in bins if c == 1] + [[1, s, e] for c, s, e in bins if c == 0]


def _compat_cases(tier, rng):
    thorough = tier == "thorough"
    # (a) EQUAL chromosome sizes, every valid segmentation: all ordered pairs, the odd one out of three at every position.
    #     This is where the bin-size shortcut (which never looks at the tables) has to be sound.
    one, two, trip = (6, 7, 6) if thorough else (5, 5, 4)
    for n in (1, 2):
        for sizes in itertools.product(range(1, 7), repeat=n):
            if sum(sizes) > (one if n == 1 else two):
                continue
            pool = [_inp(_table(combo)) for combo in itertools.product(*[list(gen.compositions(L)) for L in sizes])]
            s = len(pool)
            lists = [[i, j] for i in range(s) for j in range(s)]
            for i in range(s):
                for j in range(s):
                    if i != j:
                        lists += _odd_one_out(i, j, sum(sizes) <= trip)
            lists += [[i, i, i] for i in range(min(s, 3))]
            yield from _chunks("same-chromsizes", pool, lists)
    # (b) ALL valid segmentations of <=2 chromosomes of length <=3 (4): every ordered pair (different chromosome counts,
    #     lengths, fixed first / variable first, one-bin chromosomes ...)
    m = 4 if thorough else 3
    pool = [_inp(t) for n in (1, 2) for t in _all_tables(m, n)]
    sizes_of = [sorted({b[0]: b[2] for b in x["bins"]}.items()) for x in pool]       # chromosome id -> end of its last bin
    lists = [[i, j] for i in range(len(pool)) for j in range(len(pool)) if sizes_of[i] != sizes_of[j]]      # equal sizes: see (a)
    yield from _chunks("all-pairs", pool, lists)
    # (c) names: same lengths under other names, same names in another order (ids re-assigned or not)
    for mm, full in ((2, True), (3, False)):
        for t in _all_tables(mm, 2):
            if not full and max(b[2] for b in t) < 3:
                continue
            v = [_inp(t, [0, 1]), _inp(t, [0, 2]), _inp(t, [2, 1]), _inp(t, [1, 0]), _inp(_swap2(t), [1, 0]), _inp(_swap2(t), [0, 1])]
            if full:
                lists = [[i, j] for i in range(6) for j in range(6)] + [l for j in range(1, 6) for l in _odd_one_out(0, j, True)]
            else:
                lists = [[0, j] for j in range(1, 6)] + [[1, 0], [4, 0]] + _odd_one_out(0, 1 + len(t) % 5, False)
            yield from _chunks("names", v, lists)
    pool = [_inp(t, [k]) for t in _all_tables(3, 1) for k in (0, 1)]
    yield from _chunks("names", pool, [[i, i ^ 1] for i in range(len(pool))] + [[0, 1, 0], [2, 2, 3]])
    # (d) storage modes
    for mm, full in ((2, True), (3, False)):
        for n in (1, 2):
            for t in _all_tables(mm, n):
                if not full and max(b[2] for b in t) < 3:
                    continue
                pool = [_inp(t, symm=True), _inp(t, symm=False)]
                lists = [[0, 1], [1, 0], [1, 1], [0, 0, 1], [0, 1, 0], [1, 0, 0], [1, 1, 0], [1, 0, 1], [0, 1, 1]] if full else \
                        [[0, 1], [1, 0], [[0, 0, 1], [0, 1, 0], [1, 0, 0], [1, 1, 1]][len(t) % 4]]
                yield from _chunks("modes", pool, lists)
    # (e) fixed-width tables of different widths over the same chromosome sizes (larger genomes)
    sizes_list = [[L] for L in (range(1, 15) if thorough else (6, 10))]
    for _ in range(10 if thorough else 3):
        sizes_list.append([rng.randint(1, 12) for _ in range(rng.randint(2, 3))])
    for sizes in sizes_list:
        seen, pool = set(), []
        for b in range(1, max(sizes) + 2):
            t = gen.uniform_bins(sizes, b)
            if str(t) not in seen:
                seen.add(str(t))
                pool.append(_inp(t))
        lists = [[i, j] for i in range(len(pool)) for j in range(len(pool))]
        yield from _chunks("widths", pool, lists)
    #     tables equal except for the LAST bin of the LAST chromosome; a moved inner boundary; a re-cut first chromosome
    for _ in range(150 if thorough else 30):
        t = gen.random_segmentation(rng, rng.randint(1, 3), 24)
        longer = [list(b) for b in t]
        longer[-1][2] += 1
        pool = [_inp(t), _inp(longer)]
        if t[-1][2] - t[-1][1] > 1:
            shorter = [list(b) for b in t]
            shorter[-1][2] -= 1
            pool.append(_inp(shorter))
        inner = [k for k in range(len(t) - 1) if t[k][0] == t[k + 1][0] and t[k][2] - t[k][1] > 1]
        if inner:
            k = rng.choice(inner)
            moved = [list(b) for b in t]
            moved[k][2] -= 1
            moved[k + 1][1] -= 1
            pool.append(_inp(moved))
        lists = [[0, 0]] + [l for j in range(1, len(pool)) for l in ([0, j], [j, 0])] + _odd_one_out(0, 1, True)
        yield from _chunks("last-bin", pool, lists)
    #     one bin per chromosome: no bin size is reported whatever the lengths, the tables themselves are compared
    pool = [_inp(_table([[L] for L in Ls])) for n in (1, 2, 3) for Ls in itertools.product((3, 7), repeat=n)]
    lists = [[i, j] for i in range(len(pool)) for j in range(len(pool))]
    yield from _chunks("one-bin", pool, lists)
    # (f) seeded larger genomes: a table, one altered copy, lists of 2..3 with the odd one anywhere
    for _ in range(300 if thorough else 50):
        n = rng.randint(1, 4)
        t = gen.random_segmentation(rng, n, 24)
        kind = rng.choice(["same", "width", "rename", "reorder", "mode", "drop", "recut"])
        base, other = _inp(t), None
        if kind == "same":
            other = _inp(t)
        elif kind == "width":
            sizes = [max(b[2] for b in t if b[0] == c) for c in range(n)]
            other = _inp(gen.uniform_bins(sizes, rng.randint(1, 13)))
        elif kind == "rename":
            names = list(range(n))
            names[rng.randrange(n)] = 5
            other = _inp(t, names)
        elif kind == "reorder" and n >= 2:
            names = list(range(n))
            a, b_ = rng.sample(range(n), 2)
            names[a], names[b_] = names[b_], names[a]
            other = _inp(t, names)
        elif kind == "mode":
            other = _inp(t, symm=False)
        elif kind == "drop" and n >= 2:
            other = _inp([b for b in t if b[0] < n - 1])
        else:
            c = rng.randrange(n)
            L = max(b[2] for b in t if b[0] == c)
            other = _inp([b for b in t if b[0] < c] + gen.chrom_bins(c, gen._randcomp(rng, L)) + [b for b in t if b[0] > c])
        k = rng.randint(2, 3)
        lst = [0] * k
        lst[rng.randrange(k)] = 1
        yield from _chunks("seeded", [base, other], [lst, [1, 0]])
    # (g) the command line: `cooler merge` on a slice of the above
    pool = [_inp(_table(combo)) for combo in itertools.product(list(gen.compositions(2)), list(gen.compositions(3)))]
    lists = [[i, j] for i in range(len(pool)) for j in range(len(pool))] + [l for j in range(1, len(pool)) for l in _odd_one_out(0, j, True)]
    yield from _chunks("cli", pool, lists if thorough else lists[::2], cli=True)
    t = _table([[2, 2, 1], [2, 1]])
    v = [_inp(t, [0, 1]), _inp(t, [0, 2]), _inp(t, [1, 0]), _inp(_swap2(t), [1, 0]), _inp(t, symm=False), _inp(gen.uniform_bins([5, 3], 3))]
    yield from _chunks("cli", v, [[i, j] for i in range(6) for j in range(6) if thorough or (i + j) % 2 == 0 or i == 0], cli=True)


# ---------------------------------------------------------------------------------------------
# the dtype clause: values near the limits of the value dtype, for every (stored dtype, output dtype) pair
# ---------------------------------------------------------------------------------------------

def _irange(t):
    b = _VT[t]["bits"]
    return (-(2 ** (b - 1)), 2 ** (b - 1) - 1) if _VT[t]["signed"] else (0, 2 ** b - 1)


def _held(t, v):
    """GENERATOR-side only (the oracle is Lean `VType.holds`, and `inputs_ok` re-checks every input value): can a column of
    dtype `t` hold the integer `v` unchanged"""
    if t in _INTS:
        lo, hi = _irange(t)
        return lo <= v <= hi
    a, mant = abs(v), _VT[t]["mant"]
    return a.bit_length() <= mant or a % (1 << (a.bit_length() - mant)) == 0


# every boundary of every integer type, from both sides, and the first integers the float types do not hold
_LANDMARKS = sorted({x for t in _INTS for lo, hi in [_irange(t)] for x in (lo - 1, lo, hi, hi + 1)} |
                    {1, -2, 2 ** 24, 2 ** 24 + 1, 2 ** 53, 2 ** 53 + 1})
_AGGS = ["sum", "max", "min", "first", "last"]


def _candidates(rng, t, target):
    c = [target, target // 2, target - target // 2, target // 3, 0, 1, -1, rng.choice(_LANDMARKS), rng.randint(-300, 300)]
    if t in _INTS:
        lo, hi = _irange(t)
        c += [lo, hi, hi - rng.randint(0, 9), lo + rng.randint(0, 9), target - hi, target - lo]
    else:
        c += [2 ** 62, -(2 ** 62), 2 ** (max(abs(target), 1).bit_length() - 1)]
    return [v for v in c if _held(t, v)]


def _decompose(rng, target, dts, agg):
    """values, one per input and each held by that input's dtype, whose `agg` in input order is `target`; None if not found"""
    k = len(dts)
    fl = [t for t in dts if t in _FLOATS]
    for _ in range(40):
        if agg == "sum":
            vals = [rng.choice(_candidates(rng, t, target)) for t in dts[:-1]]
            vals.append(target - sum(vals))
        else:
            pos = {"first": 0, "last": k - 1}.get(agg, rng.randrange(k))
            vals = []
            for a, t in enumerate(dts):
                if a == pos:
                    vals.append(target)
                    continue
                c = _candidates(rng, t, target)
                if agg == "max":
                    c = [v for v in c if v <= target]
                if agg == "min":
                    c = [v for v in c if v >= target]
                if not c:
                    break
                vals.append(rng.choice(c))
            if len(vals) < k:
                continue
        if not all(_held(t, v) for t, v in zip(dts, vals)):
            continue
        if fl and agg == "sum":
            # with a float column among the inputs only an exact floating-point aggregation is judged: prefer those
            narrow = min(fl, key=lambda t: _VT[t]["mant"])
            acc, ok = 0, True
            for v in vals:
                acc += v
                ok = ok and _held(narrow, acc) and _held(narrow, v)
            if not ok:
                continue
        return vals
    return None


def _limit_case(rng, n, dts, out, agg, via, targets, singles, extra):
    """one merge: a shared pixel per target (its aggregate over the inputs = the target), pixels held by one input only"""
    cells = [(i, j) for i in range(n) for j in range(i, n)]
    rng.shuffle(cells)
    inputs = [[] for _ in dts]
    used = []
    for tg in targets:
        vals = _decompose(rng, tg, dts, agg)
        if vals is None or not cells:
            continue
        i, j = cells.pop()
        used.append(tg)
        for a, v in enumerate(vals):
            inputs[a].append([i, j, v])
    for a, v in singles:
        if cells and _held(dts[a], v):
            i, j = cells.pop()
            used.append(v)
            inputs[a].append([i, j, v])
    if not used:
        return None
    c = {"n": n, "inputs": [sorted(px) for px in inputs], "in_dtypes": list(dts), "out": out, "agg": agg, "via": via,
         "mergebuf": rng.choice([1, 2, 3, 5, 100])}
    c.update(extra)
    return c


def _limit_cases(tier, rng):
    thorough = tier == "thorough"
    for ind in _INTS + _FLOATS:
        for out in [None] + _INTS + _FLOATS:
            variants = [(a, v) for a in _AGGS for v in ("api", "cli")] if thorough else [None]
            for var in variants:
                # slots of one pair: the merge that must be stored, then merges with one aggregate just beyond the upper limit of the
                # output type, just beyond the lower one, and on a farther boundary (thorough: on every boundary outside)
                for slot in ["inside", "above", "below", "far"] + (["far"] * 5 if thorough and var[0] == "sum" else []):
                    agg, via = var if var else (rng.choice(["sum", "sum", "sum"] + _AGGS), "cli" if rng.random() < 0.3 else "api")
                    k = rng.randint(1, 3)
                    # the inputs: all of the pair's stored dtype, or (one time in three) one of them of another dtype
                    dts = [ind] * k
                    if k >= 2 and rng.random() < 0.34:
                        dts[rng.randrange(1, k)] = rng.choice(_INTS + _FLOATS)
                    # what the output column can hold — for the generator's sorting of the boundary values into "to be stored"
                    # and "to be refused" only (the verdict is Lean's, on Lean's `common` type)
                    res = out or str(np.result_type(*[np.dtype(t) for t in dts]))
                    inside = [x for x in _LANDMARKS if _held(res, x)]
                    outside = [x for x in _LANDMARKS if not _held(res, x)]
                    rng.shuffle(inside)
                    extra = {"spelling": rng.choice(["dtype", "str", "type"]), "agg_explicit": rng.random() < 0.5,
                             "field_explicit": rng.random() < 0.3}
                    if slot == "inside":
                        ends = list(_irange(res)) if res in _INTS else []
                        singles = [(rng.randrange(k), x) for x in ends + inside[:2]]
                        c = _limit_case(rng, 7, dts, out, agg, via, ends + [x for x in inside if x not in ends][:10 if thorough else 6],
                                        singles, extra)
                    else:
                        if res in _FLOATS:
                            break
                        lo, hi = _irange(res)
                        if slot == "far":
                            far = [x for x in outside if x not in (lo - 1, hi + 1)]
                            if not far:
                                break
                            x = rng.choice(far)
                        else:
                            x = hi + 1 if slot == "above" else lo - 1
                        # the aggregate beyond the output type sits next to pixels that fit; it is a shared pixel or (if an input
                        # can hold it) a pixel of one input only
                        if rng.random() < 0.25 and _held(dts[0], x):
                            c = _limit_case(rng, 4, dts, out, agg, via, inside[:2], [(0, x)], extra)
                        else:
                            c = _limit_case(rng, 4, dts, out, agg, via, inside[:2] + [x], [], extra)
                    if c:
                        yield "limits", c


CHECKS = {"mixed_dtypes": _mixed_dtypes, "cli_merge": _cli_merge, "merge": _merge, "refuses": _refuses, "limits": _limits, "breakpoints": _breakpoints, "agg": _agg,
          "compat": _compat}


def nontrivial(name, case):
    if name == "merge":
        keys = [set((p[0], p[1]) for p in px) for px in case["inputs"]]
        return len(keys) >= 2 and any(keys[a] & keys[b] for a in range(len(keys)) for b in range(a))
    if name == "compat":
        return any(len(set(l)) >= 2 for l in case["lists"])
    return True


def distribution(name, case):
    if name == "merge":
        yield f"merge.k={len(case['inputs'])}.{'symm' if case['symm'] else 'square'}"
    if name == "compat":
        yield f"compat.family={case.get('family')}"
    if name == "limits" and "in_dtypes" in case:
        yield f"limits.stored={case['in_dtypes'][0]}"
        yield f"limits.output={case['out'] or 'omitted'}"
        yield f"limits.{case['via']}.{case['agg']}.k={len(case['inputs'])}"


def classify(name, case, res, findings):
    """D32 (a 64-bit accumulator wraps around silently) and D33 (uint64 next to a signed integer dtype is aggregated in float64):
    recognised only where the implementation's outcome — refusal, or every stored value — is EXACTLY what the Lean variant oracle
    (`mergerAsBuiltFrom` / `storeAsBuilt`: the specification with just these two deviations built in) yields, and the deviation
    that occurred is the finding's (theorems wrap64_eq_iff, rnd_of_fits say where the variant deviates at all)"""
    if name != "limits" or "impl_outcome" not in res:
        return None
    case = _limits_form(case)
    ins = case["in_dtypes"]
    b = drv().ask("C07.merge_as_built", inputs=case["inputs"], n=case["n"], mergebuf=case["mergebuf"], agg=case["agg"],
                  in_types=[_VT[t] for t in ins], out=None if case["out"] is None else _VT[case["out"]])
    if not b["applicable"] or b["outcome"] != res["impl_outcome"]:
        return None
    if res.get("what_differs") == "sum attribute":
        # D33 again: the epoch's chunk being float64, write_pixels accumulates the `sum` attribute in float64 as well. Recognised
        # only under D33's own signature, with every stored value equal to the as-built oracle, and the recorded total within
        # float64 accumulation error (one rounding per stored value) of the exact total
        n_vals = max(1, len(res["impl_outcome"]))
        tot = res["model"]
        ok = ("uint64" in ins and any(t in _INTS and not t.startswith("u") for t in ins)
              and abs(res["sum_impl"] - tot) <= n_vals * 2.0 ** -52 * max(1.0, abs(float(tot))))
        return "D33" if ok and any(f["id"] == "D33" for f in findings) else None
    fid = None
    if b["float"]:
        if "uint64" in ins and any(t in _INTS and not t.startswith("u") for t in ins):
            fid = "D33"
    elif b["wrap"] and case["agg"] == "sum":
        fid = "D32"
    return fid if fid and any(f["id"] == fid for f in findings) else None


def _inputs(rng, n, symm, k):
    style = rng.choice(["random", "identical", "disjoint", "leading-empty", "with-empty"])
    if style == "identical":
        base = gen.matrix_kinds(rng, n, symm, "random")
        return [[[i, j, v + t] for i, j, v in base] for t in range(k)]
    if style == "disjoint":
        allp = gen.matrix_kinds(rng, n, symm, "dense-random")
        return [allp[t::k] for t in range(k)]
    if style == "leading-empty":
        return [[p for p in gen.matrix_kinds(rng, n, symm, "dense-random") if p[0] >= min(2, n - 1)] for _ in range(k)]
    if style == "with-empty":
        return [[] if t == 0 else gen.matrix_kinds(rng, n, symm) for t in range(k)]
    return [gen.matrix_kinds(rng, n, symm) for _ in range(k)]


def cases(tier, rng):
    thorough = tier == "thorough"
    # corpus: D6 witnesses (empty epochs) and D8 (overflow)
    yield "merge", {"n": 4, "symm": True, "inputs": [[[2, 2, 1], [2, 3, 1]], [[2, 2, 5], [2, 3, 2], [3, 3, 1]]]}
    yield "merge", {"n": 3, "symm": True, "inputs": [[], []]}
    # D33 through the `sum` attribute only: uint64 next to int64, every stored value exact, the total accumulated in float64
    yield "limits", {"n": 7, "inputs": [[[2, 3, 9007199254740993], [4, 4, 32767]], [[2, 3, 9007199254740992], [4, 4, 32767]]],
                     "in_dtypes": ["uint64", "int64"], "out": "uint64", "agg": "min", "via": "cli", "mergebuf": 5, "spelling": "str",
                     "agg_explicit": True, "field_explicit": False}
    yield "limits", {"values": [2 ** 31 - 1, 2 ** 31 - 1], "dtype": "int32"}
    for _ in range(160 if thorough else 36):
        n = rng.randint(1, 5)
        symm = rng.random() < 0.7
        k = rng.randint(1, 4 if thorough else 3)
        ins = _inputs(rng, n, symm, k)
        c = {"n": n, "symm": symm, "inputs": ins, "layout": gen.split_layout(rng, n)}
        tot = sum(len(x) for x in ins)
        if tot > 14:
            c["mergebufs"] = sorted({1, 2, 3, rng.randint(1, tot), tot, tot + 1})
        yield "merge", c
    # incompatible pairs of every kind
    b10 = gen.layout_bins([3, 2], 10)
    kinds = [
        ("different width", b10, gen.layout_bins([3, 2], 5), True, True),
        ("different chromosome lengths", b10, gen.chrom_bins(0, [10, 10, 7]) + gen.chrom_bins(1, [10, 10]), True, True),
        ("different chromosome count", b10, gen.layout_bins([3], 10), True, True),
        ("variable vs variable", gen.chrom_bins(0, [3, 4, 5]), gen.chrom_bins(0, [4, 3, 5]), True, True),
        ("fixed vs variable same lengths", gen.chrom_bins(0, [4, 4, 4]), gen.chrom_bins(0, [4, 3, 5]), True, True),
        ("mixed storage modes", b10, b10, True, False),
        ("mixed storage modes 2", b10, b10, False, True),
    ]
    for kind, ba, bb, sa, sb in kinds:
        yield "refuses", {"kind": kind, "bins_a": ba, "bins_b": bb, "symm_a": sa, "symm_b": sb,
                          "px_a": [[0, 1, 1]], "px_b": [[0, 1, 2]]}
    for vals, dt in [([2 ** 31 - 1, 1], "int32"), ([2 ** 30, 2 ** 30], "int32"), ([2 ** 30, 2 ** 30 - 1], "int32"),
                     ([-2 ** 31, -1], "int32"), ([2 ** 31 - 1, 2 ** 31 - 1, 2], "int32"), ([2 ** 40, 2 ** 40], "int64"),
                     ([2 ** 31 - 2, 1], "int32"), ([100, 200], "int32")]:
        yield "limits", {"values": vals, "dtype": dt}
    for _ in range(120 if thorough else 30):
        n = rng.randint(1, 7)
        k = rng.randint(1, 3)
        idx = []
        for _ in range(k):
            steps = [rng.choice([0, 0, 1, 2, 5]) for _ in range(n)]
            idx.append([0] + list(itertools.accumulate(steps)))
        tot = sum(x[-1] for x in idx)
        yield "breakpoints", {"indexes": idx, "bufsizes": list(range(1, min(tot, 12) + 2)) + [10 ** 6]}
    for _ in range(24 if thorough else 6):
        n = rng.randint(2, 4)
        k = rng.randint(2, 3)
        ins = _inputs(rng, n, True, k)
        yield "mixed_dtypes", {"n": n, "inputs": ins, "mergebuf": rng.randint(1, 9),
                               "dtypes": [rng.choice(["int32", "int64", "float32", "float64"]) for _ in range(k)],
                               "dtypes_arg": ["omitted", "none", "empty", "other"][_ % 4]}
    yield "mixed_dtypes", {"n": 3, "inputs": [[[0, 1, 1], [1, 1, 2]], [[0, 1, 6], [1, 2, 9]]], "mergebuf": 5, "dtypes": ["float64", "float64"],
                           "dtypes_arg": "empty"}
    yield "mixed_dtypes", {"n": 3, "inputs": [[[0, 1, 1], [1, 1, 2]], [[0, 1, 6], [1, 2, 9]]], "mergebuf": 5, "dtypes": ["int64", "float64"]}
    field_sets = [[], ["count"], ["count", "w"], ["w", "count"], ["count", "w:agg=max"], ["w:agg=min", "count"],
                  ["count:dtype=int64", "w:dtype=int64,agg=max"], ["w:agg=first"], ["count", "w:agg=last"]]
    for fs in (field_sets if thorough else field_sets[:7]):
        n = rng.randint(2, 4)
        yield "cli_merge", {"n": n, "inputs": _inputs(rng, n, True, rng.randint(2, 3)), "mergebuf": rng.choice([1, 2, 5, 100]), "fields": fs}
    for t in range(36 if thorough else 12):
        n = rng.randint(2, 5)
        ins = _inputs(rng, n, True, rng.randint(1, 3))
        if not any(ins):
            ins[0] = [[0, n - 1, 2]]
        tot = sum(len(x) for x in ins)
        yield "agg", {"n": n, "inputs": ins, "mergebufs": sorted({1, 2, rng.randint(1, tot + 1), tot + 1}),
                      "agg": ["max", "min", "sum", "first", "last", "count", "range", "twice"][t % 8]}
    yield from _limit_cases(tier, rng)
    yield from _compat_cases(tier, rng)


def shrink(name, case):
    if name == "merge":
        ins = case["inputs"]
        for a in range(len(ins)):
            if len(ins) > 1:
                c = dict(case); c["inputs"] = ins[:a] + ins[a + 1:]
                yield c
        for a in range(len(ins)):
            for k in range(len(ins[a])):
                c = dict(case); c["inputs"] = [x if t != a else x[:k] + x[k + 1:] for t, x in enumerate(ins)]
                yield c
    if name == "limits" and "in_dtypes" in case:
        ins = case["inputs"]
        for key in sorted({(p[0], p[1]) for px in ins for p in px}):
            c = dict(case); c["inputs"] = [[p for p in px if (p[0], p[1]) != key] for px in ins]
            yield c
        for a in range(len(ins)):
            if len(ins) > 1:
                c = dict(case); c["inputs"] = ins[:a] + ins[a + 1:]; c["in_dtypes"] = case["in_dtypes"][:a] + case["in_dtypes"][a + 1:]
                yield c
    if name == "compat":
        ls = case["lists"]
        if len(ls) > 1:
            yield _prune(case, ls[:len(ls) // 2])
            yield _prune(case, ls[len(ls) // 2:])
        elif ls and len(ls[0]) > 2:
            for a in range(len(ls[0])):
                yield _prune(case, [ls[0][:a] + ls[0][a + 1:]])


def escalate(name, case, rng):
    """merge_breakpoints contract broken: look for a wrong merge end to end"""
    worker_init()
    if name != "breakpoints":
        return None
    for _ in range(60):
        n = rng.randint(2, 5)
        ins = _inputs(rng, n, True, rng.randint(2, 3))
        c = {"n": n, "symm": True, "inputs": ins}
        r = run_check(_merge, c)
        if r:
            return {"check": "merge", "case": c, "result": r}
    return None
