"""Shared machinery of the correspondence harness.

No property logic lives here: Lean definitions (through the driver) are the oracles.
"""
from __future__ import annotations

import hashlib
import importlib
import json
import multiprocessing as mp
import os
import random
import subprocess
import sys
import time
import traceback
from collections import Counter

VERIF = os.path.dirname(os.path.dirname(os.path.abspath(__file__)))
LEAN = os.path.join(VERIF, "lean")
REPO = os.environ.get("COOLER_REPO", "/repo")
DRIVER = os.path.join(LEAN, ".lake", "build", "bin", "driver")
OUT = os.environ.get("VERIF_OUT", VERIF)  # evidence/ and replays/ go here (scratch runs redirect it)
ALLOWED_AXIOMS = {"propext", "Classical.choice", "Quot.sound"}
FORBIDDEN = ("sorry", "admit", "native_decide", "bv_decide", "implemented_by", "unsafe ", "maxHeartbeats 0")

os.environ.setdefault("COOLER_VERIF", "1")
sys.path.insert(0, os.path.join(REPO, "src"))


class Infra(Exception):
    """infrastructure failure: exit 2, never a verdict about the property"""


# ----------------------------------------------------------------------------------------------
# Lean side
# ----------------------------------------------------------------------------------------------

def _lean_sources():
    out = []
    for root, dirs, files in os.walk(LEAN):
        dirs[:] = [d for d in dirs if d != ".lake"]
        for f in files:
            if f.endswith(".lean") or f == "lakefile.toml":
                out.append(os.path.join(root, f))
    return sorted(out)


def _import_closure(module):
    """source files of `module` and of everything it imports inside this project"""
    seen, todo, out = set(), [module], []
    while todo:
        m = todo.pop()
        if m in seen:
            continue
        seen.add(m)
        path = os.path.join(LEAN, *m.split(".")) + ".lean"
        if not os.path.exists(path):
            continue
        out.append(path)
        for line in open(path):
            line = line.strip()
            if line.startswith("import CoolerModel"):
                todo.append(line.split()[1])
    return sorted(out)


def lean_hash():
    h = hashlib.sha256()
    for p in _lean_sources():
        h.update(p.encode())
        h.update(open(p, "rb").read())
    return h.hexdigest()[:16]


def _strip_comments(src: str) -> str:
    out, i, depth = [], 0, 0
    while i < len(src):
        if src.startswith("/-", i):
            depth += 1
            i += 2
        elif depth and src.startswith("-/", i):
            depth -= 1
            i += 2
        elif depth:
            i += 1
        elif src.startswith("--", i):
            j = src.find("\n", i)
            i = len(src) if j < 0 else j
        else:
            out.append(src[i])
            i += 1
    return "".join(out)


AUDIT_TEMPLATE = """import Lean
import CoolerModel.Props.{pid}
open Lean Elab Command
run_cmd do
  let env ← getEnv
  let mods := env.header.moduleNames
  let mut out : Array String := #[]
  for (name, ci) in env.constants.map₁.toList do
    match ci with
    | .thmInfo _ =>
      match env.getModuleIdxFor? name with
      | some idx =>
        let m := mods[idx.toNat]!
        if (`CoolerModel.Props).isPrefixOf m && !name.isInternal then
          let axs ← Lean.collectAxioms name
          let j := Json.mkObj [("module", Json.str m.toString), ("name", Json.str name.toString),
            ("axioms", Json.arr (axs.map (fun a => Json.str a.toString)))]
          out := out.push j.compress
      | none => pure ()
    | _ => pure ()
  for l in out.qsort (· < ·) do
    IO.println l
"""


def run_leanchecker(pid):
    """thorough tier: independent re-check of the compiled .olean files of the property's import closure"""
    mods = []
    for path in _import_closure(f"CoolerModel.Props.{pid}"):
        rel = os.path.relpath(path, LEAN)[:-5]
        mods.append(rel.replace(os.sep, "."))
    t0 = time.time()
    r = subprocess.run(["lake", "env", "leanchecker"] + mods, cwd=LEAN, capture_output=True, text=True)
    if r.returncode != 0:
        sys.stderr.write(r.stdout[-3000:] + r.stderr[-3000:])
        raise Infra("leanchecker rejected the compiled proofs")
    return {"modules": len(mods), "seconds": round(time.time() - t0, 1)}


def ensure_lean(pid):
    """`lake build` of the driver and of the property's theorem module (the kernel re-checks whatever
    changed), forbidden-token grep over all Lean sources, axiom audit of the property's theorems
    (cached per source hash).  Returns (audit rows, seconds)."""
    t0 = time.time()
    lock = os.path.join(LEAN, ".lake-verif.lock")
    import fcntl
    with open(lock, "w") as lf:
        fcntl.flock(lf, fcntl.LOCK_EX)
        r = subprocess.run(["lake", "build", "driver", f"CoolerModel.Props.{pid}"], cwd=LEAN, capture_output=True, text=True)
        if r.returncode != 0:
            sys.stderr.write(r.stdout[-4000:] + r.stderr[-4000:])
            raise Infra("lake build failed")
        for p in _import_closure(f"CoolerModel.Props.{pid}"):
            code = _strip_comments(open(p).read())
            for tok in FORBIDDEN:
                if tok in code:
                    raise Infra(f"forbidden token {tok!r} in {p}")
            for line in code.splitlines():
                if line.startswith("axiom "):
                    raise Infra(f"axiom declared in {p}")
        hh = lean_hash()
        adir = os.path.join(LEAN, ".lake", "audit")
        os.makedirs(adir, exist_ok=True)
        cache = os.path.join(adir, f"{pid}-{hh}.json")
        if not os.path.exists(cache):
            src = os.path.join(adir, f"Audit_{pid}.lean")
            with open(src, "w") as f:
                f.write(AUDIT_TEMPLATE.format(pid=pid))
            r = subprocess.run(["lake", "env", "lean", src], cwd=LEAN, capture_output=True, text=True)
            if r.returncode != 0:
                sys.stderr.write(r.stdout[-4000:] + r.stderr[-4000:])
                raise Infra("axiom audit failed")
            rows = [json.loads(l) for l in r.stdout.splitlines() if l.startswith("{")]
            with open(cache + ".tmp", "w") as f:
                json.dump(rows, f)
            os.replace(cache + ".tmp", cache)
            for old in os.listdir(adir):
                if old.startswith(pid + "-") and old.endswith(".json") and old != os.path.basename(cache):
                    os.unlink(os.path.join(adir, old))
        audit = json.load(open(cache))
    return audit, time.time() - t0


def theorems_for(audit, pid):
    """property theorems: declared in namespace Cooler.<pid> of module CoolerModel.Props.<pid>*"""
    out = []
    for row in audit:
        mod = row["module"]
        if row["name"].startswith(f"Cooler.{pid}."):
            tail = row["name"].split(".")[-1]
            if tail.startswith("eq_") or tail.startswith("match_") or tail.startswith("proof_") or "._" in row["name"]:
                continue
            out.append(row)
    return out


class Driver:
    """line protocol to the compiled Lean driver"""

    def __init__(self):
        if not os.path.exists(DRIVER):
            raise Infra("driver executable missing: run `lake build` in lean/")
        self.p = subprocess.Popen([DRIVER], stdin=subprocess.PIPE, stdout=subprocess.PIPE, text=True, bufsize=1)

    def ask(self, op, **args):
        self.p.stdin.write(json.dumps({"op": op, "args": args}) + "\n")
        self.p.stdin.flush()
        line = self.p.stdout.readline()
        if not line:
            raise Infra(f"driver died on {op}")
        ans = json.loads(line)
        if isinstance(ans, dict) and "driver_error" in ans:
            raise Infra(f"driver error on {op}: {ans['driver_error']} args={json.dumps(args)[:500]}")
        return ans

    def close(self):
        try:
            self.p.stdin.close()
            self.p.wait(timeout=5)
        except Exception:
            self.p.kill()


_DRV = None


def drv() -> Driver:
    global _DRV
    if _DRV is None or _DRV.p.poll() is not None:
        _DRV = Driver()
    return _DRV


# ----------------------------------------------------------------------------------------------
# error canonicalisation
# ----------------------------------------------------------------------------------------------

def errclass(e: BaseException) -> str:
    n = type(e).__name__
    for k in ("BadInputError", "ValueError", "KeyError", "IndexError", "TypeError", "OSError", "NotImplementedError",
              "RuntimeError", "AssertionError"):
        for c in type(e).__mro__:
            if c.__name__ == k:
                return k
    return n


class ImplRaised(Exception):
    """the IMPLEMENTATION raised where the check expected a value: a mismatch, not an infrastructure failure"""

    def __init__(self, cls, msg, where=""):
        super().__init__(f"{cls}: {msg}")
        self.cls, self.msg, self.where = cls, msg, where


_IMPL_CALLS = 0


def impl(f, *a, **k):
    """call into cooler; an exception there is attributed to the implementation (-> mismatch)"""
    global _IMPL_CALLS
    _IMPL_CALLS += 1
    try:
        return f(*a, **k)
    except Infra:
        raise
    except Exception as e:  # noqa
        tb = traceback.extract_tb(e.__traceback__)
        where = f"{os.path.basename(tb[-1].filename)}:{tb[-1].lineno}" if tb else ""
        raise ImplRaised(errclass(e), str(e)[:300], where) from None


def guarded(f, *a, **k):
    """('ok', value) or ('err', class)"""
    try:
        return ("ok", f(*a, **k))
    except Exception as e:  # noqa
        return ("err", errclass(e))


# ----------------------------------------------------------------------------------------------
# running cases
# ----------------------------------------------------------------------------------------------

_MOD = None


def _worker_init(modname):
    global _MOD, _DRV
    _DRV = None
    _MOD = importlib.import_module(modname)
    if hasattr(_MOD, "worker_init"):
        _MOD.worker_init()


def _worker_run(item):
    name, case = item
    t0 = time.time()
    calls0 = _IMPL_CALLS
    try:
        res = _MOD.CHECKS[name](case)
    except Infra as e:
        return (name, case, {"infra": str(e)}, time.time() - t0)
    except ImplRaised as e:
        res = {"mismatch": True, "impl_raised": e.cls, "message": e.msg, "where": e.where,
               "note": "the implementation raised where the model/spec yields a value"}
    except (ValueError, TypeError, KeyError, IndexError, OverflowError, AttributeError) as e:
        # Marshalling the implementation's output failed AFTER the implementation was called in this case (e.g. NaN where an
        # integer id is expected): the output is not of the documented form.  This never happens on the unchanged tree
        # (every tier is swept there), so it is attributed to the implementation, with the traceback in the replay.
        if _IMPL_CALLS > calls0:
            res = {"mismatch": True, "unmarshallable_output": errclass(e), "message": str(e)[:300],
                   "where": traceback.format_exc()[-900:],
                   "note": "the implementation returned a value the harness cannot canonicalise (not of the documented form)"}
        else:
            return (name, case, {"infra": traceback.format_exc()[-3000:]}, time.time() - t0)
    except Exception:  # a crash of the harness itself is infrastructure, not a verdict
        return (name, case, {"infra": traceback.format_exc()[-3000:]}, time.time() - t0)
    return (name, case, res, time.time() - t0)


def run_check(fn, case):
    """run one check function; returns None (agrees) or the mismatch dict.  An exception raised by the
    implementation (through `impl`) is a mismatch."""
    calls0 = _IMPL_CALLS
    try:
        r = fn(case)
    except ImplRaised as e:
        return {"mismatch": True, "impl_raised": e.cls, "message": e.msg, "where": e.where,
                "note": "the implementation raised where the model/spec yields a value"}
    except (ValueError, TypeError, KeyError, IndexError, OverflowError, AttributeError) as e:
        if _IMPL_CALLS > calls0:
            return {"mismatch": True, "unmarshallable_output": errclass(e), "message": str(e)[:300],
                    "note": "the implementation returned a value the harness cannot canonicalise"}
        raise
    if isinstance(r, dict) and r.get("mismatch"):
        return r
    return None


def canon(x):
    return json.dumps(x, sort_keys=True, default=str)


class Run:
    def __init__(self, mod, tier, seed):
        self.mod = mod
        self.pid = mod.PID
        self.tier = tier
        self.seed = seed
        self.t0 = time.time()
        self.evals = Counter()
        self.nontrivial = set()
        self.samples = {}
        self.dist = Counter()
        self.mismatches = []
        self.nmis = Counter()
        self.infra = []

    def run(self, nproc=None):
        self._run(nproc)

    def _run(self, nproc=None):
        rng = random.Random(self.seed)
        items = self.mod.cases(self.tier, rng)
        nproc = nproc or int(os.environ.get("VERIF_NPROC", min(14, os.cpu_count() or 2)))
        serial = getattr(self.mod, "SERIAL", False) or nproc <= 1
        if serial:
            _worker_init(self.mod.__name__)
            results = map(_worker_run, items)
            self._consume(results)
        else:
            ctx = mp.get_context("fork")
            with ctx.Pool(nproc, initializer=_worker_init, initargs=(self.mod.__name__,)) as pool:
                results = pool.imap_unordered(_worker_run, items, chunksize=getattr(self.mod, "CHUNK", 8))
                self._consume(results)
                if len(self.infra) <= 3:
                    # let the workers exit normally (tools/coverage_map.py collects their data at exit)
                    pool.close()
                    pool.join()

    def _consume(self, results):
        nt = getattr(self.mod, "nontrivial", None)
        distf = getattr(self.mod, "distribution", None)
        for name, case, res, dt in results:
            self.evals[name] += 1
            if isinstance(res, dict) and "infra" in res:
                self.infra.append((name, case, res["infra"]))
                if len(self.infra) > 3:
                    break
                continue
            stats = None
            if isinstance(res, dict) and "stats" in res and "mismatch" not in res:
                stats = res["stats"]
                res = None
            elif isinstance(res, dict) and "stats" in res:
                stats = res.pop("stats")
            if stats:
                for k, v in stats.items():
                    self.dist[f"{name}.{k}"] += v
            if nt is None or nt(name, case):
                self.nontrivial.add(hashlib.md5((name + canon(case)).encode()).hexdigest())
            if name not in self.samples or (len(self.samples[name]) < 2 and self.evals[name] % 97 == 0):
                self.samples.setdefault(name, []).append(case)
            if distf:
                for k in distf(name, case):
                    self.dist[k] += 1
            if res is not None:
                self.nmis[name] += 1
                if self.nmis[name] <= 400:
                    self.mismatches.append((name, case, res))


def load_findings():
    p = os.path.join(VERIF, "known_findings.json")
    if not os.path.exists(p):
        return []
    return json.load(open(p))["findings"]


def write_evidence(pid, tier, seed, level, coverage, assumptions, wall, violations):
    os.makedirs(os.path.join(OUT, "evidence"), exist_ok=True)
    ev = {
        "property_id": pid,
        "tier": tier,
        "seed": seed,
        "level": level,
        "coverage": coverage,
        "assumptions": assumptions,
        "wall_s": round(wall, 2),
        "violations": violations,
    }
    p = os.path.join(OUT, "evidence", f"{pid}.json")
    with open(p + ".tmp", "w") as f:
        json.dump(ev, f, indent=1, default=str)
    os.replace(p + ".tmp", p)


def shrink_case(mod, name, case, still_fails, budget=150):
    """greedy delta-debugging using the module's `shrink(name, case)` candidate generator"""
    sh = getattr(mod, "shrink", None)
    if sh is None:
        return case
    cur = case
    n = 0
    progress = True
    while progress and n < budget:
        progress = False
        for cand in sh(name, cur):
            n += 1
            if n > budget:
                break
            try:
                if still_fails(cand):
                    cur = cand
                    progress = True
                    break
            except Exception:
                continue
    return cur


def main_check(pid, tier, seed, replay=None):
    import shutil
    import tempfile
    base0 = os.environ.get("VERIF_SCRATCH_BASE", "/dev/shm" if os.path.isdir("/dev/shm") else tempfile.gettempdir())
    scratch = tempfile.mkdtemp(prefix=f"coolerverif-{pid}-", dir=base0)
    os.environ["VERIF_SCRATCH"] = scratch     # gen.tmpdir() creates per-process dirs below it
    try:
        return _main_check(pid, tier, seed, replay)
    finally:
        shutil.rmtree(scratch, ignore_errors=True)


def _main_check(pid, tier, seed, replay=None):
    t0 = time.time()
    mod = importlib.import_module(f"harness.{pid.lower()}")
    try:
        audit, lean_s = ensure_lean(pid)
    except Infra as e:
        print(f"INFRA: {e}", file=sys.stderr)
        return 2
    thms = theorems_for(audit, pid)
    bad_ax = [t for t in thms if not set(t["axioms"]) <= ALLOWED_AXIOMS]
    if bad_ax:
        print(f"INFRA: non-standard axioms in {[t['name'] for t in bad_ax]}", file=sys.stderr)
        return 2
    lc = None
    if tier == "thorough" and not replay:
        try:
            lc = run_leanchecker(pid)
        except Infra as e:
            print(f"INFRA: {e}", file=sys.stderr)
            return 2
    names = {t["name"].split(".", 2)[2] for t in thms}
    missing = [t for t in getattr(mod, "THEOREMS", []) if t not in names]
    if missing:
        print(f"INFRA: required theorems missing from the build: {missing}", file=sys.stderr)
        return 2

    if replay:
        rp = json.load(open(replay))
        _worker_init(mod.__name__)
        res = run_check(mod.CHECKS[rp["check"]], rp["case"])
        print(json.dumps({"check": rp["check"], "case": rp["case"], "result": res}, indent=1, default=str))
        return 1 if res is not None else 0

    run = Run(mod, tier, seed)
    try:
        run.run()
    except Infra as e:
        print(f"INFRA: {e}", file=sys.stderr)
        return 2
    if run.infra:
        for name, case, tb in run.infra[:3]:
            print(f"INFRA in check {name} case={canon(case)[:400]}\n{tb}", file=sys.stderr)
        return 2

    # --- classify mismatches -------------------------------------------------------------
    _worker_init(mod.__name__)
    findings = [f for f in load_findings() if f["property"] == pid and f["status"] == "finding"]
    classify = getattr(mod, "classify", None)
    known, violations = Counter(), []
    for name, case, res in run.mismatches:
        fid = classify(name, case, res, findings) if (classify and findings) else None
        if fid:
            known[fid] += 1
        else:
            violations.append((name, case, res))

    viol_lines = []
    os.makedirs(os.path.join(OUT, "replays"), exist_ok=True)
    if violations:
        # group by check name; report the smallest case of each (after shrinking)
        by = {}
        for name, case, res in violations:
            by.setdefault(name, []).append((case, res))
        for k, (name, lst) in enumerate(sorted(by.items())):
            lst.sort(key=lambda cr: len(canon(cr[0])))
            case, res = lst[0]

            def still(c, name=name):
                r = run_check(mod.CHECKS[name], c)
                if r is None:
                    return False
                if classify and findings and classify(name, c, r, findings):
                    return False
                return True
            small = shrink_case(mod, name, case, still)
            if small is not case:
                res = run_check(mod.CHECKS[name], small)
            kind = getattr(mod, "LEVELS", {}).get(name, "top")
            suffix = ""
            esc = None
            if kind == "unit":
                # the decomposition the proof relies on no longer describes the code: look for an
                # end-to-end failing input; if none, the property is no longer shown to hold.
                escf = getattr(mod, "escalate", None)
                esc = escf(name, small, random.Random(seed)) if escf else None
                if esc is None:
                    suffix = " no-failing-input-found"
            path = os.path.join(OUT, "replays", f"{pid}-{seed}-{k}.json")
            rp = {"property": pid, "check": name, "level": kind, "case": small, "result": res,
                  "n_cases_failing": len(lst),
                  "what": getattr(mod, "DESCRIBE", {}).get(name, ""),
                  "replay_cmd": f"./check {pid} --replay {os.path.relpath(path, VERIF)}"}
            if esc is not None:
                rp = {"property": pid, "check": esc["check"], "level": "top", "case": esc["case"],
                      "result": esc["result"], "found_by": f"failing-input search after {name} stopped checking",
                      "broken_correspondence": {"check": name, "case": small, "result": res},
                      "replay_cmd": f"./check {pid} --replay {os.path.relpath(path, VERIF)}"}
            elif kind == "unit":
                rp["broken"] = f"correspondence {pid}.{name} (unit of the proof decomposition) no longer checks"
            with open(path, "w") as f:
                json.dump(rp, f, indent=1, default=str)
            viol_lines.append(f"VIOLATION property={pid} replay={path}{suffix}")

    for f in findings:
        if known.get(f["id"]):
            print(f"KNOWN-FINDING: property={pid} {f['id']} {f['what']} ({known[f['id']]} cases this run)")
        elif f.get("always_print", True):
            # a listed finding is announced whether or not this run's sample hit it
            print(f"KNOWN-FINDING: property={pid} {f['id']} {f['what']} (not sampled this run)")

    wall = time.time() - t0
    units = sorted(run.evals)
    discharged_units = [u for u in units if not any(v[0] == u for v in violations)]
    samples = []
    for name in units:
        for c in run.samples.get(name, [])[:2]:
            samples.append({"check": name, "case": c})
    coverage = {
        "obligations": len(thms) + len(units),
        "discharged": len(thms) + len(discharged_units),
        "theorems": sorted(t["name"] for t in thms),
        "axioms_used": sorted({a for t in thms for a in t["axioms"]}),
        "correspondences": {u: run.evals[u] for u in units},
        "checker_cmd": f"cd lean && lake build driver CoolerModel.Props.{pid} && lake env lean .lake/audit/Audit_{pid}.lean; then ./check {pid} {tier} (harness/{pid.lower()}.py against /repo/src)",
        "trusted_base": getattr(mod, "TRUSTED", []) + [
            "Lean 4.33.0 kernel", "axioms: " + ", ".join(sorted({a for t in thms for a in t["axioms"]}) or ["none"]),
            "correspondence harness harness/common.py + harness/" + pid.lower() + ".py and the JSON glue of lean/Driver.lean"],
        "evaluations": sum(run.evals.values()),
        "distinct_nontrivial": len(run.nontrivial),
        "rule": getattr(mod, "RULE", ""),
        "samples": samples[:12],
        "traces_validated_against_impl": sum(run.evals.values()),
        "distribution": dict(sorted(run.dist.items())),
        "exhaustive": bool(getattr(mod, "EXHAUSTIVE", {}).get(tier, False)),
        "known_findings_hit": dict(known),
        "lean_build_and_audit_s": round(lean_s, 2),
        "lean_source_hash": lean_hash(),
        "leanchecker": lc if lc else "not run in this tier",
    }
    write_evidence(pid, tier, seed, "proof", coverage, getattr(mod, "ASSUMPTIONS", []), wall, len(viol_lines))
    for l in viol_lines:
        print(l)
    print(f"{pid} {tier} seed={seed}: {sum(run.evals.values())} cases, {len(run.nontrivial)} distinct non-trivial, "
          f"{len(thms)} theorems, {len(viol_lines)} violations, {sum(known.values())} known-finding cases, {wall:.1f}s")
    return 1 if viol_lines else 0
