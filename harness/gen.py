"""Shared generators and marshalling between cooler's types and the driver's JSON."""
from __future__ import annotations

import itertools
import os
import shutil
import tempfile

import numpy as np
import pandas as pd

_TMP = None


def tmpdir():
    """per-process scratch directory outside /repo and /verif, removed at exit"""
    global _TMP
    if _TMP is None or not os.path.isdir(_TMP) or _TMP_PID != os.getpid():
        _mk()
    return _TMP


def _mk():
    global _TMP, _TMP_PID
    import atexit
    base = os.environ.get("VERIF_SCRATCH", "/dev/shm" if os.path.isdir("/dev/shm") else tempfile.gettempdir())
    _TMP = tempfile.mkdtemp(prefix="coolerverif-", dir=base)
    _TMP_PID = os.getpid()
    d, pid = _TMP, _TMP_PID

    def rm():
        if os.getpid() == pid:
            shutil.rmtree(d, ignore_errors=True)
    atexit.register(rm)


_TMP_PID = None


def compositions(n):
    """all ways of writing n as an ordered sum of positive integers"""
    if n == 0:
        yield []
        return
    for first in range(1, n + 1):
        for rest in compositions(n - first):
            yield [first] + rest


def chrom_bins(c, widths):
    out, s = [], 0
    for w in widths:
        out.append([c, s, s + w])
        s += w
    return out


# chromosome names by id: deliberately NOT in lexicographic or natural order, and not all of the `chrN` shape, so that
# a code path that sorts, filters or re-derives chromosome order from the names shows up in every correspondence
_CHROMNAMES = ["chr2", "chr10", "chr1", "scaf_7", "chrX", "chrM", "chr3", "2L"]


def chromname(c):
    return _CHROMNAMES[c] if 0 <= c < len(_CHROMNAMES) else f"c{c}"


class names_as:
    """`with gen.names_as(["1", "2", "3"]):` — chromosome names for the duration of one case (numeric names, say); the
    workers run one case at a time, so the swap is local to the case"""

    def __init__(self, names):
        self.names = list(names)

    def __enter__(self):
        global _CHROMNAMES
        self.old = _CHROMNAMES
        _CHROMNAMES = self.names + [f"c{k}" for k in range(len(self.names), 12)]
        return self

    def __exit__(self, *a):
        global _CHROMNAMES
        _CHROMNAMES = self.old
        return False


def chromid(name):
    """inverse of chromname (raises ValueError on a name that is not one of ours)"""
    name = name.decode() if isinstance(name, bytes) else str(name)
    if name in _CHROMNAMES:
        return _CHROMNAMES.index(name)
    if name[:1] == "c" and name[1:].isdigit() and int(name[1:]) >= len(_CHROMNAMES):
        return int(name[1:])
    raise ValueError(f"not a generated chromosome name: {name!r}")


def bins_df(bins, nchroms=None, categorical=True, plain=False):
    """[[chromid,start,end],…] → the DataFrame cooler expects"""
    if nchroms is None:
        nchroms = (max(b[0] for b in bins) + 1) if bins else 0
    names = [chromname(c) for c in range(nchroms)]
    df = pd.DataFrame({
        "chrom": [chromname(b[0]) for b in bins],
        "start": np.array([b[1] for b in bins], dtype=np.int64),
        "end": np.array([b[2] for b in bins], dtype=np.int64),
    })
    if categorical:
        df["chrom"] = pd.Categorical(df["chrom"], categories=names, ordered=True)
    if plain:
        return df            # the caller reads the row labels as bin ids
    return relabel_rows(df, sum(b[1] + b[2] for b in bins) + len(bins), groups=[b[0] for b in bins])


FRAME_INDEX_FORMS = ("range", "range", "per-group restart (duplicated labels)", "reversed", "offset", "constant")


def relabel_rows(df, key, groups=None):
    """Row LABELS of a frame handed to cooler are presentation, not content: the same table is presented with pandas' default
    RangeIndex, with labels restarting at 0 in every chromosome (what `pd.concat` of per-chromosome frames yields: duplicated
    labels), reversed, offset, or all equal — chosen deterministically from the content (`key`) so that a case replays exactly."""
    n = len(df)
    form = FRAME_INDEX_FORMS[key % len(FRAME_INDEX_FORMS)] if os.environ.get("VERIF_PLAIN_FRAMES") != "1" else "range"
    if form == "range" or n == 0:
        return df
    if form.startswith("per-group") and groups is not None:
        lab, seen = [], {}
        for g in groups:
            lab.append(seen.get(g, 0))
            seen[g] = seen.get(g, 0) + 1
        df.index = pd.Index(lab, dtype=np.int64)
    elif form == "reversed":
        df.index = pd.Index(range(n - 1, -1, -1), dtype=np.int64)
    elif form == "offset":
        df.index = pd.RangeIndex(100, 100 + n)
    else:
        df.index = pd.Index([7] * n, dtype=np.int64)
    return df


def df_bins(df, names=None):
    """DataFrame → [[chromid,start,end],…] using position of the name in `names`"""
    ch = list(df["chrom"].astype(str))
    if names is None:
        names = []
        for x in ch:
            if x not in names:
                names.append(x)
    idx = {n: i for i, n in enumerate(names)}
    return [[idx[c], int(s), int(e)] for c, s, e in zip(ch, df["start"], df["end"])]


def uniform_bins(sizes, b):
    out = []
    for c, L in enumerate(sizes):
        n = -(-L // b)
        for k in range(n):
            out.append([c, k * b, min((k + 1) * b, L)])
    return out


def random_segmentation(rng, nchroms, maxlen, style=None):
    """a valid segmentation: list of bins; style in {uniform, var, longlast, onebin, mixed}"""
    style = style or rng.choice(["uniform", "var", "longlast", "onebin", "mixed", "uniform"])
    bins = []
    b = rng.randint(1, max(1, maxlen // 2))
    for c in range(nchroms):
        L = rng.randint(1, maxlen)
        st = style if style != "mixed" else rng.choice(["uniform", "var", "longlast", "onebin"])
        if st == "uniform":
            ws = [b] * (L // b) + ([L % b] if L % b else [])
        elif st == "longlast":
            k = rng.randint(0, 3)
            ws = [b] * k + [b + rng.randint(1, b + 2)]
        elif st == "onebin":
            ws = [L]
        else:
            ws = rng.choice(list(itertools.islice(compositions(L), 0, 64))) if L <= 7 else _randcomp(rng, L)
        bins += chrom_bins(c, ws)
    return bins


def _randcomp(rng, L):
    ws = []
    while L > 0:
        w = rng.randint(1, L)
        ws.append(w)
        L -= w
    return ws


# ---------------------------------------------------------------------------------------------
# small coolers
# ---------------------------------------------------------------------------------------------

def layout_bins(nbins_per_chrom, width=10):
    """uniform bins: chromosome c has nbins_per_chrom[c] bins of `width`"""
    out = []
    for c, k in enumerate(nbins_per_chrom):
        for t in range(k):
            out.append([c, t * width, (t + 1) * width])
    return out


def split_layout(rng, n):
    """split n bins over 1..3 chromosomes"""
    if n <= 1 or rng.random() < 0.4:
        return [n]
    k = rng.randint(1, n - 1)
    if n - k >= 2 and rng.random() < 0.3:
        m = rng.randint(1, n - k - 1)
        return [k, m, n - k - m]
    return [k, n - k]


def pixels_df(pixels, dtype="int32", extra=None):
    import numpy as np
    import pandas as pd
    d = {
        "bin1_id": np.array([p[0] for p in pixels], dtype=np.int64),
        "bin2_id": np.array([p[1] for p in pixels], dtype=np.int64),
        "count": np.array([p[2] for p in pixels], dtype=dtype),
    }
    if extra:
        for k, vals in extra.items():
            d[k] = np.array(vals)
    return relabel_rows(pd.DataFrame(d), sum(p[0] + 2 * p[1] for p in pixels) + len(pixels), groups=[p[0] for p in pixels])


def write_cooler(path, bins, pixels, symm=True, **kw):
    import cooler
    cooler.create_cooler(path, bins_df(bins), pixels_df(pixels, kw.pop("dtype", "int32"), kw.pop("extra", None)),
                         symmetric_upper=symm, ordered=True, **kw)


def matrix_kinds(rng, n, symm, kind=None):
    """pixel lists [[i,j,v],…] sorted by (i,j); values distinct"""
    kind = kind or rng.choice(["empty", "full", "diag", "nodiag", "onerow", "gaps", "random", "random", "dense-random"])
    cells = [(i, j) for i in range(n) for j in range(n) if (i <= j or not symm)]
    if kind == "empty":
        sel = []
    elif kind == "full":
        sel = cells
    elif kind == "diag":
        sel = [(i, j) for i, j in cells if i == j]
    elif kind == "nodiag":
        sel = [(i, j) for i, j in cells if i != j]
    elif kind == "onerow":
        r = rng.randrange(n) if n else 0
        sel = [(i, j) for i, j in cells if i == r]
    elif kind == "gaps":
        rows = {r for r in range(n) if rng.random() < 0.5}
        rows.discard(0)
        sel = [(i, j) for i, j in cells if i in rows and rng.random() < 0.7]
    elif kind == "dense-random":
        sel = [c for c in cells if rng.random() < 0.8]
    else:
        sel = [c for c in cells if rng.random() < 0.35]
    return [[i, j, 1 + i * (n + 1) + j * 3 + (7 if i == j else 0)] for i, j in sel]
