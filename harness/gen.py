"""Shared generators and marshalling between cooler's types and the driver's JSON."""
from __future__ import annotations

import itertools
import os
import shutil
import tempfile

import numpy as np
import pandas as pd

_TMP = None


def tmpdir():
    """per-process scratch directory outside /repo and /verif, removed at exit"""
    global _TMP
    if _TMP is None or not os.path.isdir(_TMP) or _TMP_PID != os.getpid():
        _mk()
    return _TMP


def _mk():
    global _TMP, _TMP_PID
    import atexit
    base = os.environ.get("VERIF_SCRATCH", "/dev/shm" if os.path.isdir("/dev/shm") else tempfile.gettempdir())
    _TMP = tempfile.mkdtemp(prefix="coolerverif-", dir=base)
    _TMP_PID = os.getpid()
    d, pid = _TMP, _TMP_PID

    def rm():
        if os.getpid() == pid:
            shutil.rmtree(d, ignore_errors=True)
    atexit.register(rm)


_TMP_PID = None


def compositions(n):
    """all ways of writing n as an ordered sum of positive integers"""
    if n == 0:
        yield []
        return
    for first in range(1, n + 1):
        for rest in compositions(n - first):
            yield [first] + rest


def chrom_bins(c, widths):
    out, s = [], 0
    for w in widths:
        out.append([c, s, s + w])
        s += w
    return out


def chromname(c):
    return f"c{c}"


def bins_df(bins, nchroms=None, categorical=True):
    """[[chromid,start,end],…] → the DataFrame cooler expects"""
    if nchroms is None:
        nchroms = (max(b[0] for b in bins) + 1) if bins else 0
    names = [chromname(c) for c in range(nchroms)]
    df = pd.DataFrame({
        "chrom": [chromname(b[0]) for b in bins],
        "start": np.array([b[1] for b in bins], dtype=np.int64),
        "end": np.array([b[2] for b in bins], dtype=np.int64),
    })
    if categorical:
        df["chrom"] = pd.Categorical(df["chrom"], categories=names, ordered=True)
    return df


def df_bins(df, names=None):
    """DataFrame → [[chromid,start,end],…] using position of the name in `names`"""
    ch = list(df["chrom"].astype(str))
    if names is None:
        names = []
        for x in ch:
            if x not in names:
                names.append(x)
    idx = {n: i for i, n in enumerate(names)}
    return [[idx[c], int(s), int(e)] for c, s, e in zip(ch, df["start"], df["end"])]


def uniform_bins(sizes, b):
    out = []
    for c, L in enumerate(sizes):
        n = -(-L // b)
        for k in range(n):
            out.append([c, k * b, min((k + 1) * b, L)])
    return out


def random_segmentation(rng, nchroms, maxlen, style=None):
    """a valid segmentation: list of bins; style in {uniform, var, longlast, onebin, mixed}"""
    style = style or rng.choice(["uniform", "var", "longlast", "onebin", "mixed", "uniform"])
    bins = []
    b = rng.randint(1, max(1, maxlen // 2))
    for c in range(nchroms):
        L = rng.randint(1, maxlen)
        st = style if style != "mixed" else rng.choice(["uniform", "var", "longlast", "onebin"])
        if st == "uniform":
            ws = [b] * (L // b) + ([L % b] if L % b else [])
        elif st == "longlast":
            k = rng.randint(0, 3)
            ws = [b] * k + [b + rng.randint(1, b + 2)]
        elif st == "onebin":
            ws = [L]
        else:
            ws = rng.choice(list(itertools.islice(compositions(L), 0, 64))) if L <= 7 else _randcomp(rng, L)
        bins += chrom_bins(c, ws)
    return bins


def _randcomp(rng, L):
    ws = []
    while L > 0:
        w = rng.randint(1, L)
        ws.append(w)
        L -= w
    return ws
