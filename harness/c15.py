"""C15 — file-level operations preserve content and touch nothing else.

Histories of create / cp / mv / ln (hard, soft, external) over two real HDF5 files are executed
with the real cooler and with the Lean file model (`CoolerModel/Model/FileModel.lean`, through the
driver); after EVERY step the observable state is compared: success/failure of the step,
`list_coolers` of both files, `is_cooler` on every candidate path (existing or not, a dataset, a
plain group, a missing file), the content read through `cooler.Cooler(uri).pixels()[:]` (plus the
`sum` attribute) of every listed collection, and an unrelated root attribute.
"""
from __future__ import annotations

import hashlib
import itertools
import json
import os
import shutil

import numpy as np
import pandas as pd

from harness import gen
from harness.common import drv, errclass

PID = "C15"
THEOREMS = ["copy_reads_equal", "copy_root_reads_equal", "mv_reads_equal_plain", "copy_frame", "copy_frame_new", "mv_frame",
            "mv_source_gone_partial", "mv_source_gone_spec", "mv_source_gone_current_false", "d4_counterexample",
            "mv_cross_eq_cp", "mv_cross_file_keeps_source", "list_exact", "d5_counterexample", "isCooler_total",
            "copy_overwrite_eq", "mv_reads_equal", "mv_through_source_counterexample", "copy_into_itself_refused", "create_at_untraversable_refused",
            "copyOp_not_into_itself", "uri_slash", "uri_slash_string", "list_exact_soft", "listing_exact_soft", "step_sat", "run_sat", "history_invariants",
            "stable_of_targets", "stable_history", "list_exact_soft_history", "depth_exceeded_witness",
            "create_append_frame", "create_root_append_frame", "create_w_replaces", "create_w_eq", "recreate_replaces",
            "step_wf", "run_wf", "step_lf", "run_lf", "list_exact_history"]
CHUNK = 1
FANCHUNK = 75

FA, FB, FZ = "A.cool", "B.cool", "Z.cool"     # Z is never created: the non-existent file
FILES = [FA, FB, FZ]
PATHS = ["/", "/a", "/a/b", "/c"]
# sibling names one of which is a textual prefix of the other ("/a" vs "/ab", "/a/b" vs "/a/bc"): a path test
# written with str.startswith instead of components shows only on these
PREFIX_PAIRS = [("/a", "/ab"), ("/ab", "/a"), ("/a/b", "/a/bc"), ("/a/bc", "/a/b")]
PATHS_R = PATHS + ["/ab", "/a/bc"]
# candidate paths for is_cooler: the alphabet, paths a nested copy can create, a dataset, a plain
# group inside a collection, something below a dataset
CANDS = ["/", "/a", "/a/b", "/c", "/ab", "/a/bc", "/b", "/c/b", "/c/a", "/a/b/b", "/a/bins/start", "/a/pixels", "/bins/start/x"]
FLAGS = ("d4", "d5")
FID = {"d4": "D4", "d5": "D5"}

LEVELS = {"history": "top", "fan": "top", "errclass": "unit", "parse_uri": "unit", "constants": "top"}
DESCRIBE = {
    "history": "one history of create/cp/mv/ln over two HDF5 files: after every step success/failure, list_coolers, "
               "is_cooler on all candidate paths, Cooler(uri) reads and an unrelated root attribute vs the Lean file model",
    "fan": "a prefix history reaching one model state, then EVERY operation of the alphabet applied to a copy of that "
           "state; same comparison as `history` after every step",
    "errclass": "exception class of every failing operation of the alphabet vs the model's class (unit: classes are not "
                "part of the property)",
    "parse_uri": "util.parse_cooler_uri vs Lean `parseCoolerUriStr`",
    "constants": "cooler.create.MAGIC vs the model's constant",
}
RULE = ("alphabet: files A,B x paths {/, /a, /a/b, /c} plus the prefix-sibling pairs /a~/ab, /a/b~/a/bc in file A; full = 309 ops: create(a/w at every file x path, r+ at two), "
        "cp/mv/ln/ln -s for every (src file, src path, dst file, dst path), overwrite variants; reduced = 59 ops; URIs with "
        "and without leading slash (hash-chosen per op, both forms in observations). quick: every op of the REDUCED alphabet "
        "at every model-distinct state reachable in <=1 state-changing step from I1 (A holds /a and an unrelated root "
        "attribute; B absent) and from I2 (A holds / and /a/b, B holds /c) [= all its histories of length <=2 up to "
        "model-state equality], every op of the full alphabet at I1 and, in alternate slices of 75 ops, at the states one "
        "step from I1; thorough: full alphabet to length 2 from "
        "both, reduced alphabet to length 3 from both; plus 160 / 1500 seeded random histories of 2..6 operations after 1-3 "
        "creates, steered by the model towards existing sources and away from steps without a verdict; corpus of past "
        "findings first; non-trivial = contains a copy/move/link; distinct by canonical JSON")
EXHAUSTIVE = {"quick": True, "thorough": True}
TRUSTED = ["HDF5/h5py (groups, hard/soft/external links, attributes, file modes, Group.copy) are primitives of the file model",
           "content of a collection abstracted to the value of its single pixel (and the `sum` attribute)",
           "case enumeration uses the model's state digest to visit each reachable state once (selection only, no verdict)"]
ASSUMPTIONS = [
    "a step the model marks as an unmodelled h5py corner ends the history without a verdict (counted in stats as "
    "corner:<reason>; the step is not executed, except that a step leaving an INFINITE namespace — a resolvable link "
    "to an ancestor — IS executed and existence, is_cooler and the root attribute are compared, only list_coolers and "
    "the reads being left out; cycles of links that cannot be traversed are fully compared since fix D28): (1) 'hard link below its own target (cycle)' and 'cyclic namespace' — "
    "since fix D26 the direct spellings (same-file mv/ln/ln -s with the destination equal to or under the source path) "
    "are refused with ValueError and ARE checked (regression guard); what remains without a verdict are cycles that "
    "arise only through links (ln/mv whose destination resolves, through a soft link, inside the linked group; soft "
    "links closing a loop with an earlier dangling one; external links pointing at each other's files; an external "
    "link copied into its own target file): h5py answers RecursionError / 'too many links' and the set of paths is "
    "infinite; (2) '... multiply linked group' — a group object reachable under two hard-link names is modified in "
    "place (the model duplicates hard-linked regions, which is exact as long as neither copy changes); (3) "
    "'destination parent passes through an external link / an unresolvable link / a dataset', 'source parent passes "
    "through an external link', 'source reaches the destination file through a link' — HDF5 inter-file rules; "
    "(4) 'source is not a group' (a dataset as source)",
    "links inside a collection's payload are not modelled (cooler creates none outside scool files)",
    "create at a name that is itself a link that cannot be traversed (a cycle of soft links) is refused by h5py "
    "(RuntimeError 'too many links' from create_group, nothing deleted, nothing changed) — modelled exactly "
    "(theorem create_at_untraversable_refused) and counted as dest_is_untraversable_link; the property's re-creation "
    "clause is about a path occupied by a collection",
    "h5py/HDF5 behaviours mirrored as primitives, found by probing: truncating a file that is already open fails "
    "(same-file overwrite: OSError, no effect); H5Ocopy refuses a destination path through a soft link (RuntimeError, "
    "no effect) while creating groups/links through one works; H5Ocopy of a link child copies the target object; the "
    "destination file is created/truncated before the operation is attempted, so a failing cp/mv/ln can leave an empty "
    "or emptied destination file; a root-destination copy that fails half-way keeps the children copied so far",
    "known deviations (D4, D5) are verified against the Lean variant oracle inside the check and the history continues "
    "under that variant; only the first 40 fan cases / 40 random histories hand their deviations to classify() "
    "(the runner keeps at most 200 mismatches), the rest are counted in stats as known_<id>",
]

_N = [0]


def worker_init():
    global cooler, fileops, h5py, util
    import cooler  # noqa
    import h5py  # noqa
    from cooler import fileops, util  # noqa


# ----------------------------------------------------------------------------------------------
# real side
# ----------------------------------------------------------------------------------------------

_BINS = {}


def _bins(var=False):
    if var not in _BINS:
        ends = [10, 25] if var else [10, 20]
        _BINS[var] = pd.DataFrame({"chrom": ["c0", "c0"], "start": np.array([0, ends[0]], dtype=np.int64),
                                   "end": np.array(ends, dtype=np.int64)})
    return _BINS[var]


# content ids name WHAT is stored, so that a re-created collection can be told from a fresh one by type as well:
# 500..699 = float64 counts (pixel value id + 0.25), >= 700 = variable-width bins, otherwise int32 counts, fixed bins
def _klass(c):
    return "float" if 500 <= c < 700 else ("var" if c >= 700 else "int")


# directory layout of the real files: "flat" = both in the working directory; "split" = in two different
# sub-directories, neither being the working directory (an external link must not depend on where the files are
# relative to each other or to the reader).  The model knows files by the flat names.
_LAYOUT = {"split": False}
_SPLIT = {"A.cool": "da/A.cool", "B.cool": "db/B.cool", "Z.cool": "dz/Z.cool"}


def _set_layout(case):
    _LAYOUT["split"] = case.get("layout") == "split"


def _rf(f):
    return _SPLIT.get(f, f) if _LAYOUT["split"] else f


def _real(uri):
    parts = uri.split("::")
    parts[0] = _rf(parts[0])
    return "::".join(parts)


def _do(op):
    """execute one op in the current directory -> 'ok' | ('err', class)"""
    try:
        k = op["op"]
        if k == "create":
            c = op["content"]
            kl = _klass(c)
            if kl == "float":
                px = pd.DataFrame({"bin1_id": np.array([0], dtype=np.int64), "bin2_id": np.array([1], dtype=np.int64),
                                   "count": np.array([c + 0.25], dtype=np.float64)})
                cooler.create_cooler(_real(op["uri"]), _bins(), px, dtypes={"count": np.float64}, mode=op["mode"])
            else:
                px = pd.DataFrame({"bin1_id": np.array([0], dtype=np.int64), "bin2_id": np.array([1], dtype=np.int64),
                                   "count": np.array([c], dtype=np.int32)})
                cooler.create_cooler(_real(op["uri"]), _bins(kl == "var"), px, mode=op["mode"])
        elif k == "note":
            with h5py.File(_rf(op["file"]), "a") as f:
                f.attrs["note"] = op["value"]
        elif k == "cp":
            fileops.cp(_real(op["src"]), _real(op["dst"]), overwrite=op.get("overwrite", False))
        elif k == "mv":
            fileops.mv(_real(op["src"]), _real(op["dst"]), overwrite=op.get("overwrite", False))
        elif k == "ln":
            fileops.ln(_real(op["src"]), _real(op["dst"]), soft=False, overwrite=op.get("overwrite", False))
        elif k == "lns":
            fileops.ln(_real(op["src"]), _real(op["dst"]), soft=True, overwrite=op.get("overwrite", False))
        else:
            raise AssertionError(k)
        return "ok"
    except AssertionError:
        raise
    except Exception as e:  # noqa
        return ("err", errclass(e))


def _uri(f, p, alt):
    """the same URI with (alt=False) or without (alt=True) the leading slash"""
    if p == "/":
        return f if alt else f + "::/"
    return f + "::" + (p[1:] if alt else p)


_OBS_CACHE = {}


def _observe(alt, skip=frozenset()):
    """the observation is a function of the bytes of the two files (external links name files relatively), so a
    state whose files are byte-identical to one already observed — typically after an op that failed without
    effect — is not observed again.  `skip`: files whose namespace the model says is cyclic — list_coolers and the
    reads are not attempted there (h5py recurses until RecursionError), is_cooler is."""
    key = [alt, _LAYOUT["split"], tuple(sorted(skip))]
    for f in FILES:
        try:
            with open(_rf(f), "rb") as fh:
                key.append(hashlib.md5(fh.read()).hexdigest())
        except OSError:
            key.append(None)
    key = tuple(key)
    hit = _OBS_CACHE.get(key)
    if hit is None:
        if len(_OBS_CACHE) > 4000:
            _OBS_CACHE.clear()
        hit = _OBS_CACHE[key] = json.dumps(_observe_raw(alt, skip))
    return json.loads(hit)


def _read_one(uri):
    """[content id, sum] of a collection; the id is given only if dtype, bin type and the type of `sum` are those
    of the id's class — a collection must read like a fresh creation of the same data"""
    clr = cooler.Cooler(uri)
    col = clr.pixels()[:]["count"]
    v = col.iloc[0]
    info = clr.info
    sm, bt = info["sum"], info["bin-type"]
    isfloat = col.dtype.kind == "f"
    cid = int(v)
    if isfloat and abs(float(v) - cid - 0.25) > 1e-9:
        return ["value:%r" % float(v), None]
    kl = _klass(cid)
    seen = ("float" if isfloat else "int", "variable" if bt == "variable" else "fixed")
    want = ("float" if kl == "float" else "int", "variable" if kl == "var" else "fixed")
    if seen != want:
        return ["class:%s/%s" % seen, None]
    if kl == "float":
        ok = isinstance(sm, (float, np.floating)) and abs(float(sm) - cid - 0.25) < 1e-9
    else:
        ok = isinstance(sm, (int, np.integer)) and not isinstance(sm, bool)
    s = str(int(sm)) if ok else "%r:%s" % (sm, type(sm).__name__)
    return [cid, s]


def _observe_raw(alt, skip=frozenset()):
    obs = {}
    for f in FILES:
        rf = _rf(f)
        o = {"exists": os.path.exists(rf)}
        if f in skip:
            o["list"] = "cyclic"
        else:
            try:
                o["list"] = {"ok": sorted(fileops.list_coolers(rf))}
            except Exception as e:  # noqa
                o["list"] = {"err": errclass(e)}
        isd = {}
        for i, c in enumerate(CANDS):
            try:
                isd[c] = bool(fileops.is_cooler(_uri(rf, c, alt ^ (i % 2 == 1))))
            except Exception as e:  # noqa
                isd[c] = {"err": errclass(e)}
        o["is"] = isd
        rd = {}
        if f not in skip:
            listed = o["list"].get("ok", [])
            for p in sorted(set(listed) | {c for c in CANDS if isd[c] is True}):
                try:
                    rd[p] = _read_one(_uri(rf, p, alt))
                except Exception:  # noqa
                    rd[p] = [None, None]
        o["read"] = rd
        note = None
        if o["exists"]:
            try:
                with h5py.File(rf, "r") as h:
                    note = h.attrs.get("note", None)
                    note = None if note is None else str(note)
            except Exception:  # noqa
                note = "unreadable"
        o["note"] = note
        obs[f] = o
    return obs


def _canon_obs(obs, cls):
    out = {}
    for f, o in obs.items():
        l = o["list"]
        rd = o["read"]
        if l == "cyclic":
            rd = {}                      # cyclic namespace: only existence, is_cooler and the attribute are compared
        elif isinstance(l, dict) and "ok" in l:
            l = {"ok": sorted(l["ok"])}
        elif isinstance(l, dict) and not cls:
            l = "err"
        isd = {c: (v if not isinstance(v, dict) or cls else "err") for c, v in o["is"].items()}
        out[f] = {"exists": o["exists"], "list": l, "is": isd, "read": {k: list(v) for k, v in sorted(rd.items())},
                  "note": o["note"]}
    return out


def _canon_out(oc, cls):
    if oc == "ok":
        return "ok"
    if isinstance(oc, dict):
        return ("err:" + oc["err"]) if cls else "err"
    return ("err:" + oc[1]) if cls else "err"


# ----------------------------------------------------------------------------------------------
# model side and sessions
# ----------------------------------------------------------------------------------------------

def _vdict(flags):
    return {k: (k in flags) for k in FLAGS}


def _files_of(op):
    if "src" in op:
        return op["src"].split("::")[0], op["dst"].split("::")[0]
    return None


def _applicable(op, vops):
    """known-finding signatures that may explain a deviation at this step"""
    out = set()
    hist = [o for o in vops] + [op]
    if op["op"] == "mv":
        s, d = _files_of(op)
        if s != d:
            out.add("d4")
    for o in hist:
        if o["op"] == "lns":
            s, d = _files_of(o)
            if s != d:
                out.add("d5")
    return out


COUNTS = {}          # per-case counters of noteworthy steps, merged into the case's stats


class Sess:
    def __init__(self, cls=False):
        self.vops = []       # ops done, each with the variant flags it was modelled under
        self.trace = []      # canonical observation of the implementation after each op
        self.flags = set()
        self.dev = []        # explained deviations
        self.cls = cls

    def clone(self):
        s = Sess(self.cls)
        s.vops = list(self.vops)
        s.trace = list(self.trace)
        s.flags = set(self.flags)
        s.dev = list(self.dev)
        return s

    def _model(self, op, flags):
        ops = self.vops + [dict(op, v=_vdict(flags))]
        r = drv().ask("C15.run", ops=ops, files=FILES, cands=CANDS, observe_from=len(self.vops))
        return r["steps"][-1]

    @staticmethod
    def _corner(m):
        """the model declines to describe the step (it is not executed)"""
        oc = m["outcome"]
        if isinstance(oc, dict) and "corner" in oc:
            return oc["corner"]
        return None

    @staticmethod
    def _cyclic(m):
        """files whose namespace is cyclic after the step: the step IS executed and existence, is_cooler (which must
        answer False, never raise, on the paths of the cycle) and the attribute are compared; list_coolers and reads
        are not attempted, and the history ends there"""
        return frozenset(f for f, o in m.get("obs", {}).items() if o["list"] == "cyclic")

    def _canon(self, m):
        return {"outcome": _canon_out(m["outcome"], self.cls), "obs": _canon_obs(m["obs"], self.cls)}

    def _explain(self, op, impl):
        """a known-finding variant (flags switched on from the first step whose signature they match — a deviation
        need not be observable at once: `mv` of a plain group across files shows only when the group is used
        again) under which the model agrees with EVERY observation made so far"""
        k = len(self.vops)
        hist = [_strip(o) for o in self.vops] + [op]
        act = {}                      # flag -> first step at which its signature matches while it is off
        for i in range(k + 1):
            on_i = {f for f in FLAGS if self.vops[i]["v"][f]} if i < k else self.flags
            for f in _applicable(hist[i], hist[:i]):
                if f not in on_i:
                    act.setdefault(f, i)
        cand = sorted(act)
        for r in range(1, len(cand) + 1):
            for sub in itertools.combinations(cand, r):
                first = min(act[f] for f in sub)
                vops = []
                for i in range(k + 1):
                    base = dict(self.vops[i]["v"]) if i < k else _vdict(self.flags)
                    for f in sub:
                        if i >= act[f]:
                            base[f] = True
                    vops.append(dict(hist[i], v=base))
                res = drv().ask("C15.run", ops=vops, files=FILES, cands=CANDS, observe_from=first)["steps"]
                if any(self._corner(m) for m in res[first:k]):
                    continue
                if not all(self._canon(m) == w for m, w in zip(res[first:k], self.trace[first:])):
                    continue
                why = self._corner(res[k])
                if why:
                    # under the variant that explains everything seen so far this step has no verdict
                    return ("corner", why)
                # a file whose namespace is cyclic under this variant: its listing/reads are not compared
                masked = _mask(impl, self._cyclic(res[k]))
                if self._canon(res[k]) == masked:
                    return ("ok", sub, first, vops, masked)
        return None

    def step(self, op, alt):
        """returns None (agrees, possibly under a known-finding variant), ('corner', why) or ('mismatch', detail)"""
        k = len(self.vops)
        # the model first: a step it declines to describe is not executed at all (cyclic namespaces make
        # list_coolers recurse until RecursionError, which takes seconds)
        m = self._model(op, self.flags)
        why = self._corner(m)
        if why:
            return ("corner", why)
        if op["op"] == "create" and m["outcome"] == {"err": "RuntimeError"}:
            # the target name is a link that cannot be traversed: h5py's create_group refuses, nothing changes
            COUNTS["dest_is_untraversable_link"] = COUNTS.get("dest_is_untraversable_link", 0) + 1
        cyc = self._cyclic(m)
        impl_out = _do(op)
        impl_obs = _observe(alt, cyc)
        impl = {"outcome": _canon_out(impl_out, self.cls), "obs": _canon_obs(impl_obs, self.cls)}
        mod = self._canon(m)
        if impl == mod:
            self.vops.append(dict(op, v=_vdict(self.flags)))
            self.trace.append(impl)
            return ("corner", "infinite namespace (is_cooler compared, listing not attempted)") if cyc else None
        ex = self._explain(op, impl)
        if ex is not None and ex[0] == "corner":
            return ex
        if ex is not None:
            _, sub, first, vops, impl = ex
            cyc = cyc | self._cyclic({"obs": impl["obs"]})
            self.vops = vops
            self.flags = {f for f in FLAGS if vops[-1]["v"][f]}
            self.trace.append(impl)
            self.dev.append({"ids": [FID[x] for x in sub], "step": k, "from": first, "ops": [_strip(o) for o in vops],
                             "flags": [o["v"] for o in vops], "impl_trace": self.trace[first:]})
            return ("corner", "infinite namespace (is_cooler compared, listing not attempted)") if cyc else None
        diff = _diff(impl, mod)
        return ("mismatch", {"step": k, "op": op, "diff": diff, "impl_outcome": impl_out if impl_out == "ok" else list(impl_out),
                             "model_outcome": m["outcome"], "flags_on": sorted(self.flags)})


def _strip(o):
    return {k: v for k, v in o.items() if k != "v"}


def _mask(impl, cyc):
    if not cyc:
        return impl
    out = json.loads(json.dumps(impl))
    for f in cyc:
        out["obs"][f]["list"] = "cyclic"
        out["obs"][f]["read"] = {}
    return out


def _diff(impl, mod):
    d = {}
    if impl["outcome"] != mod["outcome"]:
        d["outcome"] = {"impl": impl["outcome"], "model": mod["outcome"]}
    for f in impl["obs"]:
        for key in ("exists", "list", "is", "read", "note"):
            a, b = impl["obs"][f][key], mod["obs"][f][key]
            if a != b:
                if isinstance(a, dict) and isinstance(b, dict):
                    ks = sorted(set(a) | set(b))
                    d[f"{f}.{key}"] = {k: {"impl": a.get(k, "<absent>"), "model": b.get(k, "<absent>")} for k in ks
                                       if a.get(k, "<absent>") != b.get(k, "<absent>")}
                else:
                    d[f"{f}.{key}"] = {"impl": a, "model": b}
    return d


class Scratch:
    """a fresh directory per case; URIs name files relatively so that a state can be copied"""

    def __init__(self):
        _N[0] += 1
        self.base = os.path.join(gen.tmpdir(), f"c15-{os.getpid()}-{_N[0]}")
        self.cwd0 = os.getcwd()
        os.makedirs(self.base)
        self.n = 0

    def fresh(self, like=None):
        self.n += 1
        d = os.path.join(self.base, f"s{self.n}")
        if like is None:
            os.makedirs(d)
            for sub in ("da", "db", "dz"):
                os.makedirs(os.path.join(d, sub))
        else:
            shutil.copytree(like, d)
        return d

    def close(self):
        os.chdir(self.cwd0)
        shutil.rmtree(self.base, ignore_errors=True)
        try:                       # pool workers are terminated without atexit: leave no empty scratch directory
            os.rmdir(os.path.dirname(self.base))
        except OSError:
            pass


def _alt_of(op, k):
    return bool(op.get("alt", k % 2))


def _finish(sess, stats, report_known):
    for k, v in COUNTS.items():
        stats[k] = stats.get(k, 0) + v
    if sess:
        devs = sess
        ids = sorted({i for d in devs for i in d["ids"]})
        for i in ids:
            stats[f"known_{i}"] = stats.get(f"known_{i}", 0) + sum(1 for d in devs if i in d["ids"])
        if report_known:
            return {"mismatch": True, "known": devs[:6], "n_known": len(devs), "stats": stats}
    return {"stats": stats}


def _history(case, cls=False):
    _set_layout(case)
    COUNTS.clear()
    ops = case["ops"]
    sc = Scratch()
    stats = {"steps": 0}
    try:
        d = sc.fresh()
        os.chdir(d)
        s = Sess(cls)
        for k, op in enumerate(ops):
            r = s.step(_strip_alt(op), _alt_of(op, k))
            stats["steps"] += 1
            if r is None:
                continue
            if r[0] == "corner":
                stats["corner"] = 1
                stats["corner:" + r[1][:60]] = 1
                break
            det = r[1]
            det.update({"mismatch": True, "ops": ops[:k + 1], "explained_before": [x["ids"] for x in s.dev]})
            return det
        return _finish(s.dev, stats, case.get("rk", False))
    finally:
        sc.close()


def _strip_alt(op):
    return {k: v for k, v in op.items() if k != "alt"}


def _fan(case, cls=False):
    if "ops" in case:          # a fan case shrunk to the one failing history
        return _history(case, cls)
    _set_layout(case)
    COUNTS.clear()
    prefix = INITS[case["init"]] + case["prefix"]
    alpha = ALPHABETS[case["alphabet"]]()
    lo, hi = case.get("lo", 0), case.get("hi", len(alpha))
    sc = Scratch()
    stats = {"steps": 0, "pairs": 0}
    try:
        d = sc.fresh()
        os.chdir(d)
        s = Sess(cls)
        for k, op in enumerate(prefix):
            r = s.step(_strip_alt(op), _alt_of(op, k))
            stats["steps"] += 1
            if r is None:
                continue
            if r[0] == "corner":
                stats["corner_in_prefix"] = 1
                return {"stats": stats}
            det = r[1]
            det.update({"mismatch": True, "ops": prefix[:k + 1], "explained_before": [x["ids"] for x in s.dev]})
            return det
        devs = list(s.dev)
        k = len(prefix)
        for i, op in enumerate(alpha):
            if not lo <= i < hi:
                continue
            d2 = sc.fresh(like=d)
            os.chdir(d2)
            s2 = s.clone()
            s2.dev = []
            r = s2.step(_strip_alt(op), _alt_of(op, i + k))
            os.chdir(d)
            shutil.rmtree(d2, ignore_errors=True)
            stats["pairs"] += 1
            if r is None:
                devs += s2.dev
                continue
            if r[0] == "corner":
                stats["corner"] = stats.get("corner", 0) + 1
                key = "corner:" + r[1][:60]
                stats[key] = stats.get(key, 0) + 1
                continue
            det = r[1]
            det.update({"mismatch": True, "ops": prefix + [op], "explained_before": [x["ids"] for x in s.dev]})
            return det
        return _finish(devs, stats, case.get("rk", False))
    finally:
        sc.close()


def _errclass(case):
    return _fan(case, cls=True)


def _parse_uri(case):
    s = case["s"]
    try:
        f, g = util.parse_cooler_uri(s)
        impl = {"ok": [f, g]}
    except Exception as e:  # noqa
        impl = {"err": errclass(e)}
    m = drv().ask("C15.parse", s=s)
    m2 = {k: v for k, v in m.items() if k in ("ok", "err")}
    if impl != m2:
        return {"mismatch": True, "impl": impl, "model": m2}
    return None


def _constants(case):
    from cooler.create import MAGIC
    m = drv().ask("C15.constants")
    if MAGIC != m["MAGIC"]:
        return {"mismatch": True, "impl": MAGIC, "model": m["MAGIC"]}
    return None


CHECKS = {"history": _history, "fan": _fan, "errclass": _errclass, "parse_uri": _parse_uri, "constants": _constants}


# ----------------------------------------------------------------------------------------------
# alphabets and case generation
# ----------------------------------------------------------------------------------------------

def _h(*xs):
    return int(hashlib.md5(json.dumps(xs).encode()).hexdigest()[:8], 16)


def _mk_copy(kind, sf, sp, df, dp, ow=False):
    a1 = _h(kind, sf, sp, df, dp, ow, 1) % 2 == 1
    a2 = _h(kind, sf, sp, df, dp, ow, 2) % 2 == 1
    op = {"op": kind, "src": _uri(sf, sp, a1), "dst": _uri(df, dp, a2)}
    if ow:
        op["overwrite"] = True
    return op


def _mk_create(f, p, mode, content):
    return {"op": "create", "uri": _uri(f, p, _h(f, p, mode) % 2 == 1), "mode": mode, "content": content}


def alphabet_full():
    ops = []
    c = 20
    for f in (FA, FB):
        for p in PATHS:
            for mode in ("a", "w"):
                c += 1
                ops.append(_mk_create(f, p, mode, c))
    ops.append(_mk_create(FA, "/c", "r+", 61))
    ops.append(_mk_create(FB, "/a", "r+", 62))
    for kind in ("cp", "mv", "ln", "lns"):
        for sf in (FA, FB):
            for sp in PATHS:
                for df in (FA, FB):
                    for dp in PATHS:
                        ops.append(_mk_copy(kind, sf, sp, df, dp))
        for sf, df in ((FA, FB), (FB, FA)):
            for sp in ("/", "/a"):
                ops.append(_mk_copy(kind, sf, sp, df, "/a", True))
    ops.append(_mk_copy("cp", FA, "/a", FA, "/c", True))
    ops.append(_mk_copy("mv", FA, "/a", FA, "/c", True))
    ops.append(_mk_create(FA, "/ab", "a", 63))
    for kind in ("cp", "mv", "ln", "lns"):
        for sp, dp in PREFIX_PAIRS:
            ops.append(_mk_copy(kind, FA, sp, FA, dp))
    # re-creation with another count dtype / bin type (content classes, see _klass)
    ops += [_mk_create(FA, "/", "a", 501), _mk_create(FA, "/", "a", 701), _mk_create(FA, "/a", "a", 502),
            _mk_create(FB, "/", "a", 503), _mk_create(FA, "/", "r+", 504)]
    return ops


def alphabet_reduced():
    ops = [_mk_create(FA, "/a", "a", 71), _mk_create(FA, "/", "a", 72), _mk_create(FA, "/a/b", "a", 73),
           _mk_create(FB, "/c", "w", 74), _mk_create(FB, "/", "a", 75)]
    pairs = [(FA, "/a", FA, "/c"), (FA, "/a", FA, "/a/b"), (FA, "/", FA, "/c"), (FA, "/c", FA, "/a"),
             (FA, "/a/b", FA, "/c"), (FA, "/a", FB, "/a"), (FA, "/a", FB, "/"), (FA, "/", FB, "/a"),
             (FA, "/", FB, "/"), (FB, "/a", FA, "/c"), (FB, "/", FA, "/a/b"), (FB, "/a", FB, "/c")]
    for kind in ("cp", "mv", "ln", "lns"):
        for sf, sp, df, dp in pairs:
            ops.append(_mk_copy(kind, sf, sp, df, dp))
    ops.append(_mk_copy("cp", FA, "/a", FB, "/a", True))
    ops.append(_mk_copy("lns", FA, "/a", FB, "/a", True))
    for kind in ("mv", "ln", "lns"):
        ops.append(_mk_copy(kind, FA, "/a", FA, "/ab"))
    ops.append(_mk_copy("mv", FA, "/a/b", FA, "/a/bc"))
    ops += [_mk_create(FA, "/", "a", 505), _mk_create(FA, "/", "a", 705), _mk_create(FA, "/a/b", "a", 506)]
    return ops


ALPHABETS = {"full": alphabet_full, "reduced": alphabet_reduced}
INITS = {
    "I1": [{"op": "note", "file": FA, "value": "keep-me"}, _mk_create(FA, "/a", "a", 1)],
    "I2": [{"op": "note", "file": FA, "value": "keep-me"}, _mk_create(FA, "/", "a", 1), _mk_create(FA, "/a/b", "a", 2),
           {"op": "note", "file": FB, "value": "keep-me-too"}, _mk_create(FB, "/c", "a", 3)],
}


def _prefixes(init, alphabet, depth):
    alpha = ALPHABETS[alphabet]()
    r = drv().ask("C15.explore", init=[_strip_alt(o) for o in INITS[init]], alphabet=[_strip_alt(o) for o in alpha], depth=depth)
    return [[alpha[i] for i in p] for p in r["prefixes"]]


def _model_listing(ops):
    """(collections the model lists in A and B after `ops`, does the last step end the history?) — used only to
    steer the random generator towards existing sources and away from steps without a verdict"""
    if not ops:
        return [], False
    r = drv().ask("C15.run", ops=[_strip_alt(o) for o in ops], files=[FA, FB], cands=[], observe_from=len(ops) - 1)
    last = r["steps"][-1]
    corner = Sess._corner(last) is not None or bool(Sess._cyclic(last))
    out = []
    for f in (FA, FB):
        l = last["obs"].get(f, {}).get("list", {})
        if isinstance(l, dict) and "ok" in l:
            out += [(f, p) for p in l["ok"]]
    return out, corner


def _random_history(rng, n):
    ops = []
    if rng.random() < 0.7:
        ops.append({"op": "note", "file": FA, "value": "keep-me"})
    ops.append({"op": "create", "uri": _uri(FA, rng.choice(PATHS_R), rng.random() < 0.5), "mode": "a", "content": 1, "alt": rng.random() < 0.5})
    if rng.random() < 0.5:
        ops.append({"op": "create", "uri": _uri(rng.choice([FA, FB]), rng.choice(PATHS_R), rng.random() < 0.5), "mode": "a", "content": 2,
                    "alt": rng.random() < 0.5})
    c = 2
    for _ in range(n):
        existing, _ = _model_listing(ops)
        for attempt in range(6):
            r = rng.random()
            if r < 0.22:
                c += 1
                op = {"op": "create", "uri": _uri(rng.choice([FA, FB]), rng.choice(PATHS_R), rng.random() < 0.5),
                      "mode": rng.choice(["a", "a", "a", "w", "r+"]), "content": c, "alt": rng.random() < 0.5}
            else:
                kind = rng.choice(["cp", "cp", "mv", "mv", "ln", "lns", "lns"])
                if existing and rng.random() < 0.8:
                    sf, sp = rng.choice(existing)
                    if sp not in PATHS_R and rng.random() < 0.5:
                        sp = rng.choice(PATHS_R)
                else:
                    sf, sp = rng.choice([FA, FB]), rng.choice(PATHS_R)
                df = sf if rng.random() < 0.5 else rng.choice([FA, FB])
                dp = rng.choice(PATHS_R)
                op = {"op": kind, "src": _uri(sf, sp, rng.random() < 0.5), "dst": _uri(df, dp, rng.random() < 0.5),
                      "alt": rng.random() < 0.5}
                if rng.random() < 0.12:
                    op["overwrite"] = True
            # a step the model declines to describe would end the history: draw again (the last draw stays)
            if attempt == 5 or not _model_listing(ops + [op])[1]:
                break
        ops.append(op)
    return ops


CORPUS = [
    # D3 (fixed): is_cooler on a missing group path
    [_mk_create(FA, "/a", "a", 1)],
    # D4: mv across files
    [_mk_create(FA, "/a", "a", 1), _mk_copy("mv", FA, "/a", FB, "/c")],
    # D5: external link listed under the target's name
    [_mk_create(FA, "/a/b", "a", 1), _mk_copy("lns", FA, "/a/b", FB, "/c")],
    # D22 (fixed): links that do not resolve — is_cooler false, list_coolers walks past them
    [_mk_create(FA, "/a", "a", 1), _mk_copy("lns", FA, "/a/b", FA, "/c")],
    [_mk_create(FA, "/", "a", 1), _mk_copy("lns", FA, "/a/b", FA, "/c")],
    [_mk_create(FA, "/a", "a", 1), _mk_copy("lns", FA, "/a", FB, "/c"), _mk_create(FA, "/c", "w", 2)],
    # re-create over a group that holds a nested collection; root re-creation keeps other children and attributes
    [{"op": "note", "file": FA, "value": "keep-me"}, _mk_create(FA, "/a/b", "a", 1), _mk_create(FA, "/", "a", 2),
     _mk_create(FA, "/", "r+", 3), _mk_create(FA, "/a", "a", 4)],
    # cross-file copy to the root: partial copy when a child exists
    [_mk_create(FA, "/a", "a", 1), _mk_create(FA, "/a/b", "a", 2), _mk_create(FB, "/", "a", 3), _mk_copy("cp", FA, "/a", FB, "/")],
    # move then link, soft link then re-create target, write through a soft link
    [_mk_create(FA, "/a", "a", 1), _mk_copy("mv", FA, "/a", FA, "/c"), _mk_copy("ln", FA, "/c", FA, "/a"),
     _mk_copy("lns", FA, "/c", FA, "/a/b")],
    [_mk_create(FA, "/c", "a", 1), _mk_copy("lns", FA, "/c", FA, "/a"), _mk_create(FA, "/a/b", "a", 2), _mk_create(FA, "/c", "a", 3)],
    # D26 (fixed): a group is not moved or linked into itself — ValueError, nothing changes
    [_mk_create(FA, "/a", "a", 1), _mk_copy("mv", FA, "/a", FA, "/a/b"), _mk_copy("ln", FA, "/a", FA, "/a/c"),
     _mk_copy("lns", FA, "/a", FA, "/a/c"), _mk_copy("lns", FA, "/", FA, "/c"), _mk_copy("mv", FA, "/a", FA, "/a"),
     _mk_copy("cp", FA, "/a", FA, "/a/b")],
    [_mk_copy("mv", FB, "/", FB, "/a")],
    # sibling whose name extends the source's name is NOT "under" it: plain rename, the source goes
    [_mk_create(FA, "/a", "a", 1), _mk_copy("mv", FA, "/a", FA, "/ab")],
    [_mk_create(FA, "/a/b", "a", 1), _mk_copy("mv", FA, "/a/b", FA, "/a/bc"), _mk_copy("ln", FA, "/a/bc", FA, "/a/b"),
     _mk_copy("lns", FA, "/a", FA, "/ab")],
    # re-creation at the root in append mode with another count dtype / bin type reads like a fresh creation
    [_mk_create(FA, "/", "a", 1), _mk_create(FA, "/", "a", 501), _mk_create(FA, "/", "a", 2), _mk_create(FA, "/", "a", 701),
     _mk_create(FA, "/", "r+", 502), _mk_create(FA, "/a", "a", 503), _mk_create(FA, "/a", "a", 3)],
    # D28 (fixed): list_coolers walks past links that cannot be traversed (a link through itself, two links pointing
    # at each other) and lists the collections the file holds
    [_mk_create(FB, "/c", "a", 1), _mk_copy("lns", FB, "/a/b", FB, "/a")],
    [_mk_create(FA, "/a/b", "a", 1), _mk_copy("lns", FA, "/c", FA, "/ab"), _mk_copy("lns", FA, "/ab", FA, "/c"),
     _mk_create(FA, "/a", "a", 2)],
    # creating at a name that is a link through itself: h5py refuses (RuntimeError), nothing changes; a dangling link
    # is replaced
    [_mk_create(FB, "/c", "a", 3), _mk_copy("lns", FB, "/a/b", FB, "/a"), _mk_create(FB, "/a", "a", 31),
     _mk_copy("lns", FB, "/zz", FB, "/ab"), _mk_create(FB, "/ab", "a", 32)],
    # soft links closing a cycle (the first is created before its target exists): is_cooler answers False
    [_mk_create(FA, "/a", "a", 1), _mk_copy("lns", FA, "/a/b", FA, "/c"), _mk_copy("lns", FA, "/c", FA, "/a/b")],
    [_mk_create(FA, "/a", "a", 1), _mk_copy("lns", FA, "/c", FA, "/ab"), _mk_copy("lns", FA, "/ab", FA, "/c")],
    # overwrite truncates the destination file; same-file overwrite is refused
    [_mk_create(FA, "/a", "a", 1), _mk_create(FB, "/c", "a", 2), _mk_copy("cp", FA, "/a", FB, "/a", True),
     _mk_copy("cp", FA, "/a", FA, "/c", True)],
]

URI_STRINGS = ["f.cool", "f.cool::/", "f.cool::a", "f.cool::/a", "f.cool::a/b", "f.cool::/a/b", "f.cool::", "a::b::c", "::x",
               "/abs/path/f.cool::resolutions/1000", "f.cool::/a/", "f.cool:::a", "f::a::", "", "f.cool::a//b"]


def cases(tier, rng):
    thorough = tier == "thorough"
    yield "constants", {}
    for s in URI_STRINGS:
        yield "parse_uri", {"s": s}
    for ops in CORPUS:
        yield "history", {"ops": ops, "rk": True, "layout": "flat"}
        if any(o["op"] == "lns" and _files_of(o)[0] != _files_of(o)[1] for o in ops):
            yield "history", {"ops": ops, "rk": True, "layout": "split"}
    nlay = [0]

    def lay():
        nlay[0] += 1
        return "split" if nlay[0] % 2 else "flat"
    nrk = [0]

    def rk():
        nrk[0] += 1
        return nrk[0] <= 40
    nfull = len(alphabet_full())
    for lo in range(0, nfull, FANCHUNK):
        yield "errclass", {"init": "I1", "prefix": [], "alphabet": "full", "lo": lo, "hi": lo + FANCHUNK, "layout": lay()}
        yield "errclass", {"init": "I2", "prefix": [], "alphabet": "full", "lo": lo, "hi": lo + FANCHUNK, "layout": lay()}
    plan = [("I1", "full", 1), ("I1", "reduced", 1), ("I2", "reduced", 1)]
    if thorough:
        plan = [("I1", "full", 1), ("I2", "full", 1), ("I1", "reduced", 2), ("I2", "reduced", 2)]
    for init, alphabet, depth in plan:
        n = len(ALPHABETS[alphabet]())
        for ip, pre in enumerate(_prefixes(init, alphabet, depth)):
            for ic, lo in enumerate(range(0, n, FANCHUNK)):
                # quick: after a non-empty prefix the full alphabet is applied in alternate slices (every op at every
                # second reached state); the reduced alphabet and the initial states get every op
                if not thorough and alphabet == "full" and pre and (ip + ic) % 2:
                    continue
                yield "fan", {"init": init, "prefix": pre, "alphabet": alphabet, "lo": lo, "hi": lo + FANCHUNK, "rk": rk(),
                              "layout": lay()}
    nrk[0] = 0
    for _ in range(1500 if thorough else 160):
        yield "history", {"ops": _random_history(rng, rng.randint(2, 6)), "rk": rk(), "layout": lay()}


def nontrivial(name, case):
    if name in ("fan", "errclass"):
        return True
    if name == "history":
        return any(o["op"] in ("cp", "mv", "ln", "lns") for o in case["ops"])
    return name == "parse_uri" and "::" in case["s"]


def distribution(name, case):
    if name == "history":
        yield f"history.len={len(case['ops'])}"
    if name == "fan":
        yield f"fan.{case['init']}.{case['alphabet']}.prefixlen={len(case['prefix'])}"


def shrink(name, case):
    if name in ("fan", "errclass") and "ops" not in case:
        # the failing single history first
        r = CHECKS[name](case)
        if isinstance(r, dict) and r.get("mismatch") and "ops" in r and "known" not in r:
            yield {"ops": r["ops"], "layout": case.get("layout", "flat")}
        return
    if name not in ("history", "fan", "errclass"):
        return
    ops = case["ops"]
    for i in range(len(ops) - 1):
        yield {"ops": ops[:i] + ops[i + 1:], "layout": case.get("layout", "flat")}
    for i in range(len(ops) - 1, 0, -1):
        yield {"ops": ops[:i], "layout": case.get("layout", "flat")}
    for i, o in enumerate(ops):
        if o.get("overwrite"):
            o2 = {k: v for k, v in o.items() if k != "overwrite"}
            yield {"ops": ops[:i] + [o2] + ops[i + 1:], "layout": case.get("layout", "flat")}


def escalate(name, case, rng):
    """`errclass` (exception classes, a unit) stopped checking: is the same case also an end-to-end failure,
    i.e. does it disagree when classes are ignored?"""
    if name != "errclass":
        return None
    worker_init()
    r = _fan(case, cls=False)
    if isinstance(r, dict) and r.get("mismatch") and "known" not in r:
        c = {"ops": r["ops"], "layout": case.get("layout", "flat")} if "ops" in r else case
        return {"check": "history" if "ops" in c else "fan", "case": c, "result": r}
    return None


def classify(name, case, result, findings):
    """a deviation is a known finding only if (i) every variant flag is switched on at a step that matches the
    finding's signature (recomputed here from the case) and (ii) the implementation's observations, from that step to
    the deviating one, equal the Lean model's under exactly that variant"""
    if name not in ("history", "fan") or not isinstance(result, dict) or "known" not in result or not result["known"]:
        return None
    ids = {f["id"] for f in findings}
    first = None
    for d in result["known"]:
        ops, flags, k, j = d["ops"], d["flags"], d["step"], d["from"]
        if len(ops) != k + 1 or len(flags) != k + 1 or not set(d["ids"]) <= ids:
            return None
        # (i) signature
        prev = set()
        for i in range(k + 1):
            on = {x for x in FLAGS if flags[i][x]}
            if not on <= prev | _applicable(ops[i], ops[:i]):
                return None
            prev = on
        # (ii) variant oracle
        r = drv().ask("C15.run", ops=[dict(o, v=v) for o, v in zip(ops, flags)], files=FILES, cands=CANDS, observe_from=j)
        got = [{"outcome": _canon_out(m["outcome"], False), "obs": _canon_obs(m["obs"], False)} for m in r["steps"][j:]]
        if json.dumps(got, sort_keys=True) != json.dumps(d["impl_trace"], sort_keys=True):
            return None
        first = first or d["ids"][0]
    return first
