"""C18 — renaming chromosomes changes names only."""
from __future__ import annotations

import hashlib
import itertools
import json
import os
import shutil

import numpy as np
import pandas as pd

from harness import gen
from harness.common import drv, errclass

PID = "C18"
THEOREMS = ["rename_names", "rename_data_unchanged", "rename_labels", "rename_observe", "rename_valid",
            "rename_width_fits", "rename_enc", "rename_plain", "rename_handle_fresh", "rename_lookup",
            "rename_lookup_unrenamed", "rename_lookup_stale", "renamed_away_not_new", "rename_compose",
            "rename_compose_plain", "rename_compose_observe", "chain_observe", "chain_valid"]
LEVELS = {"rename": "top", "layout": "unit"}
DESCRIBE = {
    "rename": "cooler.rename_chroms(clr, map) applied step by step to one Cooler object vs Lean `renameOnObject`/`observe`/"
              "`extent` (= `Obs.relabel`, theorems rename_observe, rename_lookup, rename_lookup_stale, chain_observe): "
              "chromnames, chromsizes, chroms()[:], bins()[:] labels/starts/ends, extent and matrix fetch by every "
              "current and stale name on the same object and on a reopened one; raw pixels/*, indexes/*, bins/start, "
              "bins/end, bin codes, chroms/length and every root attribute against the untouched originals",
    "layout": "raw layout written by _rename_chroms vs Lean `renameChroms`: chroms/name wide enough for every name "
              "(NamesFit), enum header = names numbered 0,1,2.. in table order (or plain ints when HDF5 refused the header)",
}
RULE = ("stores with 1..4 chromosomes (fixed and variable bins, with/without an extra bin column) x EVERY partial map of the "
        "chromosomes into (their own names + a pool of 4 short/long/numeric names; quick tier: 3 pool names for 3 chromosomes, "
        "2 for 4 chromosomes, integer encoding on a third of the 4-chromosome maps) whose result is duplicate-free, incl. swaps "
        "and identity entries, x enum and integer encodings; plus seeded random chains of 2..3 renamings, maps with keys that "
        "are not chromosomes, and the >64 KiB enum-header fallback; non-trivial = at least one chromosome changes its name; "
        "distinct by canonical JSON")
EXHAUSTIVE = {"quick": True, "thorough": True}
TRUSTED = ["h5py/HDF5 dataset create/delete, fixed-width string dtype, enum dtype and its header-size limit (parameter `fits`)",
           "pandas Index.rename(dict), Categorical.from_codes; numpy array(dtype='S') item size",
           "the index-based read path (matrix selector given a bin range) is C03's subject; here it is only required to "
           "return the same data for the bin range the model resolves the new name to"]
ASSUMPTIONS = ["names are ASCII, non-empty, without ':' and surrounding blanks",
               "the result of every renaming is duplicate-free (renaming onto a name that stays in use is out of the domain)",
               "collection written by cooler.create (ValidStore)"]

POOL = ["x", "2", "chrUn_KI270442v1.random-long_name_0123456789_ABCDEFGHIJ", "c10"]
GHOST = "nonesuch"


def worker_init():
    global cooler, h5py
    import cooler  # noqa
    import h5py  # noqa


# ----------------------------------------------------------------------------------------------
# stores
# ----------------------------------------------------------------------------------------------

LENGTHS = [25, 10, 31, 7]


def make_store(n, layout, extra_col=False, names=None):
    names = names or [f"c{k}" if k != 1 else "chrB" for k in range(n)]
    bins = []
    for c in range(n):
        L = LENGTHS[c]
        if layout == "fixed":
            bins += [[c, s, min(s + 10, L)] for s in range(0, L, 10)]
        else:
            ws = [[7, 11, 7], [10], [1, 2, 20, 8], [3, 4]][c]
            bins += gen.chrom_bins(c, ws)
    nb = len(bins)
    px = []
    for i in range(nb):
        for j in range(i, nb):
            if (i * 7 + j * 3) % 4 != 1:
                px.append([i, j, 1 + (i * 5 + j) % 9])
    return {"names": names, "bins": bins, "pixels": px, "extra_col": bool(extra_col)}


_TEMPLATES = {}


def _template(store):
    key = hashlib.md5(json.dumps(store, sort_keys=True).encode()).hexdigest()
    p = _TEMPLATES.get((os.getpid(), key))
    if p and os.path.exists(p):
        return p
    p = os.path.join(gen.tmpdir(), f"c18-tpl-{os.getpid()}-{key}.cool")
    names = store["names"]
    b = store["bins"]
    df = pd.DataFrame({"chrom": [names[x[0]] for x in b],
                       "start": np.array([x[1] for x in b], dtype=np.int64),
                       "end": np.array([x[2] for x in b], dtype=np.int64)})
    if store.get("extra_col"):
        df["weight"] = np.array([0.5 + (k % 3) for k in range(len(b))], dtype=float)
    px = store["pixels"]
    pdf = pd.DataFrame({"bin1_id": np.array([x[0] for x in px], dtype=np.int64),
                        "bin2_id": np.array([x[1] for x in px], dtype=np.int64),
                        "count": np.array([x[2] for x in px], dtype=np.int32)})
    cooler.create_cooler(p, df, pdf, metadata={"note": "c18", "k": [1, 2]}, assembly="asm1")
    _TEMPLATES[(os.getpid(), key)] = p
    return p


def _to_int_encoding(path):
    with h5py.File(path, "r+") as f:
        codes = np.asarray(f["bins/chrom"][:], dtype=np.int32)
        del f["bins/chrom"]
        d = f["bins"].create_dataset("chrom", data=codes, dtype=np.int32)
        d.attrs["enum_path"] = "/chroms/name"


# ----------------------------------------------------------------------------------------------
# observation of the implementation
# ----------------------------------------------------------------------------------------------

def _blob(d):
    a = d[()]
    return f"{d.dtype.str}|{d.shape}|{hashlib.sha1(np.ascontiguousarray(a).tobytes()).hexdigest()}"


def _attr_blob(v):
    if isinstance(v, (str, bytes)):
        return "s:" + (v.decode() if isinstance(v, bytes) else v)
    a = np.asarray(v)
    return f"{a.dtype.str}:{a.tolist()}"


def snap(path):
    """raw state of the file, in the vocabulary of the Lean `RStore`"""
    with h5py.File(path, "r") as f:
        nm = f["chroms/name"]
        names = [x.decode("ascii") if isinstance(x, bytes) else str(x) for x in nm[:]]
        ch = f["bins/chrom"]
        en = h5py.check_dtype(enum=ch.dtype)
        enc = None if en is None else [[k, int(v)] for k, v in sorted(en.items(), key=lambda kv: (kv[1], kv[0]))]
        bs = f.attrs.get("bin-size")
        binsize = None if isinstance(bs, (str, bytes)) else int(bs)
        extra = []
        for g in ("chroms", "bins"):
            for k in sorted(f[g].keys()):
                if (g, k) not in (("chroms", "name"), ("chroms", "length"), ("bins", "chrom"), ("bins", "start"), ("bins", "end")):
                    extra.append([f"{g}/{k}", _blob(f[g][k])])
        others = sorted(set(f.keys()) - {"chroms", "bins", "pixels", "indexes"})
        extra += [["/" + k, "present"] for k in others]
        extra += [["indexes/" + k, _blob(f["indexes"][k])] for k in sorted(f["indexes"].keys())
                  if k not in ("chrom_offset", "bin1_offset")]
        return {
            "names": names,
            "name_width": int(nm.dtype.itemsize) if nm.dtype.kind == "S" else 10 ** 9,
            "lengths": [int(x) for x in f["chroms/length"][:]],
            "enc": enc,
            "codes": [int(x) for x in np.asarray(ch[:])],
            "starts": [int(x) for x in f["bins/start"][:]],
            "ends": [int(x) for x in f["bins/end"][:]],
            "chrom_offset": [int(x) for x in f["indexes/chrom_offset"][:]],
            "binsize": binsize,
            "pixels": [[k, _blob(f["pixels"][k])] for k in sorted(f["pixels"].keys())],
            "bin1_offset": _blob(f["indexes/bin1_offset"]),
            "attrs": [[k, _attr_blob(f.attrs[k])] for k in sorted(f.attrs.keys())],
            "extra": extra,
        }


def _lookup(clr, probe):
    n, a, b = probe
    try:
        lo, hi = clr.extent((n, a, b))
        return [int(lo), int(hi)]
    except Exception:  # noqa  the class of the error is not fixed by the property
        return None


def _lookup_str(clr, n):
    try:
        lo, hi = clr.extent(n)
        return [int(lo), int(hi)]
    except Exception:  # noqa
        return None


def observe_obj(clr, probes, M0, whole):
    """everything name-related a user can read from this Cooler object"""
    out = {}

    def put(keys, f):
        # an exception of the implementation while reading an in-domain store is an observation, not a harness fault
        try:
            vals = f()
        except Exception as e:  # noqa
            vals = [{"raised": errclass(e)}] * len(keys)
        out.update(zip(keys, vals))

    def _sizes():
        cs = clr.chromsizes
        return [[str(x) for x in clr.chromnames], [[str(k), int(v)] for k, v in zip(cs.index, cs.values)]]

    def _bins():
        df = clr.bins()[:]
        return [[None if pd.isna(x) else str(x) for x in df["chrom"]], [int(x) for x in df["start"]],
                [int(x) for x in df["end"]]]

    def _chroms():
        ct = clr.chroms()[:]
        return [[[str(k), int(v)] for k, v in zip(ct["name"], ct["length"])]]

    put(["chromnames", "chromsizes"], _sizes)
    put(["labels", "starts", "ends"], _bins)
    put(["chroms_table"], _chroms)
    out["extents"] = [_lookup(clr, p) for p in probes]
    out["extents_str"] = [_lookup_str(clr, p[0]) for p in probes if p[1] is None and p[2] is None]
    # matrix queries by name: compared with the index-based original through the model's bin range
    sel = clr.matrix(balance=False)
    fetch = []
    for n in whole:
        try:
            m = sel.fetch(n)
            fetch.append([n, "ok", hashlib.sha1(np.ascontiguousarray(m).tobytes()).hexdigest(), list(m.shape)])
        except Exception:  # noqa
            fetch.append([n, "err", None, None])
    out["fetch"] = fetch
    pair = []
    for n1, n2 in [(whole[i], whole[(i + 1) % len(whole)]) for i in range(0, min(len(whole), 8), 2)]:
        try:
            m = sel.fetch(n1, n2)
            pair.append([n1, n2, "ok", hashlib.sha1(np.ascontiguousarray(m).tobytes()).hexdigest()])
        except Exception:  # noqa
            pair.append([n1, n2, "err", None])
    out["fetch2"] = pair
    return out


def _probe_names(store, maps):
    seen = list(store["names"])
    for m in maps:
        for k, v in m.items():
            for x in (k, v):
                if x not in seen:
                    seen.append(x)
    if GHOST not in seen:
        seen.append(GHOST)
    return seen


def run_impl(case):
    """apply the chain to a fresh copy; returns (snap0, M0, per-step observations)"""
    store, maps = case["store"], case["maps"]
    tpl = _template(store)
    work = os.path.join(gen.tmpdir(), f"c18-work-{os.getpid()}.cool")
    shutil.copyfile(tpl, work)
    try:
        if case["enc"] == "int":
            _to_int_encoding(work)
        whole = _probe_names(store, maps)
        probes = [[n, None, None] for n in whole] + [[n, 3, 9] for n in whole]
        clr = cooler.Cooler(work)
        s0 = snap(work)
        M0 = clr.matrix(balance=False)[:]
        steps = []
        # the property's domain is decided by the model: stop before a renaming whose result has duplicates
        pre = drv().ask("C18.chain", store=s0, maps=[[[k, v] for k, v in m.items()] for m in maps],
                        fits=[True] * len(maps), probes=[])
        ok = 0
        for stp in pre["steps"]:
            if not stp["injective"]:
                break
            ok += 1
        for m in maps[:ok]:
            try:
                cooler.rename_chroms(clr, dict(m))
            except Exception as e:  # noqa  in-domain renaming must succeed
                steps.append({"raised": errclass(e)})
                break
            same = observe_obj(clr, probes, M0, whole)
            try:
                re = observe_obj(cooler.Cooler(work), probes, M0, whole)
            except Exception as e:  # noqa
                re = {"raised": errclass(e)}
            try:
                raw = snap(work)
            except Exception as e:  # noqa
                steps.append({"raised": "file unreadable after renaming: " + errclass(e)})
                break
            steps.append({"same": same, "reopened": re, "raw": raw})
        return s0, M0, probes, whole, steps
    finally:
        if os.path.exists(work):
            os.unlink(work)


def _ask(case, s0, probes, steps):
    fits = []
    was_enum = s0["enc"] is not None
    for st in steps:
        if "raised" in st:
            fits.append(True)
            continue
        now_enum = st["raw"]["enc"] is not None
        fits.append(bool(now_enum) if was_enum else True)
        was_enum = now_enum
    maps = [[[k, v] for k, v in m.items()] for m in case["maps"][:len(steps)]]
    return drv().ask("C18.chain", store=s0, maps=maps, fits=fits, probes=probes)


def _mat_hash(M0, r1, r2=None):
    r2 = r2 or r1
    m = M0[r1[0]:r1[1], r2[0]:r2[1]]
    return hashlib.sha1(np.ascontiguousarray(m).tobytes()).hexdigest()


def _ext(j):
    return j["ok"] if "ok" in j else None


def _rename(case):
    s0, M0, probes, whole, steps = run_impl(case)
    m = _ask(case, s0, probes, steps)
    if not (m["valid0"] and m["injective0"]):
        raise AssertionError("harness store is not a ValidStore with distinct names")
    nwhole = len(whole)
    if len(steps) < len(case["maps"]) and not steps:
        return {"stats": {"out_of_domain_duplicate_names": 1}}
    for k, (st, ms) in enumerate(zip(steps, m["steps"])):
        if not ms["injective"]:
            raise AssertionError("domain prefix computed inconsistently")
        # L1 = L0 inside Lean (theorems rename_observe / chain_observe / rename_compose_observe / rename_lookup)
        if ms["obs"] != ms["spec_obs"] or ms["obs"] != ms["composed_obs"] or not ms["handle_fresh"] or not ms["valid"]:
            raise AssertionError("L1 != L0: observe(renameChain) differs from Obs.relabel / composed map")
        if ms["extents"] != ms["spec_extents"]:
            raise AssertionError("L1 != L0: extent after renaming differs from the old name's extent")
        o = ms["obs"]
        mext = [_ext(j) for j in ms["extents"]]
        if "raised" in st:
            return {"mismatch": True, "step": k, "what": "rename_chroms raised on an in-domain map", "impl": st["raised"]}
        for which in ("same", "reopened"):
            im = st[which]
            if "raised" in im:
                return {"mismatch": True, "step": k, "object": which, "what": "Cooler(path) raised after renaming", "impl": im["raised"]}
            diffs = {}
            exp = {"chromnames": ms["handle_chromnames"] if which == "same" else o["chromnames"],
                   "chromsizes": ms["handle_chromsizes"] if which == "same" else o["chromsizes"],
                   "chroms_table": [[a, b] for a, b in zip(ms["names"], ms["lengths"])],
                   "labels": o["labels"], "starts": o["starts"], "ends": o["ends"],
                   "extents": mext, "extents_str": mext[:nwhole]}
            for key, want in exp.items():
                if im[key] != want:
                    diffs[key] = {"impl": _short(im[key]), "model": _short(want)}
            # matrix by name = the original matrix over the bin range the model resolves the name to
            for (n, status, h, shape), e in zip(im["fetch"], mext[:nwhole]):
                if e is None:
                    if status != "err":
                        diffs.setdefault("fetch", []).append({"name": _short(n), "impl": "returned data", "model": "name not found"})
                elif status != "ok" or h != _mat_hash(M0, e):
                    diffs.setdefault("fetch", []).append({"name": _short(n), "impl": status, "model_extent": e})
            ext_of = dict(zip(whole, mext[:nwhole]))
            for n1, n2, status, h in im["fetch2"]:
                e1, e2 = ext_of[n1], ext_of[n2]
                if e1 is None or e2 is None:
                    if status != "err":
                        diffs.setdefault("fetch2", []).append({"names": [_short(n1), _short(n2)], "impl": "returned data"})
                elif status != "ok" or h != _mat_hash(M0, e1, e2):
                    diffs.setdefault("fetch2", []).append({"names": [_short(n1), _short(n2)], "impl": status})
            if diffs:
                return {"mismatch": True, "step": k, "object": which, "diffs": diffs}
        raw = st["raw"]
        diffs = {}
        for key, want in (("names", ms["names"]), ("lengths", ms["lengths"]), ("codes", o["codes"]),
                          ("starts", o["starts"]), ("ends", o["ends"]), ("chrom_offset", o["chrom_offset"]),
                          ("binsize", o["binsize"]), ("pixels", o["pixels"]), ("bin1_offset", o["bin1_offset"]),
                          ("attrs", o["attrs"]), ("extra", o["extra"])):
            if raw[key] != want:
                diffs[key] = {"impl": _short(raw[key]), "model": _short(want)}
        if diffs:
            return {"mismatch": True, "step": k, "object": "raw file", "diffs": diffs}
    return None


def _short(x):
    s = json.dumps(x, default=str)
    return x if len(s) <= 600 else s[:300] + " … " + s[-200:]


def _layout(case):
    s0, M0, probes, whole, steps = run_impl(case)
    m = _ask(case, s0, probes, steps)
    for k, (st, ms) in enumerate(zip(steps, m["steps"])):
        if not ms["injective"]:
            return {"stats": {"out_of_domain_duplicate_names": 1}}
        if "raised" in st:
            return {"mismatch": True, "step": k, "what": "rename_chroms raised on an in-domain map", "impl": st["raised"]}
        raw = st["raw"]
        longest = max(len(n) for n in ms["names"])
        if raw["name_width"] < longest:  # NamesFit on the real file
            return {"mismatch": True, "step": k, "what": "chroms/name too narrow", "impl_width": raw["name_width"], "longest": longest}
        if raw["enc"] != ms["enc"]:
            return {"mismatch": True, "step": k, "what": "bins/chrom enum header", "impl": _short(raw["enc"]), "model": _short(ms["enc"])}
        if raw["codes"] != ms["obs"]["codes"]:
            return {"mismatch": True, "step": k, "what": "bins/chrom codes", "impl": raw["codes"], "model": ms["obs"]["codes"]}
    fell = sum(1 for a, b in zip([s0] + [s["raw"] for s in steps], steps) if a["enc"] is not None and b["raw"]["enc"] is None)
    return {"stats": {"enum_fallback_to_int": fell, "width_equals_model": int(all(
        st["raw"]["name_width"] == ms["name_width"] for st, ms in zip(steps, m["steps"])))}}


CHECKS = {"rename": _rename, "layout": _layout}


# ----------------------------------------------------------------------------------------------
# cases
# ----------------------------------------------------------------------------------------------

def all_maps(names, pool):
    """every partial map names -> (names + pool) whose result has no duplicate"""
    targets = list(names) + [p for p in pool if p not in names]
    for choice in itertools.product([None] + targets, repeat=len(names)):
        res = [c if c is not None else n for n, c in zip(names, choice)]
        if len(set(res)) != len(res):
            continue
        yield {n: c for n, c in zip(names, choice) if c is not None}


def random_map(rng, names, universe):
    for _ in range(50):
        m = {}
        for n in names:
            r = rng.random()
            if r < 0.45:
                continue
            m[n] = rng.choice(universe)
        res = [m.get(n, n) for n in names]
        if len(set(res)) == len(res):
            return m
    return {}


def cases(tier, rng):
    thorough = tier == "thorough"
    # corpus: swap, 3-cycle, long name, chain that returns, fallback to plain ints
    s3 = make_store(3, "var")
    big = "L" * 70000
    corpus = [
        (s3, [{"c0": "chrB", "chrB": "c0"}]),
        (s3, [{"c0": "chrB", "chrB": "c2", "c2": "c0"}]),
        (s3, [{"c2": POOL[2]}, {POOL[2]: "c2"}]),
        (s3, [{"c0": "x"}, {"x": "c0", "chrB": "x"}, {"x": "chrB"}]),
        (make_store(2, "fixed"), [{"c0": big}, {big: "c0", "chrB": "x"}]),
        (make_store(3, "var", True), [{"chrB": big, "c0": "chrB"}]),
    ]
    for store, maps in corpus:
        for enc in ("enum", "int"):
            yield "rename", {"store": store, "enc": enc, "maps": maps}
            yield "layout", {"store": store, "enc": enc, "maps": maps}
    # exhaustive single maps
    k = 0
    for n in (1, 2, 3, 4):
        layouts = ["fixed", "var"] if (n <= 3 or thorough) else ["var"]
        pool = POOL if n <= 3 else POOL[:3]
        if not thorough:
            pool = {1: POOL, 2: POOL, 3: POOL[:3], 4: POOL[1:3]}[n]  # quick tier: smaller name pools for 3 and 4 chromosomes
        for li, layout in enumerate(layouts):
            store = make_store(n, layout, extra_col=(n + li) % 2 == 0)
            for m in all_maps(store["names"], pool):
                for enc in ("enum", "int"):
                    if not thorough and enc == "int" and ((n == 4 and k % 3) or (n == 3 and layout == "var" and k % 2)):
                        k += 1  # quick tier: the integer encoding on a third / half of the larger enumerations
                        continue
                    k += 1
                    yield "rename", {"store": store, "enc": enc, "maps": [m]}
                    if k % 8 == 0:
                        yield "layout", {"store": store, "enc": enc, "maps": [m]}
    # exhaustive chains of two on two chromosomes
    store = make_store(2, "var")
    firsts = list(all_maps(store["names"], POOL[:2]))
    for m1 in firsts:
        cur = [m1.get(n, n) for n in store["names"]]
        for m2 in all_maps(cur, [x for x in store["names"] + POOL[:2] if x not in cur][:2]):
            yield "rename", {"store": store, "enc": "enum" if (len(m1) + len(m2)) % 2 else "int", "maps": [m1, m2]}
    # seeded chains
    for i in range(2500 if thorough else 250):
        n = rng.randint(1, 4)
        store = make_store(n, rng.choice(["fixed", "var"]), extra_col=rng.random() < 0.3)
        universe = store["names"] + POOL + [GHOST + "2", "y" * rng.randint(1, 300)]
        cur = list(store["names"])
        maps = []
        for _ in range(rng.randint(2, 3)):
            m = random_map(rng, cur, universe)
            prev = cur
            cur = [m.get(x, x) for x in cur]
            if rng.random() < 0.25:  # a key that is not a chromosome: ignored by the code and by the model
                ghost = rng.choice([g for g in universe + ["ghostkey"] if g not in cur and g not in prev])
                m = dict(m)
                m[ghost] = rng.choice(universe)
            maps.append(m)
        enc = rng.choice(["enum", "int"])
        yield "rename", {"store": store, "enc": enc, "maps": maps}
        if i % 4 == 0:
            yield "layout", {"store": store, "enc": enc, "maps": maps}


def nontrivial(name, case):
    cur = list(case["store"]["names"])
    for m in case["maps"]:
        if any(m.get(x, x) != x for x in cur):
            return True
        cur = [m.get(x, x) for x in cur]
    return False


def distribution(name, case):
    yield f"nchroms={len(case['store']['names'])}"
    yield f"enc={case['enc']}"
    yield f"chain={len(case['maps'])}"
    cur = list(case["store"]["names"])
    for m in case["maps"]:
        if any(m.get(x, x) in cur and m.get(x, x) != x for x in cur):
            yield "reuses_a_current_name(swap/cycle)"
            break
        cur = [m.get(x, x) for x in cur]
    if any(len(v) > 8 for m in case["maps"] for v in m.values()):
        yield "longer_name"


def shrink(name, case):
    maps = case["maps"]
    if len(maps) > 1:
        yield dict(case, maps=maps[:-1])
        yield dict(case, maps=maps[1:])
    for i, m in enumerate(maps):
        for k in list(m):
            m2 = {a: b for a, b in m.items() if a != k}
            yield dict(case, maps=maps[:i] + [m2] + maps[i + 1:])
    st = case["store"]
    if st.get("extra_col"):
        yield dict(case, store=dict(st, extra_col=False))


def escalate(name, case, rng):
    """`layout` stopped checking: look for a renaming of the same store whose observable result is wrong"""
    if name != "layout":
        return None
    worker_init()
    store = case["store"]
    cand = itertools.chain([case["maps"]], ([m] for m in all_maps(store["names"], POOL[:3])))
    for maps in cand:
        for enc in ("enum", "int"):
            c = {"store": store, "enc": enc, "maps": maps}
            r = _rename(c)
            if r and r.get("mismatch"):
                return {"check": "rename", "case": c, "result": r}
    return None
