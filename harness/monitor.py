"""Raw-HDF5 schema monitor (property C02): dump a stored collection with h5py only and let the Lean
predicate `schemaViolations` (the conclusion of theorem C02.create_valid) judge it."""
from __future__ import annotations

import h5py
import numpy as np

from harness.common import drv


def dump_raw(file_path, group="/"):
    """everything the schema predicate looks at, read WITHOUT cooler's API"""
    with h5py.File(file_path, "r") as f:
        g = f[group]
        chrom = g["bins/chrom"]
        codes = np.asarray(chrom[:]).astype(np.int64).tolist()
        b1 = g["pixels/bin1_id"][:]
        b2 = g["pixels/bin2_id"][:]
        cnt = g["pixels/count"][:] if "count" in g["pixels"] else np.zeros(len(b1), dtype=np.int64)
        m = min(len(b1), len(b2), len(cnt))
        float_counts = cnt.dtype.kind == "f"
        attrs = dict(g.attrs)
        # float value columns: exact when every value (and the sum) is a multiple of 1/4096; otherwise the sum clause is skipped
        SC = 4096 if float_counts else 1
        exact = True
        if float_counts:
            exact = bool(np.all(np.isfinite(cnt[:m])) and np.all(cnt[:m] * SC == np.round(cnt[:m] * SC))
                         and float(attrs.get("sum", 0)) * SC == round(float(attrs.get("sum", 0)) * SC))
        d = {
            "nbins": len(codes),
            "nchroms": int(len(g["chroms/name"])),
            "symm": str(attrs.get("storage-mode", "symmetric-upper")) == "symmetric-upper",
            "bin_chrom": codes,
            "pixels": [[int(a), int(b), (int(c) if not float_counts else (int(round(float(c) * SC)) if exact else 0))]
                       for a, b, c in zip(b1[:m], b2[:m], cnt[:m])],
            "len1": int(len(b1)), "len2": int(len(b2)), "lenv": int(len(cnt)),
            "bin1_offset": [int(x) for x in g["indexes/bin1_offset"][:]],
            "chrom_offset": [int(x) for x in g["indexes/chrom_offset"][:]],
            "nnz": int(attrs["nnz"]), "nbins_attr": int(attrs["nbins"]), "nchroms_attr": int(attrs["nchroms"]),
            "sum": (int(round(float(attrs["sum"]) * SC)) if exact else 0) if "sum" in attrs else 0,
        }
        extra = {
            "bin-type": attrs.get("bin-type"), "bin-size": attrs.get("bin-size"),
            "starts": [int(x) for x in g["bins/start"][:]], "ends": [int(x) for x in g["bins/end"][:]],
            "chrom_lengths": [int(x) for x in g["chroms/length"][:]],
            "other_pixel_cols": {k: int(len(g["pixels"][k])) for k in g["pixels"] if k not in ("bin1_id", "bin2_id", "count")},
            "float_counts": float_counts, "float_exact": exact,
            "min_id": int(min(b1.min(initial=0), b2.min(initial=0))) if len(b1) else 0,
        }
    return d, extra


_BINQ = {}      # last answers of the two pure bin-table questions, keyed by their arguments (one entry each)


def _ask_bins(op, bins, **kw):
    """`drv().ask(op, bins=bins, **kw)`; the answer of the Lean function for the SAME arguments is reused (several collections
    over one big bin table: the table is marshalled and judged once)"""
    key = (op, hash(tuple(map(tuple, bins))), len(bins), tuple(sorted(kw.items())))
    hit = _BINQ.get(op)
    if hit is not None and hit[0] == key and hit[1] == bins:
        return hit[2]
    ans = drv().ask(op, bins=bins, **kw)
    _BINQ[op] = (key, bins, ans)
    return ans


def violations(file_path, group="/"):
    """list of violated schema clauses (strings); empty = valid"""
    d, extra = dump_raw(file_path, group)
    out = []
    if extra["min_id"] < 0:
        return ["negative bin id"]
    out += drv().ask("C02.validate", **d)["violations"]
    for k, n in extra["other_pixel_cols"].items():
        if n != d["nnz"]:
            out.append(f"pixel column {k} has length {n} != nnz")
    # bin type / size and chromosome lengths agree with the stored bin table (Lean: getBinsize, getChromsizes)
    bins = [[c, s, e] for c, s, e in zip(d["bin_chrom"], extra["starts"], extra["ends"])]
    if bins:
        info = _ask_bins("C20.bininfo", bins)
        bs = info["binsize"]
        bt, bsz = extra["bin-type"], extra["bin-size"]
        bsz = None if bsz in ("null", None) else int(bsz)
        if info["valid"]:
            if (bt == "fixed") != (bsz is not None):
                out.append("bin-type and bin-size attributes disagree")
            if bsz is not None:
                if not _ask_bins("C20.uniform", bins, b=bsz)["uniform"]:
                    out.append(f"bin-size attribute {bsz} is not true of the stored bin table")
            elif bs is not None and bt != "variable":
                out.append("bin-type attribute")
            want = sorted(info["chromsizes"])
            got = sorted([c, L] for c, L in enumerate(extra["chrom_lengths"]) if any(b[0] == c for b in bins))
            if want != got:
                out.append(f"chroms/length {got} are not the ends of the last bins {want}")
    return out
