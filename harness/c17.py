"""C17 — every cell of a single-cell file reads back as the matrix given for it."""
from __future__ import annotations

import itertools
import math
import os

import numpy as np
import pandas as pd

from harness import gen
from harness.common import drv, errclass

PID = "C17"
THEOREMS = ["scool_cell_reads", "scool_bins_shared", "scool_extra_cols_per_cell", "scool_listing",
            "createScool_rep", "appendCells_spec", "dom_of_domB", "readPixels_mkColl", "readBins_mkColl",
            "readExtras_mkColl"]
LEVELS = {"scool": "top"}
DESCRIBE = {
    "scool": "cooler.create_scool(path, bins, {name: pixels}) then, for every cell, Cooler(path::/cells/name).pixels()[:], "
             ".bins()[:] (main and further columns), .info; is_scool_file, list_scool_cells, list_coolers (as sets); HDF5 "
             "object identity of every group/dataset (which paths are the same object) vs Lean `createScool`, `readPixels`, "
             "`readBins`, `readExtras`, `isScoolFile`, `listScoolCells`, object ids (theorems scool_cell_reads, "
             "scool_bins_shared, scool_extra_cols_per_cell, scool_listing)",
}
RULE = ("every assignment of 4 different pixel tables (one empty) to 1..3 cells x both input forms (one common bin table / "
        "dict of per-cell tables with cell-specific further columns); plus seeded files with 1..5 cells named from a pool "
        "(digits, dots, dashes, blanks, colons, long, non-ASCII, natural-vs-lexicographic order clashes), 1..3 chromosomes, "
        "fixed and variable bins, symmetric-upper and square storage, per-cell dict given in a different key order; "
        "non-trivial = at least two cells with different pixel tables; distinct by canonical JSON")
EXHAUSTIVE = {"quick": True, "thorough": True}
TRUSTED = ["h5py/HDF5 groups, hard links (`grp[name] = obj`), object addresses, attributes; `File(path, 'w')` starts empty",
           "pandas/NumPy marshalling of the tables; Python `sorted` on str = code-point order",
           "the per-cell write path `create()` (pixel validation, CSR index) is C01/C02/C13's subject: here only its result is read back"]
ASSUMPTIONS = ["cell names: distinct, non-empty, no '/', not '.', no '::' (a cooler URI must be able to address the cell)",
               "per-cell bin tables have the common chrom/start/end columns and exactly the pixel dictionary's keys",
               "pixel tables are valid for create(): sorted, in range, no duplicates, upper triangular when symmetric-upper",
               "at least one cell; a new file (mode='w')"]

NAME_POOL = ["cell2", "cell10", "cell1", "1", "10", "2", "007", "7", "a.b", "a-b", "a b", " lead", "trail ", "A", "a",
             "cell_2", "cell.10", "..", "a:b", "célula", "x" * 200, "cells", "bins", "GM12878-rep1.cell_0042", "%s", "0"]


def worker_init():
    global cooler, h5py, fileops
    import cooler  # noqa
    import h5py  # noqa
    from cooler import fileops  # noqa


# ----------------------------------------------------------------------------------------------
# marshalling
# ----------------------------------------------------------------------------------------------

def _rep(kind, v):
    if kind == "i":
        return str(int(v))
    v = float("nan") if v is None else float(v)
    return "nan" if math.isnan(v) else repr(v)


def _col(kind, vals):
    if kind == "i":
        return np.array([int(v) for v in vals], dtype=np.int64)
    return np.array([float("nan") if v is None else float(v) for v in vals], dtype=np.float64)


def _bins_df(rows, extras, order=None):
    df = pd.DataFrame({"chrom": [r[0] for r in rows],
                       "start": np.array([r[1] for r in rows], dtype=np.int64),
                       "end": np.array([r[2] for r in rows], dtype=np.int64)})
    for name, kind, vals in extras:
        df[name] = _col(kind, vals)
    if order is not None:
        # columns are named: their ORDER in the frame is presentation only (extra columns before / among chrom,start,end)
        import random
        cols = list(df.columns)
        random.Random(order).shuffle(cols)
        df = df[cols]
    return df


def _px_df(px):
    return pd.DataFrame({"bin1_id": np.array([p[0] for p in px], dtype=np.int64),
                         "bin2_id": np.array([p[1] for p in px], dtype=np.int64),
                         "count": np.array([p[2] for p in px], dtype=np.int32)})


def _table_json(rows, extras):
    return {"rows": rows, "extras": [[n, [_rep(k, v) for v in vals]] for n, k, vals in extras]}


def _series_rep(s):
    if s.dtype.kind in "iu":
        return [str(int(v)) for v in s]
    if s.dtype.kind == "f":
        return [_rep("f", v) for v in s]
    return [str(v) for v in s]


# ----------------------------------------------------------------------------------------------
# the check
# ----------------------------------------------------------------------------------------------

def _model(case):
    if case["form"] == "common":
        bins = _table_json(case["rows"], case.get("common_extras", []))
    else:
        bins = [[name, _table_json(case["rows"], ex)] for name, ex in case["percell"]]
    return drv().ask("C17.create", form=case["form"], symm=case["symm"], bins=bins,
                     cells=[[n, px] for n, px in case["cells"]])


def _observe(path, names, model_paths, scale=1):
    out = {}
    try:
        out["is_scool"] = bool(fileops.is_scool_file(path))
    except Exception as e:  # noqa
        out["is_scool"] = {"raised": errclass(e)}
    for key, fn in (("listing", fileops.list_scool_cells), ("list_coolers", fileops.list_coolers)):
        try:
            out[key] = sorted(str(x) for x in fn(path))
        except Exception as e:  # noqa
            out[key] = {"raised": errclass(e)}
    cells = []
    for name in names:
        try:
            c = cooler.Cooler(f"{path}::/cells/{name}")
            px = c.pixels()[:]
            bt = c.bins()[:]
            info = c.info
            extras = sorted([str(col), _series_rep(bt[col])] for col in bt.columns if col not in ("chrom", "start", "end"))
            cells.append({
                "name": name,
                "pixels": [[int(a), int(b), (int(v * scale) if float(v * scale) == int(v * scale) else float(v * scale))]
                           for a, b, v in zip(px["bin1_id"], px["bin2_id"], px["count"])],
                "count_dtype": str(px["count"].dtype),
                "bins": [[None if pd.isna(ch) else str(ch), int(s), int(e)] for ch, s, e in zip(bt["chrom"], bt["start"], bt["end"])],
                "extras": extras,
                "info": {k: ((v.item() if hasattr(v, "item") else v) * (scale if k == "sum" else 1)) if k == "sum"
                         else (v.item() if hasattr(v, "item") else v) for k, v in info.items()},
            })
        except Exception as e:  # noqa  an in-domain cell must be readable
            cells.append({"name": name, "raised": errclass(e)})
    out["cells"] = cells
    with h5py.File(path, "r") as f:
        addr = {}
        for p in model_paths:
            try:
                addr[p] = int(h5py.h5o.get_info(f[p].id).addr)
            except Exception:  # noqa
                addr[p] = None
        out["addr"] = addr
        out["root_attrs"] = {k: (v.item() if hasattr(v, "item") else v) for k, v in f.attrs.items()}
    return out


def _partition(pairs):
    groups = {}
    for p, i in pairs:
        groups.setdefault(i, []).append(p)
    return sorted(sorted(g) for g in groups.values())


def _attr_eq(impl, model):
    if model == "null":
        return impl in (None, "null")
    return impl == model


def _scool(case):
    m = _model(case)
    if "err" in m or not m["domain"]:
        if m.get("domain"):
            raise AssertionError("model rejects an in-domain input")
        return {"stats": {"out_of_domain": 1}}
    names = [n for n, _ in case["cells"]]
    given_px = {n: px for n, px in case["cells"]}
    if case["form"] == "common":
        given_ex = {n: case.get("common_extras", []) for n in names}
    else:
        given_ex = dict((n, ex) for n, ex in case["percell"])
    # L1 = L0 inside Lean: theorems scool_cell_reads / scool_extra_cols_per_cell / scool_listing
    for mc in m["cells"]:
        n = mc["name"]
        want_ex = sorted([c, [_rep(k, v) for v in vals]] for c, k, vals in given_ex[n])
        if mc["pixels"] != given_px[n] or mc["bins"] != m["common_bins"] or sorted(mc["extras"]) != want_ex:
            raise AssertionError(f"L1 != L0 for cell {n!r}")
    if not m["is_scool"] or sorted(m["listing"]) != sorted(m["spec_listing"]):
        raise AssertionError("L1 != L0 for the listing")

    path = os.path.join(gen.tmpdir(), f"c17-{os.getpid()}.scool")
    try:
        if case["form"] == "common":
            bins = _bins_df(case["rows"], case.get("common_extras", []), case.get("col_order"))
        else:
            bins = {name: _bins_df(case["rows"], ex, None if case.get("col_order") is None else case["col_order"] + k)
                    for k, (name, ex) in enumerate(case["percell"])}
        cells = {n: _px_df(px) for n, px in case["cells"]}
        kw = {}
        if case.get("quarter"):
            # the count column given as float64 holding count/4 and requested as float64 (the integer model answers: x4)
            for df in cells.values():
                df["count"] = df["count"].astype(np.float64) / 4.0
            kw["dtypes"] = {"count": "float64"}
        try:
            cooler.create_scool(path, bins, cells, symmetric_upper=case["symm"], **kw)
        except Exception as e:  # noqa
            return {"mismatch": True, "what": "create_scool raised on an in-domain input", "impl": errclass(e), "msg": str(e)[:200]}
        model_paths = [p for p, _ in m["objects"]]
        im = _observe(path, names, model_paths, 4 if case.get("quarter") else 1)
    finally:
        if os.path.exists(path):
            os.unlink(path)

    diffs = {}
    if im["is_scool"] is not True:
        diffs["is_scool_file"] = {"impl": im["is_scool"], "model": True}
    want_listing = sorted(m["listing"])
    if im["listing"] != want_listing:
        diffs["list_scool_cells"] = {"impl": im["listing"], "model": want_listing}
    if im["list_coolers"] != want_listing:
        diffs["list_coolers"] = {"impl": im["list_coolers"], "model": want_listing}
    for ic, mc in zip(im["cells"], m["cells"]):
        d = {}
        if "raised" in ic:
            d["open/read"] = {"impl": "raised " + ic["raised"]}
        else:
            if ic["pixels"] != mc["pixels"]:
                d["pixels"] = {"impl": ic["pixels"], "model": mc["pixels"]}
            if ic["count_dtype"] != ("float64" if case.get("quarter") else "int32"):
                d["count_dtype"] = {"impl": ic["count_dtype"], "requested": "float64" if case.get("quarter") else "int32 (default)"}
            if ic["bins"] != mc["bins"]:
                d["bins"] = {"impl": ic["bins"], "model": mc["bins"]}
            if ic["extras"] != sorted(mc["extras"]):
                d["extra_columns"] = {"impl": ic["extras"], "model": sorted(mc["extras"])}
            bad = {k: {"impl": ic["info"].get(k, "<absent>"), "model": v} for k, v in mc["info"].items()
                   if k not in ic["info"] or not _attr_eq(ic["info"][k], v)}
            if bad:
                d["info"] = bad
        if d:
            diffs.setdefault("cells", {})[mc["name"]] = d
    bad = {k: {"impl": im["root_attrs"].get(k, "<absent>"), "model": v} for k, v in m["root_attrs"].items()
           if k not in im["root_attrs"] or not _attr_eq(im["root_attrs"][k], v)}
    if bad:
        diffs["root_attrs"] = bad
    missing = [p for p, a in im["addr"].items() if a is None]
    if missing:
        diffs["missing_objects"] = missing
    else:
        pi = _partition((p, im["addr"][p]) for p in im["addr"])
        pm = _partition(m["objects"])
        if pi != pm:
            only_i = [g for g in pi if g not in pm]
            only_m = [g for g in pm if g not in pi]
            diffs["object_identity"] = {"impl_groups_of_identical_objects": only_i[:6], "model": only_m[:6]}
    if diffs:
        return {"mismatch": True, "diffs": diffs}
    shared = sum(1 for g in _partition(m["objects"]) if len(g) > 1)
    return {"stats": {"cells": len(names), "empty_cells": sum(1 for n in names if not given_px[n]),
                      "shared_object_groups": shared}}


CHECKS = {"scool": _scool}


# ----------------------------------------------------------------------------------------------
# cases
# ----------------------------------------------------------------------------------------------

TABLES = [
    [["a", 0, 10], ["a", 10, 15], ["b", 0, 8]],
    [["chr1", 0, 5], ["chr1", 5, 10], ["chr1", 10, 12], ["chr2", 0, 5], ["chr2", 5, 7], ["chrX", 0, 3]],
    [["c", 0, 7], ["c", 7, 9], ["c", 9, 30], ["c", 30, 31]],
    [["s1", 0, 4], ["s2", 0, 4], ["s3", 0, 4], ["s4", 0, 1], ["s5", 0, 4]],
]


def random_pixels(rng, n, symm, density=None):
    density = rng.choice([0.1, 0.3, 0.6, 1.0]) if density is None else density
    out = []
    for i in range(n):
        for j in range(i if symm else 0, n):
            if rng.random() < density:
                out.append([i, j, rng.randint(1, 50)])
    return out


def cell_extras(rng, n, k):
    """further bin columns whose values depend on the cell (index k), so that a mix-up shows"""
    out = []
    for name, kind in rng.sample([("weight", "f"), ("mask", "i"), ("KR", "f")], rng.randint(0, 2)):
        if kind == "i":
            vals = [(b * 3 + k) % 5 for b in range(n)]
        else:
            vals = [None if (b + k) % 4 == 3 else round(0.25 * (b + 1) + k, 3) for b in range(n)]
        out.append([name, kind, vals])
    return out


def cases(tier, rng):
    thorough = tier == "thorough"
    rows = TABLES[0]
    fam = [[], [[0, 0, 1]], [[0, 1, 2], [2, 2, 3]], [[0, 0, 4], [0, 1, 5], [0, 2, 6], [1, 1, 7], [1, 2, 8], [2, 2, 9]]]
    names3 = ["cell2", "cell10", "cell1"]
    # every assignment of the four tables to 1..3 cells, both forms
    for m in (1, 2, 3):
        for pick in itertools.product(range(4), repeat=m):
            cells = [[names3[k], fam[t]] for k, t in enumerate(pick)]
            yield "scool", {"form": "common", "symm": True, "rows": rows, "common_extras": [], "cells": cells}
            percell = [[names3[k], [["weight", "f", [k + 0.5, k + 1.5, None]]] + ([["mask", "i", [k, 0, 1]]] if k % 2 else [])]
                       for k in range(m)]
            yield "scool", {"form": "percell", "symm": True, "rows": rows, "percell": percell[::-1], "cells": cells}
    # extra columns placed before / among chrom, start, end in the given frames (seeded change C17-5)
    for od in (1, 2, 3, 4):
        yield "scool", {"form": "percell", "symm": True, "rows": rows, "col_order": od,
                        "percell": [["a", [["weight", "f", [0.5, 1.5, None]]]], ["b", [["weight", "f", [2.5, None, 1.0]], ["mask", "i", [1, 0, 1]]]]],
                        "cells": [["a", fam[2]], ["b", fam[3]]]}
    # a common table that itself has further columns (kept at the root and written per cell as well)
    yield "scool", {"form": "common", "symm": True, "rows": rows,
                    "common_extras": [["weight", "f", [1.0, None, 0.5]], ["mask", "i", [1, 0, 1]]],
                    "cells": [["b", fam[2]], ["a", fam[1]], ["c", []]]}
    for i in range(6000 if thorough else 700):
        rows = rng.choice(TABLES)
        n = len(rows)
        symm = rng.random() < 0.8
        m = rng.choice([1, 2, 2, 3, 3, 4, 5])
        names = rng.sample(NAME_POOL, m)
        cells = []
        for k, name in enumerate(names):
            px = [] if rng.random() < 0.2 else random_pixels(rng, n, symm)
            cells.append([name, px])
        form = rng.choice(["common", "percell"])
        case = {"form": form, "symm": symm, "rows": rows, "cells": cells}
        if form == "common":
            case["common_extras"] = cell_extras(rng, n, 0) if rng.random() < 0.4 else []
        else:
            pc = [[name, cell_extras(rng, n, k + 1)] for k, name in enumerate(names)]
            rng.shuffle(pc)  # the bins dict need not be in the order of the pixel dict
            case["percell"] = pc
        if i % 3 == 2:
            case["col_order"] = rng.randrange(10 ** 6)   # the bin frame's columns in a shuffled order
        if i % 4 == 1:
            case["quarter"] = True                       # float64 count column (count/4), requested as float64
        yield "scool", case


def nontrivial(name, case):
    tabs = {gen_key(px) for _, px in case["cells"]}
    return len(tabs) >= 2


def gen_key(px):
    return tuple(map(tuple, px))


def distribution(name, case):
    yield f"cells={len(case['cells'])}"
    yield f"form={case['form']}"
    yield "symmetric-upper" if case["symm"] else "square"
    if any(not px for _, px in case["cells"]):
        yield "has_empty_cell"
    ns = [n for n, _ in case["cells"]]
    if sorted(ns) != _natsorted(ns):
        yield "natural_order_differs_from_lexicographic"


def _natsorted(ns):
    """only used to label the distribution of cases (never as an oracle)"""
    import re
    return sorted(ns, key=lambda s: tuple((0, int(x), "") if x.isdigit() else (1, 0, x)
                                          for x in re.split(r"(\d+)", s) if x))


def shrink(name, case):
    cells = case["cells"]
    if len(cells) > 1:
        for i in range(len(cells)):
            c2 = cells[:i] + cells[i + 1:]
            new = dict(case, cells=c2)
            if case["form"] == "percell":
                keep = {n for n, _ in c2}
                new["percell"] = [pc for pc in case["percell"] if pc[0] in keep]
            yield new
    for i, (n, px) in enumerate(cells):
        if len(px) > 1:
            yield dict(case, cells=cells[:i] + [[n, px[:len(px) // 2]]] + cells[i + 1:])
    if case["form"] == "percell":
        for i, (n, ex) in enumerate(case["percell"]):
            if ex:
                yield dict(case, percell=case["percell"][:i] + [[n, ex[:-1]]] + case["percell"][i + 1:])
    elif case.get("common_extras"):
        yield dict(case, common_extras=case["common_extras"][:-1])
