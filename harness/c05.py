"""C05 — each valid input record is counted once, in the pixel that contains it."""
from __future__ import annotations

import itertools
import os

import numpy as np
import pandas as pd

from harness import gen
from harness.common import drv, errclass, guarded, impl, run_check

PID = "C05"
THEOREMS = ["binAssign_var_correct", "binAssign_fixed_correct", "assign_eq_binOf", "binOf_sound",
            "assign_le_of_lex", "sanitize_count_once", "aggregated_eq_spec", "sanitize_reflect_upper",
            "sanitize_order_independent", "sanitize_one_based", "sanitize_rejects_outside_partial",
            "sanitize_rejects_outside_fails", "sanitizeWith_sim", "groupCells_perm", "groupCells_sorted",
            "countAt_groupCells", "totalCount_groupCells", "mem_groupCells_keys", "countAt_groupFirst",
            "sumAt_groupFirst", "groupFirst_keysNodup", "groupFirst_perm_groupCells", "aggregateRecords_sort_irrelevant",
            "groupFirst_keys",
            "pixels_count_once", "pixels_reflect_upper", "tableOK_of_valid", "rows_flatMap_eq", "tabix_correct",
            "hiclib_chunks_cover", "hiclib_eq_spec", "hiclib_chunksize_independent", "hiclib_rejects_lower",
            "hiclib_rejects_unsorted", "hiclib_drops_unlisted", "hiclib_drops_unlisted_full", "hiclib_rejects_outside",
            "hiclib_rejects_outside_full", "hiclib_rowlabels_irrelevant", "hiclibLegacy_accepts_outside",
            "hiclibLegacy_counts_unlisted", "hiclibLegacy_rowlabels_matter", "aggLoop_eq_seq", "parts_sep",
            "groupCells_blocks", "absBin_eq_assignVar", "runs_nodup_iff", "procChunk_rejects", "binEnd_total"]
LEVELS = {"records_top": "top", "records_atlength": "top", "records_sequence": "top", "records_unit": "unit", "pixels_top": "top", "pixels_unit": "unit",
          "aggregate_unit": "unit", "cli_pairs": "top", "cli_load": "top", "cli_tabix": "top", "constants": "unit",
          "hiclib": "top", "hiclib_outside": "top", "hiclib_rowlabels": "top", "hiclib_chunks": "unit"}
DESCRIBE = {
    "records_top": "sanitize_records(bins, schema=pairs|bg2, ...)(chunk) then aggregate_records()(…), chunks merged, vs Lean "
                   "L0 `specCounts` (binOf, one unit per retained record): ok/rejected status, number of retained rows, pixel table",
    "records_atlength": "the comparison of records_top on inputs that contain a record exactly at its chromosome's length (the signature "
                        "of known finding D13); under its own name so that the expected known-finding cases never compete with "
                        "anything else for the runner's per-check mismatch budget",
    "records_sequence": "the comparison of records_top for several bin tables over the same chromosome names and lengths (two variable-width, "
                        "one fixed-width) sanitised one after the other in one process, each outcome against the specification for "
                        "its own table",
    "records_unit": "exact output frame of sanitize_records per chunk (bin ids per record, swapped sided fields, error class) vs "
                    "Lean L1 `sanitizeRecords` (model of the code as it is)",
    "pixels_top": "sanitize_pixels(bins, ...)(chunk) aggregated vs Lean L0 `specPixels` (shifted, oriented id pair)",
    "pixels_unit": "exact output frame of sanitize_pixels vs Lean L1 `sanitizePixels`",
    "aggregate_unit": "aggregate_records(sort, agg={value: sum})(rows) vs Lean `aggregateRecords` (sorted: exact order; unsorted: as a set of rows)",
    "cli_pairs": "`cooler cload pairs` (CliRunner) on a text file (field order, header, chunksize, -0, duplex, -N): pixel table of the "
                 "created cooler vs Lean L0 `specCounts` of the whole file",
    "cli_load": "`cooler load -f coo|bg2` (CliRunner): pixel table of the created cooler vs Lean L0 (`specPixels`/`specCounts`, value sums; "
                "ids outside the table and duplicate pixels within a chunk are rejected as `create` documents)",
    "cli_tabix": "`cooler cload tabix` on a bgzipped, pysam.tabix_index-ed file of in-range upper-triangular records vs Lean L0 `specCounts`",
    "constants": "cooler.create._ingest.SANITIZE_PRESETS vs the defaults the model's options stand for",
    "hiclib": "list(HDF5Aggregator(h5pairs, chromsizes, bins, chunksize)) on an HDF5 pairs group built with h5py, chunks concatenated, "
              "for EVERY listed chunksize, vs Lean L0 `hiclibSpec` (= `specCounts`: one unit per read pair in the pixel of its two "
              "anchors; a lower-triangle pair or an id heading two runs of chrms1 is a ValueError); the same file through "
              "create_cooler(..., ordered=True) and through `cooler cload hiclib` (CliRunner), pixel table, nnz and sum read back",
    "hiclib_outside": "the comparison of `hiclib` on files holding a cut outside its chromosome (-1, L, L+1) or a chromosome id that is "
                      "not in the table (-1, n, n+1, -(n+1), -(n+2)): the specification rejects / drops, and so must the loader "
                      "(fixes D29, D30; theorems hiclib_rejects_outside, hiclib_drops_unlisted)",
    "hiclib_rowlabels": "the comparison of `hiclib` with the SAME bin table handed to HDF5Aggregator as a frame whose rows are labelled "
                        "differently (restarting per chromosome, reversed, offset, all equal): labels are presentation, the specification "
                        "does not see them and neither may the loader (fix D31; theorem hiclib_rowlabels_irrelevant)",
    "hiclib_chunks": "the (lo, hi) of every chunk the REAL `aggregate` loop loads (observed by wrapping `_load_chunk`) vs the Lean contract "
                     "`chunksOK`: consecutive non-empty ranges covering the records exactly, no bin1 shared by two chunks "
                     "(what `hiclib_eq_spec` needs of the loop; the boundaries themselves are a free choice)",
}
RULE = ("bin tables: uniform (exact and short last bin), variable width, longer last bin, one-bin chromosomes, 2-3 chromosomes with "
        "length <= 8 (quick) / <= 12 (thorough), plus seeded random segmentations, plus (thorough) EVERY segmentation of two "
        "chromosomes of length <= 4; single records: EVERY (c1,p1,c2,p2) with c in the "
        "table's chromosomes or unknown and p in -1..L+2, x zero/one-based x tril_action in {reflect,drop,raise,None}; seeded multisets of "
        "<= 8 records (positions on bin edges, 0, L-1, L, L+1, -1, unknown chromosomes, both orientations, duplicates) in several "
        "permutations and chunkings, with sided/unsided extra columns, sort on/off, validate on/off (unit), decode_chroms on/off, "
        "pairs and bg2 presets; the chromosome columns of the record frames in several equally valid forms (object, str, "
        "categorical with categories in table / sorted / reversed / rotated order, with unused extra categories, with only the "
        "names that occur); call sequences over tables sharing chromosome names and lengths; pre-binned records likewise over ids -1..n+1; a sample end to end through the CLI; "
        "non-trivial = a non-empty batch of records on a table with >= 2 bins; distinct by canonical JSON; "
        "hiclib: the tables above plus three-chromosome tables with a one-bin chromosome; read pairs = EVERY upper-triangular pair of "
        "edge anchors (every bin start, every bin end - 1, hence 0 and L-1) of the table, the same restricted to one first chromosome "
        "(chromosomes without records), seeded multisets of <= 8 pairs with duplicates, each under EVERY chunksize 1..n+1; seeded files "
        "of 30-160 pairs on random segmentations under chunksizes 1, 2, n-1, n, n+1 and three random ones; int32/uint16 datasets; "
        "each well-formed file with one pair mirrored into the lower triangle at the first / a middle / the last position; files whose "
        "chrms1 column has an id in two runs; a slice through create_cooler and the command line; hiclib_outside: each of these tables "
        "with one pair whose first / second cut is L, L+1 or -1, or whose first / second id is -1, n, n+1, -(n+1), -(n+2), alone and "
        "inside a well-formed file; hiclib_rowlabels: the well-formed files with the bin-table frame's rows relabelled (restart per "
        "chromosome, reversed, offset, constant); the main hiclib checks hand over pandas' default row labels, as the command line does")
EXHAUSTIVE = {"quick": True, "thorough": True}
TRUSTED = ["pandas Categorical codes (unknown -> -1), boolean masking, groupby(...).aggregate (sorted keys / order of appearance), "
           "sort_values (a sorted permutation), read_csv(usecols=, names=) and numpy searchsorted/floor division are primitives of the model",
           "pysam/tabix fetch(chrom, start, end) returns the records whose position lies in the zero-based half-open interval",
           "`create`'s treatment of the sanitised stream (merge of chunks = per-pixel sums, boundscheck, dupcheck) belongs to C06/C13 and is "
           "used here only to read the CLI's result back",
           "hiclib: h5py dataset indexing (`ds[i]`, `ds[lo:hi]`), `bisect.bisect_left` on a sorted dataset (= lo + number of cuts below "
           "the probe), `rlencode` (maximal runs), numpy fancy indexing of the chrom_abspos / chrom_binoffset tables (negative ids wrap "
           "around, ids past the end raise IndexError), `searchsorted(side='right')`, float `floor(cut / binsize)` = integer floor "
           "division, and `groupby([bin1_id, bin2_id]).count()` (sorted keys, group sizes) are primitives of the model"]
ASSUMPTIONS = ["bin tables are valid segmentations (validSegmentationB evaluated by Lean on every table used); chromosome ids in records "
               "are `some c` only for chromosomes of the table", "positions and bin ids are exact integers (no int64 overflow)",
               "tabix check: in-range, upper-triangular files only (the aggregator neither validates nor mirrors; see DESIGN C05 Partial)",
               "hiclib: a record whose first side is on a table chromosome at a cut OUTSIDE it and whose second side is on an unlisted id "
               "is rejected by the loader (first cuts are validated before anything is dropped) where `specCounts` would drop it: the "
               "property does not fix this input, it is not generated (Lean: `ListedOK.first` excludes it, an `example` shows it)",
               "hiclib: chunksize >= 1; every chromosome of the chromsizes table has at least one bin; the theorems take the file sorted by "
               "(chrms1, cuts1) (the loader's documented precondition) — files sorted only within chromosome blocks, or with unsorted cuts "
               "inside a chromosome, are outside the theorems and are not generated"]
CHUNK = 2

TRILS = ["reflect", "drop", "raise", None]


def worker_init():
    global cooler, sanitize_records, sanitize_pixels, aggregate_records, ingest
    import cooler  # noqa
    from cooler.create import aggregate_records, sanitize_pixels, sanitize_records  # noqa
    from cooler.create import _ingest as ingest  # noqa
    import logging
    logging.disable(logging.CRITICAL)


# ---------------------------------------------------------------------------------------------
# marshalling
# ---------------------------------------------------------------------------------------------

def _cname(c):
    return gen.chromname(c) if c is not None else "cX"


def _cols(schema, nx, nu):
    """column names: anchor base, extra paired bases, unpaired names"""
    if schema == "bg2":
        return "start", (["end"] + [f"x{chr(97 + k)}" for k in range(1, nx)])[:nx], (["count"] + [f"u{k}" for k in range(1, nu)])[:nu]
    return "pos", [f"x{chr(97 + k)}" for k in range(nx)], (["val"] + [f"u{k}" for k in range(1, nu)])[:nu]


def _shape(batches):
    for b in batches:
        for ch in b:
            for r in ch:
                return len(r[4]), len(r[6])
    return 0, 0


CHROM_FORMS = ["infer", "object", "str", "cat-table", "cat-sorted", "cat-reversed", "cat-rotated", "cat-extra", "cat-data"]


def _nchroms(bins):
    return (max(b[0] for b in bins) + 1) if bins else 0


def _chrom_columns(v1, v2, form, nchroms):
    """the two chromosome-name columns in one of several equally valid FORMS; the outcome must not depend on the form.
    Categorical forms share one dtype between the two columns (so that mirrored values can be exchanged) and always list
    every name that occurs (a name missing from the categories would be NaN, i.e. a different input)."""
    if form == "infer":          # a numpy object array, dtype left to the DataFrame constructor
        return np.array(v1, dtype=object), np.array(v2, dtype=object)
    if form == "object":
        return pd.Series(v1, dtype=object), pd.Series(v2, dtype=object)
    if form == "str":
        try:
            return pd.Series(v1, dtype="str"), pd.Series(v2, dtype="str")
        except TypeError:         # pandas without the str dtype
            return pd.Series(v1, dtype="string"), pd.Series(v2, dtype="string")
    table = [gen.chromname(c) for c in range(nchroms)]
    unlisted = sorted((set(v1) | set(v2)) - set(table))
    if form == "cat-table":       # categories in bin-table order
        cats = table + unlisted
    elif form == "cat-sorted":    # what astype("category") of a column holding every name gives
        cats = sorted(table + unlisted)
    elif form == "cat-reversed":
        cats = table[::-1] + unlisted
    elif form == "cat-rotated":
        cats = table[1:] + table[:1] + unlisted
    elif form == "cat-extra":     # unused categories before, between and after
        cats = ["unplaced_0"] + table[::2] + ["chrUn_1"] + table[1::2] + unlisted + ["zz_unused"]
    elif form == "cat-data":      # astype("category") of the data themselves: only the names that occur, sorted
        cats = sorted(set(v1) | set(v2))
    else:
        raise AssertionError(f"unknown chromosome column form {form!r}")
    dt = pd.CategoricalDtype(cats)
    return pd.Series(v1, dtype=object).astype(dt), pd.Series(v2, dtype=object).astype(dt)


def _chunk_df(recs, schema, nx, nu, decode=True, form="infer", nchroms=0):
    anchor, xs, us = _cols(schema, nx, nu)
    d = {}
    if decode:
        d["chrom1"], d["chrom2"] = _chrom_columns([_cname(r[0]) for r in recs], [_cname(r[2]) for r in recs], form, nchroms)
    for side, (ci, pi, xi) in (("1", (0, 1, 4)), ("2", (2, 3, 5))):
        if not decode:
            d["chrom" + side] = np.array([(-1 if r[ci] is None else r[ci]) for r in recs], dtype=np.int64)
        d[anchor + side] = np.array([r[pi] for r in recs], dtype=np.int64)
        for k, nm in enumerate(xs):
            d[nm + side] = np.array([r[xi][k] for r in recs], dtype=np.int64)
    # column order as the text formats have it: side 1 columns, side 2 columns, values
    cols = ["chrom1"] + [c for c in d if c.endswith("1") and c != "chrom1"] + ["chrom2"] + [c for c in d if c.endswith("2") and c != "chrom2"]
    for k, nm in enumerate(us):
        d[nm] = np.array([r[6][k] for r in recs], dtype=np.int64)
        cols.append(nm)
    return pd.DataFrame(d, columns=cols)


def _cid(x):
    if isinstance(x, str):
        return gen.chromid(x)
    return int(x)


def _frame_rows(out, schema, nx, nu):
    anchor, xs, us = _cols(schema, nx, nu)
    rows = []
    n = len(out)
    col = {c: out[c].tolist() for c in out.columns}
    for i in range(n):
        rows.append([_cid(col["chrom1"][i]), int(col[anchor + "1"][i]), _cid(col["chrom2"][i]), int(col[anchor + "2"][i]),
                     [int(col[nm + "1"][i]) for nm in xs], [int(col[nm + "2"][i]) for nm in xs],
                     [int(col[nm][i]) for nm in us], int(col["bin1_id"][i]), int(col["bin2_id"][i])])
    return rows


def _sanitizer(bins, opts, nx):
    schema = opts.get("schema", "pairs")
    anchor, xs, _ = _cols(schema, nx, 0)
    sided = []
    if opts.get("sided_chrom", True):
        sided.append("chrom")
    if opts.get("sided_anchor", True):
        sided.append(anchor)
    se = opts.get("sided_extra", [])
    for k, nm in enumerate(xs):
        if k < len(se) and se[k]:
            sided.append(nm)
    kw = dict(is_one_based=bool(opts.get("one_based", False)), tril_action=opts.get("tril"),
              validate=bool(opts.get("validate", True)), sort=bool(opts.get("sort", False)),
              sided_fields=tuple(sided), decode_chroms=bool(opts.get("decode", True)))
    return impl(sanitize_records, gen.bins_df(bins), schema=schema, **kw)


def _lean_opts(opts):
    return {"one_based": bool(opts.get("one_based", False)), "tril": opts.get("tril") or "none",
            "validate": bool(opts.get("validate", True)), "sort": bool(opts.get("sort", False)),
            "sided_chrom": bool(opts.get("sided_chrom", True)), "sided_anchor": bool(opts.get("sided_anchor", True)),
            "sided_extra": list(opts.get("sided_extra", []))}


def _agg_cells(out, valcol):
    """aggregate_records on a sanitised frame -> [[bin1, bin2, n, sum]] in the order returned"""
    if valcol == "count":  # aggregate_records keeps a user-supplied "count" aggregate INSTEAD of the record count
        out = out.rename(columns={"count": "val"})
        valcol = "val"
    agg = {valcol: "sum"} if valcol else {}
    a = impl(aggregate_records(sort=True, count=True, agg=agg), out)
    cells = []
    for i in range(len(a)):
        cells.append([int(a["bin1_id"].iloc[i]), int(a["bin2_id"].iloc[i]), int(a["count"].iloc[i]),
                      int(a[valcol].iloc[i]) if valcol else 0])
    return cells


def _check_l1_l0(ans, opts):
    if not ans["valid"]:
        raise AssertionError("generator produced an invalid segmentation")
    if opts.get("validate", True) and (opts.get("tril") in TRILS) and not ans["at_len"]:
        assert ans["l1_whole"] == ans["l0"], "L1 != L0 away from D13: theorem aggregated_eq_spec contradicted"
    if "ok" in ans["l1_whole"]:
        assert ans["l1"] == ans["l1_whole"], "chunked L1 != whole L1: theorem sanitize_order_independent/groupCells contradicted"
    else:
        assert "err" in ans["l1"]


# ---------------------------------------------------------------------------------------------
# sanitize_records
# ---------------------------------------------------------------------------------------------

def _records_top(case, f=None):
    bins, opts, batches = case["bins"], case["opts"], case["batches"]
    nx, nu = _shape(batches)
    schema = opts.get("schema", "pairs")
    _, _, us = _cols(schema, nx, nu)
    valcol = us[0] if nu else None
    form, nch = opts.get("chrom_form", "infer"), _nchroms(bins)
    f = f or _sanitizer(bins, opts, nx)
    answers = drv().ask("C05.sanitize_batch", bins=bins, opts=_lean_opts(opts), batches=batches)
    nret = nrej = nd13 = 0
    first_d13 = None
    for bi, (batch, ans) in enumerate(zip(batches, answers)):
        _check_l1_l0(ans, opts)
        cells, err, nrows = [], None, 0
        for ch in batch:
            st, out = guarded(f, _chunk_df(ch, schema, nx, nu, opts.get("decode", True), form, nch))
            if st == "err":
                err = out
                break
            nrows += len(out)
            cells += _agg_cells(out, valcol)
        if err is not None:
            got = {"err": err}
        else:
            merged = drv().ask("C05.regroup", cells=cells) if len(batch) != 1 else cells
            got = {"ok": merged}
        want = ans["l0"]
        bad = None
        if ("ok" in got) != ("ok" in want):
            bad = "accepted/rejected status differs from the specification"
        elif "ok" in got:
            if nrows != ans["n_retained"]:
                bad = "number of retained records differs"
            elif got["ok"] != want["ok"]:
                bad = "aggregated pixels differ: a record is not counted once in the pixel containing its anchors"
            elif sum(c[2] for c in got["ok"]) != ans["n_retained"]:
                bad = "sum of counts != number of retained records"
        if bad:
            # agreement with the model of the current code is judged on the class-free outcome
            cur = ans["l1"] if "ok" in ans["l1"] else {"err": "*"}
            g2 = got if "ok" in got else {"err": "*"}
            res = {"mismatch": True, "batch": bi, "records": batch, "impl": got, "spec": want, "note": bad,
                   "d13": {"at_len": bool(ans["at_len"]), "agrees_current": g2 == cur, "variant": "l1"}}
            if not (res["d13"]["at_len"] and res["d13"]["agrees_current"]):
                return res          # a disagreement that is not the known finding: report it at once
            nd13 += 1               # known finding D13: remember the first, keep checking the other batches
            first_d13 = first_d13 or res
            continue
        if "ok" in got:
            nret += ans["n_retained"]
        else:
            nrej += 1
    if first_d13:
        first_d13["n_batches_with_known_finding"] = nd13
        return first_d13
    return {"stats": {"batches": len(batches), "retained": nret, "rejected": nrej}}


def _records_atlength(case):
    """records_top under each listed tril_action; a disagreement that is not the known finding wins"""
    known = None
    stats = {}
    for tril in case["trils"]:
        r = _records_top(dict(case, opts=dict(case["opts"], tril=tril)))
        if r and r.get("mismatch"):
            d = r.get("d13", {})
            if not (d.get("at_len") and d.get("agrees_current")):
                return r
            r["tril"] = tril
            known = known or r
        elif r:
            for k, v in r["stats"].items():
                stats[k] = stats.get(k, 0) + v
    return known or {"stats": stats}


def _records_sequence(case):
    """several bin tables over the SAME chromosome names and lengths handled one after the other in one process: every
    sanitizer is built first, then they are used alternately, then rebuilt in another order; each outcome is compared with the
    specification for ITS table (nothing may be carried over from an earlier call)"""
    tabs, opts, batches = case["tables"], case["opts"], case["batches"]
    nx, _ = _shape(batches)
    fs = [_sanitizer(b, opts, nx) for b in tabs]
    steps = [(i, fs[i]) for i in case.get("order", list(range(len(tabs))) + [0])]
    steps += [(i, None) for i in reversed(range(len(tabs)))]      # fresh sanitizers, other order
    for k, (i, f) in enumerate(steps):
        r = _records_top({"bins": tabs[i], "opts": opts, "batches": batches}, f=f)
        if r and r.get("mismatch"):
            r["step"], r["table"] = k, i
            r["note"] = r.get("note", "") + f" [call {k} of the sequence, table {i}: {tabs[i]}]"
            return r
    return {"stats": {"calls": len(steps)}}


def _records_unit(case):
    bins, opts, batches = case["bins"], case["opts"], case["batches"]
    nx, nu = _shape(batches)
    schema = opts.get("schema", "pairs")
    form, nch = opts.get("chrom_form", "infer"), _nchroms(bins)
    f = _sanitizer(bins, opts, nx)
    answers = drv().ask("C05.sanitize_batch", bins=bins, opts=_lean_opts(opts), batches=batches)
    for bi, (batch, ans) in enumerate(zip(batches, answers)):
        if not ans["valid"]:
            raise AssertionError("generator produced an invalid segmentation")
        for ci, (ch, model) in enumerate(zip(batch, ans["chunks"])):
            st, out = guarded(f, _chunk_df(ch, schema, nx, nu, opts.get("decode", True), form, nch))
            if st == "err":
                if model.get("err") != out:
                    return {"mismatch": True, "batch": bi, "chunk": ch, "impl": {"err": out}, "model": model}
                continue
            if "err" in model:
                return {"mismatch": True, "batch": bi, "chunk": ch, "impl": {"ok": _frame_rows(out, schema, nx, nu)}, "model": model}
            rows = _frame_rows(out, schema, nx, nu)
            if sorted(rows) != sorted(model["ok"]):
                return {"mismatch": True, "batch": bi, "chunk": ch, "impl": {"ok": rows}, "model": model,
                        "note": "rows (frame columns and bin ids per record) differ from the model of _sanitize_records"}
            if opts.get("sort") and [r[-2:] for r in rows] != [r[-2:] for r in model["ok"]]:
                return {"mismatch": True, "batch": bi, "chunk": ch, "impl": {"ok": rows}, "model": model,
                        "note": "sort=True: output is not ordered by (bin1_id, bin2_id)"}
    return None


# ---------------------------------------------------------------------------------------------
# sanitize_pixels
# ---------------------------------------------------------------------------------------------

def _px_df(recs, nx, nu):
    d = {"bin1_id": np.array([r[0] for r in recs], dtype=np.int64), "bin2_id": np.array([r[1] for r in recs], dtype=np.int64)}
    for k in range(nx):
        d[f"x{chr(97 + k)}1"] = np.array([r[2][k] for r in recs], dtype=np.int64)
        d[f"x{chr(97 + k)}2"] = np.array([r[3][k] for r in recs], dtype=np.int64)
    names = ["count"] + [f"u{k}" for k in range(1, nu)]
    for k in range(nu):
        d[names[k]] = np.array([r[4][k] for r in recs], dtype=np.int64)
    return pd.DataFrame(d)


def _px_rows(out, nx, nu):
    names = ["count"] + [f"u{k}" for k in range(1, nu)]
    col = {c: out[c].tolist() for c in out.columns}
    return [[int(col["bin1_id"][i]), int(col["bin2_id"][i]), [int(col[f"x{chr(97 + k)}1"][i]) for k in range(nx)],
             [int(col[f"x{chr(97 + k)}2"][i]) for k in range(nx)], [int(col[names[k]][i]) for k in range(nu)]]
            for i in range(len(out))]


def _px_sanitizer(bins, opts, nx):
    se = opts.get("sided_extra", [])
    sided = tuple(f"x{chr(97 + k)}" for k in range(nx) if k < len(se) and se[k])
    return impl(sanitize_pixels, gen.bins_df(bins), is_one_based=bool(opts.get("one_based", False)),
                tril_action=opts.get("tril"), sided_fields=sided, sort=bool(opts.get("sort", True)))


def _px_shape(batches):
    for b in batches:
        for r in b:
            return len(r[2]), len(r[4])
    return 0, 0


def _pixels_top(case):
    bins, opts, batches = case["bins"], case["opts"], case["batches"]
    nx, nu = _px_shape(batches)
    f = _px_sanitizer(bins, opts, nx)
    answers = drv().ask("C05.pixels", opts=_lean_opts(opts), batches=batches, nbins=len(bins))
    for bi, (recs, ans) in enumerate(zip(batches, answers)):
        if opts.get("tril") in TRILS:
            assert ans["l1_cells"] == ans["l0"], "L1 != L0: theorem pixels_count_once contradicted"
        st, out = guarded(f, _px_df(recs, nx, nu))  # a fresh frame: the function shifts the ids in place
        if st == "err":
            got = {"err": out}
        else:
            out = out.copy()
            got = {"ok": _agg_cells(out, "count" if nu else None)}
        want = ans["l0"]
        if ("ok" in got) != ("ok" in want) or ("ok" in got and got["ok"] != want["ok"]):
            return {"mismatch": True, "batch": bi, "records": recs, "impl": got, "spec": want}
    return None


def _pixels_unit(case):
    bins, opts, batches = case["bins"], case["opts"], case["batches"]
    nx, nu = _px_shape(batches)
    f = _px_sanitizer(bins, opts, nx)
    answers = drv().ask("C05.pixels", opts=_lean_opts(opts), batches=batches, nbins=len(bins))
    for bi, (recs, ans) in enumerate(zip(batches, answers)):
        st, out = guarded(f, _px_df(recs, nx, nu))
        model = ans["l1"]
        if st == "err":
            if model.get("err") != out:
                return {"mismatch": True, "batch": bi, "records": recs, "impl": {"err": out}, "model": model}
            continue
        rows = _px_rows(out, nx, nu)
        if "err" in model or sorted(rows) != sorted(model["ok"]) or \
                (opts.get("sort", True) and [r[:2] for r in rows] != [r[:2] for r in model["ok"]]):
            return {"mismatch": True, "batch": bi, "records": recs, "impl": {"ok": rows}, "model": model}
    return None


def _aggregate_unit(case):
    rows, sort = case["rows"], case["sort"]
    df = pd.DataFrame({"bin1_id": np.array([r[0] for r in rows], dtype=np.int64),
                       "bin2_id": np.array([r[1] for r in rows], dtype=np.int64),
                       "val": np.array([r[2] for r in rows], dtype=np.int64)})
    a = impl(aggregate_records(sort=sort, count=True, agg={"val": "sum"}), df)
    got = [[int(a["bin1_id"].iloc[i]), int(a["bin2_id"].iloc[i]), int(a["count"].iloc[i]), int(a["val"].iloc[i])] for i in range(len(a))]
    want = drv().ask("C05.aggregate", rows=rows, sort=sort)
    if (got != want) if sort else (sorted(got) != sorted(want)):
        return {"mismatch": True, "impl": got, "model": want}
    return None


def _constants(case):
    m = drv().ask("C05.constants")
    P = ingest.SANITIZE_PRESETS
    for k in ("pairs", "bg2"):
        for fld, v in m[k].items():
            if P[k][fld] != v:
                return {"mismatch": True, "preset": k, "field": fld, "impl": P[k][fld], "model": v}
    if P["pairs"]["anchor_field"] != "pos" or P["bg2"]["anchor_field"] != "start" or \
            tuple(P["pairs"]["sided_fields"]) != ("chrom", "pos") or tuple(P["bg2"]["sided_fields"]) != ("chrom", "start", "end"):
        return {"mismatch": True, "impl": {k: dict(P[k]) for k in P}}
    return None


# ---------------------------------------------------------------------------------------------
# command line
# ---------------------------------------------------------------------------------------------

def _write_bins(path, bins):
    with open(path, "w") as f:
        for c, s, e in bins:
            f.write(f"{gen.chromname(c)}\t{s}\t{e}\n")


def _bins_arg(d, tag, bins, how):
    """BINS argument: a BED file, or <chromsizes>:<binsize> when the table is uniform with width `how`"""
    if how == "bed":
        p = os.path.join(d, f"{tag}.bed")
        _write_bins(p, bins)
        return p, [p]
    p = os.path.join(d, f"{tag}.sizes")
    sizes = {}
    for c, s, e in bins:
        sizes[c] = max(sizes.get(c, 0), e)
    with open(p, "w") as f:
        for c in sorted(sizes):
            f.write(f"{gen.chromname(c)}\t{sizes[c]}\n")
    return f"{p}:{how}", [p]


def _read_pixels(path, valcol=None):
    c = cooler.Cooler(path)
    px = c.pixels()[:]
    info = c.info
    cells = [[int(px["bin1_id"].iloc[i]), int(px["bin2_id"].iloc[i]), int(px["count"].iloc[i]),
              int(px[valcol].iloc[i]) if valcol else 0] for i in range(len(px))]
    return cells, info


def _invoke(args):
    from click.testing import CliRunner
    from cooler.cli import cli
    r = CliRunner().invoke(cli, args)
    if r.exit_code != 0:
        e = r.exception
        return ("err", errclass(e) if e is not None and not isinstance(e, SystemExit) else f"exit{r.exit_code}")
    return ("ok", None)


def _chunks_of(recs, k):
    if not k:
        return [recs]
    return [recs[i:i + k] for i in range(0, len(recs), k)] or [[]]


def _cli_pairs(case):
    bins, recs = case["bins"], case["records"]
    d = gen.tmpdir()
    tag = f"c05p-{os.getpid()}"
    barg, tmp = _bins_arg(d, tag, bins, case.get("bins_how", "bed"))
    layout = case.get("layout", [1, 2, 3, 4])  # one-based field numbers of chrom1,pos1,chrom2,pos2[,val]
    ncol = max(layout) + case.get("junk", 0)
    pp = os.path.join(d, f"{tag}.pairs")
    with open(pp, "w") as f:
        for h in case.get("header", []):
            f.write("#" + h + "\n")
        for r in recs:
            cols = ["."] * ncol
            vals = [_cname(r[0]), str(r[1]), _cname(r[2]), str(r[3])] + ([str(r[6][0])] if len(layout) > 4 else [])
            for pos, v in zip(layout, vals):
                cols[pos - 1] = v
            f.write("\t".join(cols) + "\n")
    out = os.path.join(d, f"{tag}.cool")
    args = ["cload", "pairs", "-c1", str(layout[0]), "-p1", str(layout[1]), "-c2", str(layout[2]), "-p2", str(layout[3])]
    if case.get("zero_based"):
        args.append("-0")
    tril = "reflect"
    if case.get("no_symm"):
        args.append("-N")
        tril = None
    elif case.get("duplex"):
        args += ["--input-copy-status", "duplex"]
        tril = "drop"
    if case.get("chunksize"):
        args += ["--chunksize", str(case["chunksize"])]
    valcol = None
    if len(layout) > 4:
        args += ["--field", f"val={layout[4]}"]
        valcol = "val"
    args += [barg, pp, out]
    try:
        opts = {"one_based": not case.get("zero_based"), "tril": tril, "validate": True, "sort": True}
        lrecs = [[r[0], r[1], r[2], r[3], [], [], ([r[6][0]] if valcol else [])] for r in recs]
        ans = drv().ask("C05.sanitize", bins=bins, opts=_lean_opts(opts), chunks=_chunks_of(lrecs, case.get("chunksize")))
        _check_l1_l0(ans, opts)
        st, e = _invoke(args)
        if st == "ok":
            cells, info = impl(_read_pixels, out, valcol)
            got = {"ok": cells}
        else:
            got = {"err": e}
        want = ans["l0"]
        bad = None
        if ("ok" in got) != ("ok" in want):
            bad = "accepted/rejected status differs from the specification"
        elif "ok" in got and got["ok"] != want["ok"]:
            bad = "pixel table of the created cooler differs from one unit per retained record in its pixel"
        elif "ok" in got and (info["nnz"] != len(want["ok"]) or info["sum"] != sum(c[2] for c in want["ok"])):
            bad = "nnz/sum attributes differ from the number of pixels / retained records"
        if bad:
            cur = ans["l1_rowlimited"] if "ok" in ans["l1_rowlimited"] else {"err": "*"}
            g2 = got if "ok" in got else {"err": "*"}
            return {"mismatch": True, "impl": got, "spec": want, "note": bad, "argv": args[:-3],
                    "d13": {"at_len": bool(ans["at_len"]), "agrees_current": g2 == cur, "variant": "l1_rowlimited"}}
        return {"stats": {"retained": ans["n_retained"] if "ok" in want else 0, "rejected": int("err" in want)}}
    finally:
        for p in tmp + [pp, out]:
            if os.path.exists(p):
                os.unlink(p)


def _cli_load(case):
    bins, fmt = case["bins"], case["format"]
    d = gen.tmpdir()
    tag = f"c05l-{os.getpid()}"
    barg, tmp = _bins_arg(d, tag, bins, case.get("bins_how", "bed"))
    pp = os.path.join(d, f"{tag}.txt")
    recs = case["records"]
    with open(pp, "w") as f:
        for h in case.get("header", []):
            f.write("#" + h + "\n")
        for r in recs:
            if fmt == "coo":
                f.write(f"{r[0]}\t{r[1]}\t{r[4][0]}\n")
            else:
                f.write(f"{_cname(r[0])}\t{r[1]}\t{r[4][0]}\t{_cname(r[2])}\t{r[3]}\t{r[5][0]}\t{r[6][0]}\n")
    out = os.path.join(d, f"{tag}.cool")
    args = ["load", "-f", fmt]
    if case.get("one_based"):
        args.append("--one-based")
    tril = "reflect"
    if case.get("no_symm"):
        args.append("-N")
        tril = None
    elif case.get("duplex"):
        args += ["--input-copy-status", "duplex"]
        tril = "drop"
    if case.get("chunksize"):
        args += ["--chunksize", str(case["chunksize"])]
    args += [barg, pp, out]
    try:
        opts = {"one_based": bool(case.get("one_based")), "tril": tril, "validate": True, "sort": True}
        chunks = _chunks_of(recs, case.get("chunksize"))
        at_len = False
        if fmt == "coo":
            answers = drv().ask("C05.pixels", opts=_lean_opts(opts), batches=chunks, nbins=len(bins))
            per_l0 = [a["l0_boundschecked"] for a in answers]
            per_cur = per_l0
        else:
            ans = drv().ask("C05.sanitize_batch", bins=bins, opts=_lean_opts(opts), batches=[[ch] for ch in chunks])
            for a in ans:
                _check_l1_l0(a, opts)
            per_l0 = [a["l0"] for a in ans]
            per_cur = [a["l1_boundschecked"] for a in ans]
            at_len = any(a["at_len"] for a in ans)

        def whole(per):
            if any("err" in p for p in per):
                return {"err": "*"}
            if any(c[2] > 1 for p in per for c in p["ok"]):
                return {"err": "*"}  # duplicate pixel inside one chunk: `create` aborts (dupcheck), as documented
            cells = [c for p in per for c in p["ok"]]
            merged = drv().ask("C05.regroup", cells=cells)
            return {"ok": [[c[0], c[1], c[3]] for c in merged]}
        want, cur = whole(per_l0), whole(per_cur)
        st, e = _invoke(args)
        if st == "ok":
            cells, info = impl(_read_pixels, out)
            got = {"ok": [[c[0], c[1], c[2]] for c in cells]}
        else:
            got = {"err": "*"}
        if got != want:
            return {"mismatch": True, "impl": got if st == "ok" else {"err": e}, "spec": want, "argv": args[:-3],
                    "note": "pixel values of the created cooler differ from the per-pixel sums of the records' values",
                    "d13": {"at_len": bool(at_len), "agrees_current": got == cur, "variant": "l1_boundschecked"}}
        return {"stats": {"ok": int("ok" in want), "rejected": int("err" in want)}}
    finally:
        for p in tmp + [pp, out]:
            if os.path.exists(p):
                os.unlink(p)


def _cli_tabix(case):
    import pysam
    bins, recs = case["bins"], case["records"]  # recs: [c1, p1, c2, p2] as written in the file
    d = gen.tmpdir()
    tag = f"c05t-{os.getpid()}"
    barg, tmp = _bins_arg(d, tag, bins, case.get("bins_how", "bed"))
    zero = bool(case.get("zero_based"))
    c2col, p2col = case.get("c2", 4), case.get("p2", 5)
    ncol = max(2, c2col, p2col)
    pp = os.path.join(d, f"{tag}.txt")
    with open(pp, "w") as f:
        for r in recs:
            cols = ["."] * ncol
            cols[0], cols[1], cols[c2col - 1], cols[p2col - 1] = _cname(r[0]), str(r[1]), _cname(r[2]), str(r[3])
            f.write("\t".join(cols) + "\n")
    gz = pp + ".gz"
    out = os.path.join(d, f"{tag}.cool")
    try:
        dd = 0 if zero else 1
        ans = drv().ask("C05.tabix", bins=bins, one_based=not zero, file=[[r[0], r[1] - dd, r[2], r[3]] for r in recs])
        if not ans["valid"] or not ans["upper"] or "err" in ans["l0"]:
            raise AssertionError("tabix generator must produce in-range upper-triangular files")
        if sorted(ans["l1"]) != sorted(ans["l0"]["ok"]):
            raise AssertionError("L1 tabixAggregate != L0 on an in-range upper-triangular file")
        if not recs:
            return None
        pysam.tabix_index(pp, seq_col=0, start_col=1, end_col=1, zerobased=zero, force=True)
        args = ["cload", "tabix", "--nproc", "1", "-c2", str(c2col), "-p2", str(p2col), "-s", str(case.get("max_split", 2))]
        if zero:
            args.append("-0")
        args += [barg, gz, out]
        st, e = _invoke(args)
        if st != "ok":
            return {"mismatch": True, "impl": {"err": e}, "spec": ans["l0"], "argv": args[:-3]}
        cells, info = impl(_read_pixels, out)
        if cells != ans["l0"]["ok"]:
            return {"mismatch": True, "impl": {"ok": cells}, "spec": ans["l0"], "argv": args[:-3]}
        return {"stats": {"records": len(recs)}}
    finally:
        for p in tmp + [pp, gz, gz + ".tbi", out]:
            if os.path.exists(p):
                os.unlink(p)



# ---------------------------------------------------------------------------------------------
# HDF5Aggregator (`cooler cload hiclib`)
# ---------------------------------------------------------------------------------------------

_HIC_N = itertools.count()


HIC_LABEL_FORMS = ("range", "restart", "reversed", "offset", "constant")


def _hic_tables(bins, n, labels="range"):
    """bin table frame (chromosome column categorical over ALL n names) and the chromsizes Series the CLI derives from it.
    `labels`: how the ROWS of the frame are labelled — pandas' default 0..n-1 (what `parse_bins` gives the command line), restarting
    at 0 in every chromosome (pd.concat of per-chromosome frames), reversed, offset by 100, all equal; same table every time"""
    bdf = gen.bins_df(bins, nchroms=n).reset_index(drop=True)
    nb = len(bdf)
    if labels == "restart":
        lab, seen = [], {}
        for b in bins:
            lab.append(seen.get(b[0], 0))
            seen[b[0]] = seen.get(b[0], 0) + 1
        bdf.index = pd.Index(lab, dtype=np.int64)
    elif labels == "reversed":
        bdf.index = pd.Index(range(nb - 1, -1, -1), dtype=np.int64)
    elif labels == "offset":
        bdf.index = pd.RangeIndex(100, 100 + nb)
    elif labels == "constant":
        bdf.index = pd.Index([7] * nb, dtype=np.int64)
    elif labels != "range":
        raise AssertionError(f"unknown row label form {labels!r}")
    sizes = {}
    for c, _, e in bins:
        sizes[c] = max(sizes.get(c, 0), e)
    chromsizes = pd.Series({gen.chromname(c): sizes.get(c, 0) for c in range(n)}, dtype=np.int64)
    return bdf, chromsizes


def _hic_h5(recs, path=None, dtype=np.int64):
    """hiclib-style pairs group: four equal-length integer datasets; in memory unless a path is given"""
    import h5py
    if path is None:
        f = h5py.File(f"c05hic-{os.getpid()}-{next(_HIC_N)}.h5", "w", driver="core", backing_store=False)
    else:
        f = h5py.File(path, "w")
    for k, i in (("chrms1", 0), ("cuts1", 1), ("chrms2", 2), ("cuts2", 3)):
        f.create_dataset(k, data=np.array([r[i] for r in recs], dtype=dtype))
    return f


def _hic_cells(chunk):
    b1, b2, ct = chunk["bin1_id"], chunk["bin2_id"], chunk["count"]
    if not (len(b1) == len(b2) == len(ct)):
        raise ValueError("chunk columns of different lengths")
    return [[int(b1[i]), int(b2[i]), int(ct[i]), 0] for i in range(len(b1))]


def _hic_run(bins, n, recs, cs, dtype=np.int64, labels="range"):
    """list(HDF5Aggregator(h5, chromsizes, bins, chunksize)) with the (lo, hi) of every chunk -> ('ok', [[lo, hi, cells]]) | ('err', class)"""
    from cooler.create import HDF5Aggregator
    bdf, chromsizes = _hic_tables(bins, n, labels)
    f = _hic_h5(recs, dtype=dtype)
    try:
        bounds = []

        def go():
            agg = HDF5Aggregator(f, chromsizes, bdf, cs)
            orig = agg._load_chunk

            def spy(lo, hi):
                bounds.append((int(lo), int(hi)))
                return orig(lo, hi)
            agg._load_chunk = spy
            return [ch for ch in agg]
        st, out = guarded(go)
        if st == "err":
            return st, out
        if len(bounds) != len(out):
            return "ok", [[-1, -1, impl(_hic_cells, ch)] for ch in out]   # the chunks did not come from _load_chunk: no boundaries to report
        return "ok", [[lo, hi, impl(_hic_cells, ch)] for (lo, hi), ch in zip(bounds, out)]
    finally:
        f.close()


def _hic_create(bins, n, recs, cs, how, bins_how="bed", labels="range"):
    """the same file through `create_cooler(..., ordered=True)` (how='create') or `cooler cload hiclib` (how='cli');
    -> ('ok', cells, info) | ('err', class, None)"""
    from cooler.create import HDF5Aggregator
    d = gen.tmpdir()
    tag = f"c05h-{os.getpid()}-{next(_HIC_N)}"
    out = os.path.join(d, f"{tag}.cool")
    tmp = [out]
    try:
        if how == "create":
            bdf, chromsizes = _hic_tables(bins, n, labels)
            f = _hic_h5(recs)
            try:
                st, e = guarded(lambda: cooler.create_cooler(out, bdf, HDF5Aggregator(f, chromsizes, bdf, cs), ordered=True))
            finally:
                f.close()
        else:
            barg, t2 = _bins_arg(d, tag, bins, bins_how)
            tmp += t2
            pp = os.path.join(d, f"{tag}.h5")
            tmp.append(pp)
            _hic_h5(recs, path=pp).close()
            st, e = _invoke(["cload", "hiclib", "--chunksize", str(cs), barg, pp, out])
        if st == "err":
            return "err", e, None
        cells, info = impl(_read_pixels, out)
        return "ok", cells, info
    finally:
        for p in tmp:
            if os.path.exists(p):
                os.unlink(p)


def _hic_judge(got, want, class_matters):
    if ("ok" in got) != ("ok" in want):
        return "accepted/rejected status differs from the specification"
    if "ok" in got:
        if got["ok"] != want["ok"]:
            return "pixels differ: a read pair is not counted once in the pixel containing its two anchors"
        return None
    if class_matters and got["err"] != want["err"]:
        return "rejected with a different error class than documented"
    return None


def _hiclib(case):
    bins, recs, css = case["bins"], case["recs"], case["chunksizes"]
    n = case.get("nchroms", _nchroms(bins))
    form = case.get("rowlabels", "range")
    ans = drv().ask("C05.hiclib", bins=bins, nchroms=n, recs=recs, chunksizes=css)
    if not ans["valid"]:
        raise AssertionError("generator produced an invalid segmentation")
    wellformed = ans["sorted"] and ans["good"]
    want = ans["l0"]
    class_matters = False
    if wellformed and not ans["upper"]:
        # theorem hiclib_rejects_lower: ValueError in the code, rejected by the specification
        assert "err" in want, "specification accepts a lower-triangle record"
        want, class_matters = {"err": "ValueError"}, True
    if not ans["blocksorted"]:
        # sorted input is the loader's documented precondition; theorem hiclib_rejects_unsorted
        want, class_matters = {"err": "ValueError"}, True
    for run in ans["runs"]:
        if (wellformed or not ans["blocksorted"]) and run["chunksize"] >= 1:
            assert run["l1_flat"] == want, "L1 != L0 on well-formed input: theorem hiclib_eq_spec / hiclib_rejects_* contradicted"
    if wellformed and ans["upper"]:
        assert sum(c[2] for c in want["ok"]) == len(recs), "sum of the specification's counts != number of records"
    if ans["sorted"] and not class_matters:
        # theorems hiclib_rejects_outside_full / hiclib_drops_unlisted_full: the model rejects what the specification rejects and
        # otherwise equals it (the one input they exclude — first cut outside AND second id unlisted — is not generated)
        for run in ans["runs"]:
            l1 = run["l1_flat"]
            assert ("ok" in l1) == ("ok" in want) and ("err" in l1 or l1 == want), "L1 != L0 on a sorted file: theorem contradicted"
    nchunks = 0
    for run in ans["runs"]:
        cs = run["chunksize"]
        st, out = _hic_run(bins, n, recs, cs, np.dtype(case.get("dtype", "int64")), form)
        got = {"ok": [c for ch in out for c in ch[2]]} if st == "ok" else {"err": out}
        bad = _hic_judge(got, want, class_matters)
        if bad is None and st == "ok" and sum(c[2] for c in got["ok"]) != sum(c[2] for c in want["ok"]):
            bad = "sum of counts != number of retained records"
        if bad:
            return {"mismatch": True, "chunksize": cs, "through": "HDF5Aggregator", "impl": got, "spec": want, "note": bad,
                    "model": run["l1_flat"]}
        elif st == "ok":
            nchunks += len(out)
    # the same file through create_cooler / the command line, read back
    for how, cs in case.get("via", []):
        st, a, info = _hic_create(bins, n, recs, cs, how, case.get("bins_how", "bed"), form)
        got = {"ok": a} if st == "ok" else {"err": a}
        bad = _hic_judge(got, want, False)
        if bad is None and st == "ok" and (info["nnz"] != len(want["ok"]) or info["sum"] != sum(c[2] for c in want["ok"])):
            bad = "nnz/sum attributes differ from the number of pixels / read pairs"
        if bad:
            return {"mismatch": True, "chunksize": cs, "through": how, "impl": got, "spec": want, "note": bad}
    return {"stats": {"runs": len(css), "chunks": nchunks, "records": len(recs) * len(css),
                      "rejected": int("err" in want), "through_create": sum(1 for h, _ in case.get("via", []) if h == "create"),
                      "through_cli": sum(1 for h, _ in case.get("via", []) if h == "cli")}}


def _hiclib_chunks(case):
    """contract of the chunk boundaries on the boundaries the REAL loop used (obtained by wrapping `_load_chunk`)"""
    bins, recs, css = case["bins"], case["recs"], case["chunksizes"]
    n = case.get("nchroms", _nchroms(bins))
    runs = []
    for cs in css:
        st, out = _hic_run(bins, n, recs, cs)
        if st == "err":
            return {"mismatch": True, "chunksize": cs, "impl": {"err": out}, "note": "well-formed input rejected"}
        runs.append({"chunksize": cs, "bounds": [[ch[0], ch[1]] for ch in out]})
    if any(b[0] < 0 for r in runs for b in r["bounds"]):
        return {"mismatch": True, "note": "chunks are no longer produced through _load_chunk(lo, hi): no boundaries to check", "runs": runs[:1]}
    ans = drv().ask("C05.hiclib_chunks", bins=bins, nchroms=n, recs=recs, runs=runs)
    if not (ans["valid"] and ans["wellformed"]):
        raise AssertionError("hiclib_chunks needs a valid table and sorted, in-range, upper-triangular records")
    same = 0
    for r, mine in zip(ans["runs"], runs):
        assert "ok" in r["model"], "model rejects well-formed input: theorem hiclib_chunks_cover contradicted"
        if not r["ok"]:
            return {"mismatch": True, "chunksize": r["chunksize"], "impl_bounds": mine["bounds"], "model_bounds": r["model"]["ok"],
                    "covers_exactly": r["chain"], "no_bin1_split": r["sep"],
                    "note": "chunk boundaries " + ("do not tile the records exactly" if not r["chain"] else "split a bin1 between two chunks")}
        same += int(r["model"]["ok"] == mine["bounds"])
    return {"stats": {"runs": len(runs), "same_as_model": same}}


CHECKS = {"records_top": _records_top, "records_atlength": _records_atlength, "records_sequence": _records_sequence,
          "records_unit": _records_unit, "pixels_top": _pixels_top, "pixels_unit": _pixels_unit,
          "aggregate_unit": _aggregate_unit, "cli_pairs": _cli_pairs, "cli_load": _cli_load, "cli_tabix": _cli_tabix,
          "constants": _constants, "hiclib": _hiclib, "hiclib_outside": _hiclib, "hiclib_rowlabels": _hiclib,
          "hiclib_chunks": _hiclib_chunks}


# ---------------------------------------------------------------------------------------------
# known finding D13
# ---------------------------------------------------------------------------------------------

def classify(name, case, result, findings):
    """D13 only: the failing input has a record whose zero-based position equals its chromosome's length (signature,
    evaluated by Lean's `atLength`) AND the implementation's outcome is exactly that of the Lean model of the code as it
    stands (variant oracle: `sanitizeRecords` with `>`; for the CLI followed by what `create` does with an id past the table)"""
    if not isinstance(result, dict) or not any(f["id"] == "D13" for f in findings):
        return None
    d = result.get("d13")
    if d and d.get("at_len") and d.get("agrees_current") and LEVELS.get(name) == "top":
        return "D13"
    return None


# ---------------------------------------------------------------------------------------------
# generators
# ---------------------------------------------------------------------------------------------

def tables(tier, rng):
    """(label, bins)"""
    T = [
        ("uniform-short-last", gen.chrom_bins(0, [2, 2]) + gen.chrom_bins(1, [2, 1])),
        ("uniform-exact-3chrom", gen.chrom_bins(0, [2, 1]) + gen.chrom_bins(1, [1]) + gen.chrom_bins(2, [2, 2, 2])),
        ("variable", gen.chrom_bins(0, [1, 3, 2]) + gen.chrom_bins(1, [2, 1, 4])),
        ("longer-last-bin", gen.chrom_bins(0, [2, 5]) + gen.chrom_bins(1, [2, 2])),
        ("one-bin-chroms", gen.chrom_bins(0, [5]) + gen.chrom_bins(1, [3])),
        ("uniform-width1", gen.chrom_bins(0, [1, 1, 1]) + gen.chrom_bins(1, [1])),
    ]
    if tier == "thorough":
        T += [
            ("uniform-3", gen.chrom_bins(0, [3, 3, 2]) + gen.chrom_bins(1, [3, 1])),
            ("uniform-4-3chrom", gen.chrom_bins(0, [4, 4, 4]) + gen.chrom_bins(1, [4, 3]) + gen.chrom_bins(2, [2])),
            ("variable-3chrom", gen.chrom_bins(0, [3, 1, 5, 2]) + gen.chrom_bins(1, [1, 1]) + gen.chrom_bins(2, [6, 2, 4])),
            ("longer-only-bin", gen.chrom_bins(0, [3, 3]) + gen.chrom_bins(1, [7])),
            ("uniform-5", gen.chrom_bins(0, [5, 5, 2]) + gen.chrom_bins(1, [5, 5])),
        ]
    return T


def _sizes(bins):
    L = {}
    for c, s, e in bins:
        L[c] = max(L.get(c, 0), e)
    return [L[c] for c in sorted(L)]


def _anchors(bins):
    """every (chromosome, raw position) worth trying: -1..L+2 on each chromosome, three values on an unknown one"""
    out = []
    for c, L in enumerate(_sizes(bins)):
        out += [(c, p) for p in range(-1, L + 3)]
    out += [(None, 0), (None, 1)]
    return out


def _edge_positions(bins, c):
    L = _sizes(bins)[c]
    edges = sorted({b[1] for b in bins if b[0] == c} | {b[2] - 1 for b in bins if b[0] == c})
    return edges, L


def _rand_record(rng, bins, one_based, nx, nu, rid, risky):
    """positions biased to bin edges; `risky` admits -1, L, L+1 and unknown chromosomes"""
    n = len(_sizes(bins))

    def side():
        c = rng.randrange(n)
        edges, L = _edge_positions(bins, c)
        r = rng.random()
        if risky and r < 0.08:
            return None, rng.randint(0, 5)
        if risky and r < 0.20:
            p = rng.choice([-1, L, L, L + 1])
        elif r < 0.75:
            p = rng.choice(edges)
        else:
            p = rng.randrange(L)
        return c, p + (1 if one_based else 0)
    c1, p1 = side()
    c2, p2 = side()
    if rng.random() < 0.25 and c1 is not None:
        c2, p2 = c1, p1 + rng.choice([0, 0, 1, -1]) if rng.random() < 0.5 else p1  # same bin / same position
    return [c1, p1, c2, p2, [rng.randint(0, 9) for _ in range(nx)], [rng.randint(10, 19) for _ in range(nx)],
            ([rng.randint(1, 5)] + [rid] * (nu - 1)) if nu else []]


def _perm_batches(rng, recs, nperm):
    """the same multiset in several orders and chunkings"""
    batches = [[list(recs)]]
    n = len(recs)
    for _ in range(nperm):
        p = list(recs)
        rng.shuffle(p)
        k = rng.choice([1, 2, 3, n or 1])
        batches.append([p[i:i + k] for i in range(0, n, k)] or [[]])
    if n:
        batches.append([[r] for r in reversed(recs)])
    return batches


def cases(tier, rng):
    thorough = tier == "thorough"
    yield "constants", {}
    # ---- corpus ------------------------------------------------------------------------------------
    t_uni = gen.chrom_bins(0, [2, 2]) + gen.chrom_bins(1, [2, 1])
    t_long = gen.chrom_bins(0, [2, 5]) + gen.chrom_bins(1, [2, 2])
    t_3 = gen.chrom_bins(0, [3]) + gen.chrom_bins(1, [4]) + gen.chrom_bins(2, [8])
    late = []   # cases that are expected to hit known finding D13 go last (they must not crowd out anything else)
    for nm in ("records_top", "records_unit"):
        # D1 (fixed e8655d6): a longer last bin must not be binned by division
        yield nm, {"bins": t_long, "opts": {"tril": "reflect"}, "batches": [[[[0, 6, 1, 3, [], [], []]]], [[[0, 1, 0, 6, [], [], []],
                                                                                                            [1, 0, 0, 5, [], [], []]]]], "kind": "corpus-D1"}
        # D24 (fixed b100e7d): integer chromosome ids + reflect + a lower-triangle record, nothing dropped
        yield nm, {"bins": t_3, "opts": {"tril": "reflect", "decode": False}, "kind": "corpus-D24",
                   "batches": [[[[2, 0, 1, 0, [], [], [3]]]], [[[2, 1, 1, 1, [], [], [4]], [0, 2, 2, 7, [], [], [1]], [1, 3, 1, 0, [], [], [2]]]]]}
        late.append(("records_atlength" if nm == "records_top" else nm,
                     {"bins": t_uni, "opts": {"tril": "reflect"}, "trils": ["reflect"], "batches": [[[[0, 1, 0, 4, [], [], []]]], [[[1, 3, 1, 3, [], [], []]]],
                                                                                  [[[0, 4, 1, 0, [], [], []]]]], "kind": "corpus-D13"}))
    tabs = tables(tier, rng)
    # ---- the same records with the chromosome columns in every form -----------------------------------
    # (the generated chromosome names are deliberately not in sorted order, so "sorted" categories differ from the table's)
    for label, bins in tabs:
        L = _sizes(bins)
        some = [(c, p) for c in range(len(L)) for p in sorted({0, L[c] // 2, L[c] - 1})]
        pairs = [(a, b) for a in some for b in some]
        singles = [[[[c1, p1, c2, p2, [], [], [1 + (i % 3), i]]]] for i, ((c1, p1), (c2, p2)) in enumerate(pairs)]
        everything = [r for b in singles for ch in b for r in ch]
        with_unlisted = everything[::3] + [[None, 1, 0, 0, [], [], [2, 900]], [len(L) - 1, 0, None, 0, [], [], [1, 901]]]
        for form in CHROM_FORMS[1:]:
            for tril, sort in (("reflect", False), (None, True)):
                opts = {"one_based": False, "tril": tril, "sort": sort, "chrom_form": form}
                batches = singles[:: (1 if thorough else 2)] + [[everything], [everything[0::2], everything[1::2]], [with_unlisted],
                                                                 [list(reversed(with_unlisted))[:5], list(reversed(with_unlisted))[5:]]]
                case = {"bins": bins, "opts": opts, "batches": batches, "kind": f"forms:{label}"}
                yield "records_top", case
                yield "records_unit", case
    # ---- call sequences: tables over the same chromosome names and lengths, one after the other -------
    seqs = [[gen.chrom_bins(0, [1, 3, 2]) + gen.chrom_bins(1, [2, 1, 4]),      # variable
             gen.chrom_bins(0, [3, 1, 2]) + gen.chrom_bins(1, [4, 2, 1]),      # variable, other edges
             gen.chrom_bins(0, [2, 2, 2]) + gen.chrom_bins(1, [2, 2, 2, 1])],  # fixed width 2
            [gen.chrom_bins(0, [4]) + gen.chrom_bins(1, [1, 1]) + gen.chrom_bins(2, [2, 3]),
             gen.chrom_bins(0, [1, 3]) + gen.chrom_bins(1, [2]) + gen.chrom_bins(2, [4, 1]),
             gen.chrom_bins(0, [2, 2]) + gen.chrom_bins(1, [2]) + gen.chrom_bins(2, [2, 2, 1])]]
    for tabs_seq in seqs:
        L = _sizes(tabs_seq[0])
        assert all(_sizes(t) == L for t in tabs_seq)
        inside = [(c, p) for c in range(len(L)) for p in range(L[c])]
        everything = [[c1, p1, c2, p2, [], [], [1, i]] for i, ((c1, p1), (c2, p2)) in enumerate((a, b) for a in inside for b in inside)]
        for one_based in (False, True):
            recs = [[r[0], r[1] + int(one_based), r[2], r[3] + int(one_based)] + r[4:] for r in everything]
            for tril in ("reflect", None):
                yield "records_sequence", {"tables": tabs_seq, "opts": {"one_based": one_based, "tril": tril, "sort": False},
                                           "batches": [[recs], [recs[0::3], recs[1::3], recs[2::3]]], "kind": "sequence"}
    # ---- exhaustive single records ---------------------------------------------------------------
    for label, bins in tabs:
        anc = _anchors(bins)
        L = _sizes(bins)
        for one_based in (False, True):
            def at_len(a):
                return a[0] is not None and a[1] - int(one_based) == L[a[0]]
            plain = [a for a in anc if not at_len(a)]
            for tril in TRILS:
                opts = {"one_based": one_based, "tril": tril, "sort": False}
                for (c1, p1) in plain:
                    batches = [[[[c1, p1, c2, p2, [], [], [1, 0]]]] for (c2, p2) in plain]
                    case = {"bins": bins, "opts": opts, "batches": batches, "kind": f"single:{label}"}
                    yield "records_top", case
                    yield "records_unit", case
            # every pair with an anchor exactly at its chromosome's length: the signature of D13
            batches = [[[[c1, p1, c2, p2, [], [], [1, 0]]]] for (c1, p1) in anc for (c2, p2) in anc
                       if at_len((c1, p1)) or at_len((c2, p2))]
            late.append(("records_atlength", {"bins": bins, "opts": {"one_based": one_based, "sort": False}, "trils": TRILS,
                                              "batches": batches, "kind": f"single-atlength:{label}"}))
            for tril in TRILS:
                late.append(("records_unit", {"bins": bins, "opts": {"one_based": one_based, "tril": tril, "sort": False},
                                              "batches": batches, "kind": f"single-atlength:{label}"}))
    if thorough:
        # every valid segmentation of two chromosomes of length <= 4, every in-domain or rejected single record
        # (records exactly at the length are left to the curated tables above: known finding D13)
        per = [ws for Lc in range(1, 5) for ws in gen.compositions(Lc)]
        for w0, w1 in itertools.product(per, repeat=2):
            bins = gen.chrom_bins(0, w0) + gen.chrom_bins(1, w1)
            anc = _anchors(bins)
            L = _sizes(bins)
            for one_based in (False, True):
                plain = [a for a in anc if not (a[0] is not None and a[1] - int(one_based) == L[a[0]])]
                batches = [[[[c1, p1, c2, p2, [], [], [1, 0]]]] for (c1, p1) in plain for (c2, p2) in plain]
                # both actions on the tables of length <= 3, one (alternating) on those with a chromosome of length 4
                for tril in (("reflect", "drop") if max(L) <= 3 else (("drop",) if one_based else ("reflect",))):
                    case = {"bins": bins, "opts": {"one_based": one_based, "tril": tril, "sort": False}, "batches": batches,
                            "kind": "single-allsegs"}
                    yield "records_top", case
                    yield "records_unit", case
    # ---- seeded multisets ---------------------------------------------------------------------------
    nmulti = 260 if thorough else 70
    for k in range(nmulti):
        label, bins = tabs[k % len(tabs)] if k % 3 else ("random", gen.random_segmentation(rng, rng.randint(2, 3), 12 if thorough else 8))
        one_based = rng.random() < 0.5
        nx, nu = rng.choice([(0, 2), (1, 2), (2, 2), (0, 0), (1, 1)])
        risky = rng.random() < 0.35
        recs = [_rand_record(rng, bins, one_based, nx, nu, i, risky) for i in range(rng.randint(0, 8))]
        if recs and rng.random() < 0.5:
            recs.append(list(rng.choice(recs)))  # an exact duplicate
        if recs and rng.random() < 0.5:
            r = rng.choice(recs)
            recs.append([r[2], r[3], r[0], r[1], r[5], r[4], r[6]])  # its mirror image
        schema = "bg2" if (nx >= 1 and nu >= 1 and rng.random() < 0.3) else "pairs"
        opts = {"schema": schema, "one_based": one_based, "tril": rng.choice(TRILS + ["reflect", "drop"]),
                "sort": rng.random() < 0.5, "sided_extra": [rng.random() < 0.6 for _ in range(nx)],
                "decode": rng.random() < 0.8, "chrom_form": rng.choice(CHROM_FORMS)}
        case = {"bins": bins, "opts": opts, "batches": _perm_batches(rng, recs, 4 if thorough else 3), "kind": f"multi:{label}"}
        yield "records_top", case
        yield "records_unit", case
        # unit only: the options the text loaders never use
        o2 = dict(opts, validate=rng.random() < 0.5, sided_chrom=rng.random() < 0.7, sided_anchor=rng.random() < 0.7,
                  tril=rng.choice(TRILS + ["bogus"]))
        yield "records_unit", {"bins": bins, "opts": o2, "batches": [[list(recs)]], "kind": f"multi-unit:{label}"}
    # ---- pre-binned records --------------------------------------------------------------------------
    pb = gen.chrom_bins(0, [2, 2]) + gen.chrom_bins(1, [3])
    n = len(pb)
    ids = list(range(-1, n + 2))
    for one_based in (False, True):
        for tril in TRILS:
            for sort in (True, False):
                batches = [[[i, j, [], [], [3, 0]]] for i in ids for j in ids]
                case = {"bins": pb, "opts": {"one_based": one_based, "tril": tril, "sort": sort}, "batches": batches, "kind": "px-single"}
                yield "pixels_top", case
                yield "pixels_unit", case
    for k in range(120 if thorough else 30):
        nx = rng.choice([0, 1, 2])
        recs = [[rng.choice(ids), rng.choice(ids), [rng.randint(0, 9) for _ in range(nx)], [rng.randint(10, 19) for _ in range(nx)],
                 [rng.randint(1, 5), i]] for i in range(rng.randint(0, 8))]
        opts = {"one_based": rng.random() < 0.5, "tril": rng.choice(TRILS), "sort": rng.random() < 0.7,
                "sided_extra": [rng.random() < 0.6 for _ in range(nx)]}
        batches = [list(recs)]
        for _ in range(3):
            p = list(recs)
            rng.shuffle(p)
            batches.append(p)
        case = {"bins": pb, "opts": opts, "batches": batches, "kind": "px-multi"}
        yield "pixels_top", case
        yield "pixels_unit", case
        yield "pixels_unit", {"bins": pb, "opts": dict(opts, tril="bogus"), "batches": [list(recs)], "kind": "px-multi"}
    for k in range(200 if thorough else 40):
        rows = [[rng.randint(-1, 4), rng.randint(-1, 4), rng.randint(-3, 9)] for _ in range(rng.randint(0, 10))]
        yield "aggregate_unit", {"rows": rows, "sort": bool(k % 2)}
    # ---- command line ---------------------------------------------------------------------------------
    layouts = [[1, 2, 3, 4], [3, 4, 1, 2], [2, 1, 4, 3], [1, 2, 4, 5], [5, 2, 1, 4], [1, 2, 3, 4, 5], [4, 5, 2, 3, 1]]
    for k in range(160 if thorough else 36):
        label, bins = tabs[k % len(tabs)]
        zero = rng.random() < 0.5
        risky = k % 4 == 0
        recs = [_rand_record(rng, bins, not zero, 0, 1, i, risky) for i in range(rng.randint(0, 8))]
        if k % 9 == 1:   # D13 shape on purpose
            L = _sizes(bins)
            c = rng.randrange(len(L))
            recs.append([c, L[c] + (0 if zero else 1), c, 0 + (0 if zero else 1), [], [], [1]])
        uniform = {"uniform-short-last": 2, "uniform-exact-3chrom": 2, "uniform-width1": 1, "uniform-3": 3,
                   "uniform-4-3chrom": 4, "uniform-5": 5}.get(label)
        case = {"bins": bins, "records": recs, "zero_based": zero, "layout": layouts[k % len(layouts)], "junk": rng.randint(0, 2),
                "header": ["# pairs v1.0", "columns: x"][: rng.randint(0, 2)], "chunksize": rng.choice([None, None, 1, 2, 3]),
                "duplex": k % 5 == 2, "no_symm": k % 7 == 3, "bins_how": (uniform if (uniform and k % 2) else "bed"),
                "kind": f"cli:{label}"}
        yield "cli_pairs", case
    for k in range(120 if thorough else 28):
        label, bins = tabs[k % len(tabs)]
        nb = len(bins)
        fmt = "coo" if k % 2 else "bg2"
        one = rng.random() < 0.4
        if fmt == "coo":
            lo, hi = (0, nb - 1) if k % 6 else (-1, nb)
            recs = [[rng.randint(lo, hi) + int(one), rng.randint(lo, hi) + int(one), [], [], [rng.randint(1, 9)]] for _ in range(rng.randint(0, 7))]
        else:
            recs = []
            for i in range(rng.randint(0, 7)):
                r = _rand_record(rng, bins, one, 1, 1, i, k % 6 == 0)
                r[4], r[5] = [r[1] + 1], [r[3] + 1]
                r[6] = [rng.randint(1, 9)]
                recs.append(r)
            if k % 8 == 0:
                L = _sizes(bins)
                c = len(L) - 1
                recs = [[c, L[c] + int(one), c, 0 + int(one), [L[c] + 1], [1], [2]]] + recs[:2]
        yield "cli_load", {"bins": bins, "format": fmt, "records": recs, "one_based": one, "chunksize": rng.choice([None, 1, 2, 3]),
                           "duplex": k % 5 == 2, "no_symm": k % 7 == 3, "header": ["comment"][: k % 2], "kind": f"cli:{label}"}
    if True:   # the tabix loader is also exercised in the quick tier (seeded changes C05-1, C05-3 live there)
        try:
            import pysam  # noqa
            have = True
        except Exception:
            have = False
        if have:
            for k in range(60 if thorough else 18):
                label, bins = tabs[k % len(tabs)]
                zero = k % 2 == 0
                L = _sizes(bins)
                recs = []
                for _ in range(rng.randint(1, 10)):
                    c1 = rng.randrange(len(L))
                    e1, _ = _edge_positions(bins, c1)
                    p1 = rng.choice(e1 + [rng.randrange(L[c1])])
                    if rng.random() < 0.15:
                        c2, p2 = None, rng.randint(0, 5)
                    else:
                        c2 = rng.randint(c1, len(L) - 1)
                        e2, _ = _edge_positions(bins, c2)
                        cand = [p for p in e2 + [rng.randrange(L[c2])] if c2 > c1 or p >= p1]
                        p2 = rng.choice(cand) if cand else p1
                    recs.append([c1, p1 + (0 if zero else 1), c2, p2 + (0 if zero else 1)])
                recs.sort(key=lambda r: (r[0], r[1]))
                c2col, p2col = rng.choice([(4, 5), (4, 5), (3, 4), (5, 6), (4, 6), (7, 3)])
                yield "cli_tabix", {"bins": bins, "records": recs, "zero_based": zero, "c2": c2col, "p2": p2col,
                                    "max_split": rng.choice([1, 2, 3]), "kind": f"tabix:{label}"}
    yield from hiclib_cases(tier, rng)
    yield from late
    yield from hiclib_outside_cases(tier, rng)
    yield from hiclib_rowlabels_cases(tier, rng)



# ---- HDF5Aggregator -----------------------------------------------------------------------------------

def _hic_extra_tables():
    return [("hic-3chrom-onebin", gen.chrom_bins(0, [2, 2, 1]) + gen.chrom_bins(1, [3]) + gen.chrom_bins(2, [2, 1])),
            ("hic-3chrom-variable", gen.chrom_bins(0, [1, 3, 2]) + gen.chrom_bins(1, [7]) + gen.chrom_bins(2, [2, 1]))]


def _hic_anchors(bins):
    """edge anchors: every bin start and every bin end - 1 (hence 0 and L-1) of every chromosome"""
    out = []
    for c in range(len(_sizes(bins))):
        edges, _ = _edge_positions(bins, c)
        out += [(c, p) for p in edges]
    return out


def _hic_pairs(bins, first=None):
    """every upper-triangular pair of edge anchors, sorted by (chrms1, cuts1); `first`: only these first chromosomes"""
    anc = _hic_anchors(bins)
    return sorted([a[0], a[1], b[0], b[1]] for a in anc for b in anc if a <= b and (first is None or a[0] in first))


def _hic_chunks_of(css, k):
    return [css[i:i + k] for i in range(0, len(css), k)]


def _hic_random(rng, bins, nrec, edge=0.6):
    """a well-formed file: nrec upper-triangular pairs, cuts biased to bin edges, duplicates likely"""
    L = _sizes(bins)
    recs = []
    for _ in range(nrec):
        def side():
            c = rng.randrange(len(L))
            e, _ = _edge_positions(bins, c)
            return (c, rng.choice(e) if rng.random() < edge else rng.randrange(L[c]))
        a, b = side(), side()
        if rng.random() < 0.2:
            b = a
        if a > b:
            a, b = b, a
        recs.append([a[0], a[1], b[0], b[1]])
    recs.sort(key=lambda r: (r[0], r[1]))
    return recs


def hiclib_cases(tier, rng):
    thorough = tier == "thorough"
    # corpus: the non-vacuity examples of Props/C05Hiclib.lean, every chunksize, every route
    ex_recs = [[0, 0, 0, 0], [0, 1, 0, 4], [0, 1, 2, 2], [0, 2, 0, 3], [0, 3, 0, 3], [0, 3, 2, 0], [0, 4, 0, 4], [0, 4, 2, 2],
               [2, 0, 2, 1], [2, 2, 2, 2]]
    for label, bins, how in (("exFixed", gen.chrom_bins(0, [2, 2, 1]) + gen.chrom_bins(1, [2]) + gen.chrom_bins(2, [2, 1]), 2),
                             ("exVar", gen.chrom_bins(0, [1, 3, 2]) + gen.chrom_bins(1, [7]) + gen.chrom_bins(2, [2, 1]), "bed")):
        css = list(range(1, len(ex_recs) + 2))
        yield "hiclib", {"bins": bins, "recs": ex_recs, "chunksizes": css, "bins_how": how, "kind": f"hic-corpus:{label}",
                         "via": [("create", 1), ("create", 4), ("cli", 1), ("cli", 2), ("cli", 100)]}
        yield "hiclib_chunks", {"bins": bins, "recs": ex_recs, "chunksizes": css, "kind": f"hic-corpus:{label}"}
    tabs = tables(tier, rng) + _hic_extra_tables()
    uniform = {"uniform-short-last": 2, "uniform-exact-3chrom": 2, "uniform-width1": 1, "uniform-3": 3,
               "uniform-4-3chrom": 4, "uniform-5": 5, "hic-3chrom-onebin": None}
    for ti, (label, bins) in enumerate(tabs):
        nch = len(_sizes(bins))
        files = [("all", _hic_pairs(bins))] + [(f"only-c{c}", _hic_pairs(bins, first={c})) for c in sorted({0, nch - 1})]
        files.append(("empty", []))
        for fl, recs in files:
            every = list(range(1, len(recs) + 2))
            for k, css in enumerate(_hic_chunks_of(every, 10)):
                via = []
                if k == 0:
                    via = [("create", 1), ("create", 3), ("create", len(recs) + 1), ("cli", 2 if ti % 2 else 5)]
                yield "hiclib", {"bins": bins, "recs": recs, "chunksizes": css, "via": via, "kind": f"hic-edges:{label}",
                                 "bins_how": (uniform.get(label) if ti % 2 else None) or "bed"}
                if recs:
                    yield "hiclib_chunks", {"bins": bins, "recs": recs, "chunksizes": css, "kind": f"hic-edges:{label}"}
        # other integer dtypes of the datasets (hiclib stores int8 chromosome ids and int32/int64 cuts)
        recs = _hic_pairs(bins)
        for dt in ("int32", "uint16"):
            yield "hiclib", {"bins": bins, "recs": recs, "chunksizes": [1, 3, len(recs)], "dtype": dt, "kind": f"hic-dtype:{label}"}
        # a lower-triangle pair at the first / a middle / the last position of a well-formed file
        anc = _hic_anchors(bins)
        strict = [(a, b) for a in anc for b in anc if a < b]
        for pos in ("first", "middle", "last"):
            a, b = strict[{"first": 0, "middle": len(strict) // 2, "last": -1}[pos]]
            bad = sorted(recs[::3] + [[b[0], b[1], a[0], a[1]]], key=lambda r: (r[0], r[1]))
            yield "hiclib", {"bins": bins, "recs": bad, "chunksizes": [1, 2, 5, len(bad) + 1], "via": [("create", 2)] if pos == "middle" else [],
                             "kind": f"hic-lower:{label}"}
        yield "hiclib", {"bins": bins, "recs": [[strict[-1][1][0], strict[-1][1][1], strict[-1][0][0], strict[-1][0][1]]], "chunksizes": [1, 2],
                         "kind": f"hic-lower:{label}"}
        # an id heading two runs of the first column
        if nch >= 2:
            r0 = [r for r in recs if r[0] == 0][:3]
            r1 = [r for r in recs if r[0] == nch - 1][:2]
            for bad in (r0[:1] + r1 + r0[1:], r1[:1] + r0 + r1[1:], r0[:2] + r1[:1] + r0[2:] + r1[1:]):
                yield "hiclib", {"bins": bins, "recs": bad, "chunksizes": [1, 2, len(bad) + 1], "via": [("cli", 2)], "kind": f"hic-unsorted:{label}"}
    # seeded small files (duplicates, few records): EVERY chunksize
    for k in range(120 if thorough else 36):
        label, bins = tabs[k % len(tabs)] if k % 4 else ("random", gen.random_segmentation(rng, rng.randint(1, 4), 12 if thorough else 8))
        recs = _hic_random(rng, bins, rng.randint(1, 8))
        css = list(range(1, len(recs) + 2))
        via = [(rng.choice(["create", "cli"]), rng.choice(css))] if k % 3 == 0 else []
        yield "hiclib", {"bins": bins, "recs": recs, "chunksizes": css, "via": via, "kind": f"hic-small:{label}"}
        yield "hiclib_chunks", {"bins": bins, "recs": recs, "chunksizes": css, "kind": f"hic-small:{label}"}
    # seeded larger files
    for k in range(60 if thorough else 14):
        bins = gen.random_segmentation(rng, rng.randint(2, 5), 60 if thorough else 30)
        nrec = rng.randint(30, 400 if thorough else 160)
        recs = _hic_random(rng, bins, nrec, edge=0.4)
        css = sorted({1, 2, nrec - 1, nrec, nrec + 1} | {rng.randint(2, nrec) for _ in range(3)})
        yield "hiclib", {"bins": bins, "recs": recs, "chunksizes": css, "via": [("create", rng.choice(css)), ("cli", rng.choice(css))] if k % 2 == 0 else [],
                         "kind": "hic-large"}
        yield "hiclib_chunks", {"bins": bins, "recs": recs, "chunksizes": css, "kind": "hic-large"}


def hiclib_rowlabels_cases(tier, rng):
    """well-formed files, the bin table presented with each non-default row labelling"""
    for label, bins in tables(tier, rng) + _hic_extra_tables():
        recs = _hic_pairs(bins)
        small = _hic_random(rng, bins, 6)
        for form in HIC_LABEL_FORMS[1:]:
            yield "hiclib_rowlabels", {"bins": bins, "recs": recs, "chunksizes": [1, 2, 3, 7, len(recs) + 1], "rowlabels": form,
                                       "via": [("create", 2)] if form in ("reversed", "offset") else [],
                                       "kind": f"hic-rowlabels-{form}:{label}"}
            yield "hiclib_rowlabels", {"bins": bins, "recs": small, "chunksizes": list(range(1, len(small) + 2)), "rowlabels": form,
                                       "kind": f"hic-rowlabels-{form}:{label}"}


def hiclib_outside_cases(tier, rng):
    """files the specification rejects (a cut outside its chromosome) or trims (an id that is not in the table)"""
    tabs = tables(tier, rng)[:4] + _hic_extra_tables()[:1]
    for label, bins in tabs:
        L = _sizes(bins)
        n = len(L)
        base = _hic_pairs(bins)[::4]
        extra = []
        for c in range(n):
            for p in (L[c], L[c] + 1, -1):
                extra.append(("pos", [c, p, n - 1, L[n - 1] - 1] if p >= 0 else [c, p, c, 0]))     # first side outside
                extra.append(("pos", [0, 0, c, p]))                                                  # second side outside
        for c in (-1, n, n + 1, -(n + 1), -(n + 2)):
            extra.append(("id", [0, 0, c, 0]))            # second id not in the table (wraps around / IndexError)
            extra.append(("id", [c, 0, 0, 0]))            # first id not in the table (never visited)
        for i, (what, x) in enumerate(extra):
            for recs in ([x], sorted(base + [x], key=lambda r: (r[0], r[1]))):
                yield "hiclib_outside", {"bins": bins, "recs": recs, "chunksizes": [1, 2, len(recs) + 1],
                                         "via": [("create", 1)] if i % 2 == 0 else ([("cli", 2)] if i % 5 == 0 else []),
                                         "kind": f"hic-outside-{what}:{label}"}


def nontrivial(name, case):
    if name in ("constants", "aggregate_unit"):
        return bool(case.get("rows"))
    if "tables" in case:
        return True
    if "recs" in case:
        return len(case["bins"]) >= 2 and bool(case["recs"])
    if len(case.get("bins", [])) < 2:
        return False
    if "batches" in case:
        return any(len(b) for b in case["batches"])
    return bool(case.get("records"))


def distribution(name, case):
    k = case.get("kind")
    if k:
        yield f"{name}.{k.split(':')[0]}"
    if "opts" in case and "trils" not in case:
        yield f"{name}.tril={case['opts'].get('tril')}"


# ---------------------------------------------------------------------------------------------
# shrinking and escalation
# ---------------------------------------------------------------------------------------------

def shrink(name, case):
    if "recs" in case:      # hiclib: one chunksize, one route, fewer read pairs
        if len(case["chunksizes"]) > 1 or case.get("via"):
            for cs in case["chunksizes"]:
                yield dict(case, chunksizes=[cs], via=[])
            for v in case.get("via", []):
                yield dict(case, chunksizes=[v[1]], via=[v])
        rs = case["recs"]
        for i in range(len(rs)):
            yield dict(case, recs=rs[:i] + rs[i + 1:])
        return
    if len(case.get("trils", [])) > 1:
        for t in case["trils"]:
            yield dict(case, trils=[t])
    if "batches" in case:
        bs = case["batches"]
        if len(bs) > 1:
            for i in range(len(bs)):
                yield dict(case, batches=[bs[i]])
            return
        b = bs[0]
        if name.startswith("records"):
            flat = [r for ch in b for r in ch]
            if len(b) > 1:
                yield dict(case, batches=[[flat]])
            for i in range(len(flat)):
                if len(b) == 1:
                    yield dict(case, batches=[[flat[:i] + flat[i + 1:]]])
        else:
            for i in range(len(b)):
                yield dict(case, batches=[b[:i] + b[i + 1:]])
    elif "records" in case:
        rs = case["records"]
        for i in range(len(rs)):
            yield dict(case, records=rs[:i] + rs[i + 1:])
        for key in ("chunksize", "junk", "header"):
            if case.get(key):
                yield dict(case, **{key: None if key == "chunksize" else ([] if key == "header" else 0)})
    elif "rows" in case:
        rs = case["rows"]
        for i in range(len(rs)):
            yield dict(case, rows=rs[:i] + rs[i + 1:])


def escalate(name, case, rng):
    """a unit correspondence stopped checking: look for an input on which the property itself fails (and is not D13)"""
    worker_init()
    findings = [{"id": "D13"}]

    def fails(nm, c):
        r = run_check(CHECKS[nm], c)
        if r and not classify(nm, c, r, findings):
            return {"check": nm, "case": c, "result": r}
        return None
    if name == "hiclib_chunks":
        # the loop no longer cuts where the proof needs it to: does a read pair get lost, doubled or a pixel split?
        nrec = len(case["recs"])
        every = list(range(1, nrec + 2))
        got = fails("hiclib", dict(case, chunksizes=every, via=[("create", cs) for cs in sorted(set(case["chunksizes"]))[:6]]))
        if got:
            return got
        for label, bins in tables("quick", rng) + _hic_extra_tables():
            recs = _hic_pairs(bins)
            for cs0 in range(1, len(recs) + 2, 6):
                css = list(range(cs0, min(cs0 + 6, len(recs) + 2)))
                got = fails("hiclib", {"bins": bins, "recs": recs, "chunksizes": css, "via": [("create", css[0])], "kind": "escalation"})
                if got:
                    return got
        return None
    if name == "records_unit":
        o = dict(case["opts"], validate=True)
        if o.get("tril") not in TRILS:
            o["tril"] = "reflect"
        got = fails("records_top", dict(case, opts=o))
        if got:
            return got
        bins = case["bins"]
        anc = _anchors(bins)
        for one_based in (False, True):
            for tril in TRILS:
                batches = [[[[c1, p1, c2, p2, [], [], [1, 0]]]] for (c1, p1) in anc for (c2, p2) in anc]
                got = fails("records_top", {"bins": bins, "opts": {"one_based": one_based, "tril": tril, "sort": o.get("sort", False)},
                                            "batches": batches, "kind": "escalation"})
                if got:
                    return got
        for _ in range(150):
            nx = rng.choice([0, 1])
            recs = [_rand_record(rng, bins, False, nx, 2, i, False) for i in range(rng.randint(1, 8))]
            c = {"bins": bins, "opts": dict(o, one_based=False, sided_extra=[True] * nx), "batches": _perm_batches(rng, recs, 3), "kind": "escalation"}
            got = fails("records_top", c)
            if got:
                return got
    if name in ("pixels_unit", "aggregate_unit"):
        bins = case.get("bins") or (gen.chrom_bins(0, [2, 2]) + gen.chrom_bins(1, [3]))
        ids = list(range(-1, len(bins) + 2))
        for one_based in (False, True):
            for tril in TRILS:
                batches = [[[i, j, [], [], [3, 0]], [j, i, [], [], [2, 1]], [i, j, [], [], [1, 2]]] for i in ids for j in ids]
                got = fails("pixels_top", {"bins": bins, "opts": {"one_based": one_based, "tril": tril, "sort": True}, "batches": batches})
                if got:
                    return got
        if name == "aggregate_unit":
            tb = gen.chrom_bins(0, [2, 2]) + gen.chrom_bins(1, [2, 1])
            for _ in range(60):
                recs = [_rand_record(rng, tb, False, 0, 2, i, False) for i in range(rng.randint(1, 8))]
                got = fails("records_top", {"bins": tb, "opts": {"tril": "reflect"}, "batches": _perm_batches(rng, recs, 2)})
                if got:
                    return got
    return None
