"""C12 — balanced reads equal raw values times the two bin weights.

Oracle: the Lean model `Model/Balanced.lean` run at `α := Float` by the driver; floats are compared
bit for bit (hex of the binary64 pattern, any NaN = "nan").  The raw (unbalanced) result of the same
query is measured on the implementation and handed to the model, so a range-query defect (C03) is
not this property's alarm.

Verdict per (window, configuration, form): the implementation's values equal the model's (the exact
operand bracketing of today's code) — or, if they do not, they must satisfy the Lean contract
`denseOk` / `sparseOk` / `pixelsOk`: every value bit-equal to *some* bracketing of
raw × wt(row bin) × wt(column bin) (`products3`).  Only a contract failure (or a wrong error/ok
outcome) is a mismatch; a mere change of bracketing is counted in the evidence
(`bracketing_differs`).  See STRICT_ASSOCIATION.
"""
from __future__ import annotations

import os
import struct

import numpy as np
import pandas as pd

from harness import gen
from harness.common import drv

PID = "C12"
THEOREMS = ["dense_spec", "dense_value", "dense_shape", "dense_eq_spec", "sparse_eq_spec", "sparse_spec",
            "sparse_ok", "pixels_eq_spec", "pixels_spec", "pixels_ok", "dump_spec", "bias_alias_sound",
            "biases_eq_noAlias", "biases_fst_get", "biases_snd_get", "missing_column_error",
            "cooler_missing_column_error", "dump_missing_error", "divisive_default_iff", "divisive_explicit",
            "dense_contract", "sparse_contract", "pixels_contract", "dump_contract", "cellOk_factors"]
LEVELS = {"matrix": "top", "dump": "top", "sequence": "top", "constants": "unit", "arith": "unit"}
DESCRIBE = {
    "matrix": "Cooler.matrix(balance=b, divisive_weights=d, sparse/as_pixels)[i0:i1, j0:j1] for EVERY window of one "
              "(store, weight columns) pair vs Lean coolerDense/coolerSparse/coolerPixels (Float) fed with the raw "
              "(balance=False) result of the same query; bit-for-bit, falling back to the Lean contract denseOk/sparseOk/pixelsOk "
              "(some bracketing of raw x wt(row) x wt(col)); a missing column must raise in all three forms",
    "dump": "`cooler dump -b` (with/without -r/-r2, --join, -f, --one-based-ids, --one-based-starts, -H) vs Lean dumpBalanced (fallback: contract "
            "pixelsOk) fed with the rows of the same dump without -b; no `weight` column => non-zero exit",
    "sequence": "2-3 collections in ONE file (file::/resolutions/k) with the same weight-column names and different vectors, "
                "read alternately in one process (dense, sparse, pixels; every window): each read vs the Lean model with "
                "THAT collection's weights",
    "constants": "cooler.api._4DN_DIVISIVE_WEIGHTS vs Lean divisiveNames (default divisive flag per name)",
    "arith": "trusted-base self-test: Lean Float `*`, `1.0/x`, Float.ofInt and hex marshalling vs numpy float64 (bit for bit)",
}
RULE = ("one case = one store (n<=5 quick / <=7 thorough bins over 1-2 chromosomes, symmetric-upper or square, random "
        "pixels incl. explicit zeros, negative and 2^31-1 counts, optional float64 field) x 1-4 weight columns "
        "(weight/KR/VC/VC_SQRT/wt2; NaN, +-0, 0.1, 1/3, 1e300, 1e-300, denormal, negative, random) x 4 (quick) / 6 (thorough) "
        "(balance, divisive_weights) configurations incl. True, KR-default, a missing column; inside a case EVERY window "
        "0<=i0<=i1<=n, 0<=j0<=j1<=n x dense/sparse/pixels (join=True on one config, ignore_index=False on one config with "
        "the pixel-id index compared with the unbalanced read's); dump: every -r/-r2 pair x {--join,-f} x printing options "
        "{--one-based-ids,--one-based-starts,-H}; sequence: 2-3 collections per file read in turn; non-trivial = n>=2, a stored pixel and a present "
        "weight column; distinct by canonical JSON of the case")
EXHAUSTIVE = {"quick": False, "thorough": False}
TRUSTED = ["numpy/pandas float64 `*` and `/` and int->float64 conversion are IEEE-754 correctly rounded, as are Lean's "
           "Float operations in the compiled driver (self-tested by check `arith` on every run)",
           "the raw (balance=False) query result is an input of the model (range query = property C03)",
           "h5py dataset slicing `w[a:b]`, numpy fancy indexing, np.outer, pandas column arithmetic, annotate() as a plain "
           "per-row lookup of the weight by bin id (annotate itself = property C14), click option parsing",
           "to_csv('%.17g') / float() round-trip binary64 exactly"]
ASSUMPTIONS = ["weight columns are float64 vectors with one entry per bin (as cooler.balance stores them)",
               "windows 0 <= i0 <= i1 <= nbins, 0 <= j0 <= j1 <= nbins (what RangeSelector2D passes through unchanged)",
               "the balance argument is False, True or a non-empty column name (balance='' is Python-falsy and reads unbalanced)",
               "stored integer values below 2^63 in magnitude"]
CHUNK = 1
# The property fixes the three factors of every value, not the bracketing of their product.  A result
# whose values are another bracketing of the same three factors (each cell bit-equal to one of Lean
# `products3`) meets the property: it is counted (`bracketing_differs` in the evidence) and does not
# gate.  Set to True to make the exact bracketing of today's code gating as well.
STRICT_ASSOCIATION = False

NAMES = ["weight", "KR", "VC", "VC_SQRT", "wt2"]
BINSIZE = 10


def worker_init():
    global cooler, h5py
    import warnings
    warnings.filterwarnings("ignore")
    np.seterr(all="ignore")
    import cooler  # noqa
    import h5py  # noqa


# ------------------------------------------------------------------------------------------------
# marshalling
# ------------------------------------------------------------------------------------------------

def hx(x):
    x = float(x)
    return "nan" if x != x else struct.pack(">d", x).hex()


def unhx(s):
    return float("nan") if s == "nan" else struct.unpack(">d", bytes.fromhex(s))[0]


def hexes(a):
    """1-D array-like of float64 → list of hex strings (NaN by class); a non-float64 array is converted
    value-preservingly first (a float32 result then shows up as different bits, as it should)"""
    a = np.ascontiguousarray(np.asarray(a, dtype=np.float64)).ravel()
    if a.size == 0:
        return []
    h = a.astype(">f8").tobytes().hex()
    nan = np.isnan(a)
    return ["nan" if nan[k] else h[16 * k:16 * k + 16] for k in range(a.size)]


def rawvals(a, rawfloat):
    if rawfloat:
        return hexes(a)
    return [int(x) for x in np.asarray(a).ravel()]


# ------------------------------------------------------------------------------------------------
# building the store
# ------------------------------------------------------------------------------------------------

def _bins(case):
    bins = []
    for c, k in enumerate(case["chroms"]):
        bins += gen.chrom_bins(c, [BINSIZE] * k)
    return bins


def _build(case, tag):
    bins = _bins(case)
    p = os.path.join(gen.tmpdir(), f"c12-{tag}-{os.getpid()}.cool")
    px = case["pixels"]
    df = pd.DataFrame({
        "bin1_id": np.array([r[0] for r in px], dtype=np.int64),
        "bin2_id": np.array([r[1] for r in px], dtype=np.int64),
        "count": np.array([r[2] for r in px], dtype=np.int64),
    })
    kw = {}
    if case.get("field", "count") == "fv":
        df["fv"] = np.array([unhx(r[3]) for r in px], dtype=np.float64)
        kw = {"columns": ["count", "fv"], "dtypes": {"fv": np.float64}}
    cooler.create_cooler(p, gen.bins_df(bins), df, symmetric_upper=(case["mode"] == "symm"), ordered=True, **kw)
    with h5py.File(p, "r+") as f:
        for name, vec in case["weights"]:
            # the way cooler.balance stores a weight vector
            f["bins"].create_dataset(name, data=np.array([unhx(s) for s in vec], dtype=np.float64),
                                     compression="gzip", compression_opts=6)
    return p


def _windows(n):
    for i0 in range(n + 1):
        for i1 in range(i0, n + 1):
            for j0 in range(n + 1):
                for j1 in range(j0, n + 1):
                    yield (i0, i1, j0, j1)


def _outcome(f):
    """('ok', value) | ('err', exception class name)"""
    try:
        return ("ok", f())
    except Exception as e:  # noqa
        return ("err", type(e).__name__)


# canonical forms of the three outputs --------------------------------------------------------------

def _dense_canon(arr, rawfloat, balanced):
    arr = np.asarray(arr)
    if arr.ndim != 2:
        return {"bad_ndim": int(arr.ndim)}
    if balanced or rawfloat:
        return [hexes(row) for row in arr]
    return [[int(x) for x in row] for row in arr]


def _sparse_canon(mat, rawfloat, balanced):
    m = mat.tocoo() if hasattr(mat, "tocoo") else mat
    vals = hexes(m.data) if (balanced or rawfloat) else [int(x) for x in m.data]
    return [[int(r), int(c), v] for r, c, v in zip(m.row, m.col, vals)]


def _pixels_canon(df, field, rawfloat, joined, binid):
    """(rows [bin1, bin2, raw, balanced-or-None] in frame order, index labels in frame order)"""
    if joined:
        b1 = [binid[(str(c), int(s))] for c, s in zip(df["chrom1"], df["start1"])]
        b2 = [binid[(str(c), int(s))] for c, s in zip(df["chrom2"], df["start2"])]
    else:
        b1 = [int(x) for x in df["bin1_id"]]
        b2 = [int(x) for x in df["bin2_id"]]
    raw = rawvals(df[field].to_numpy(), rawfloat)
    bal = hexes(df["balanced"].to_numpy()) if "balanced" in df.columns else [None] * len(df)
    return [[a, b, r, v] for a, b, r, v in zip(b1, b2, raw, bal)], [int(x) for x in df.index]


def _pxkey(r):
    return (r[0], r[1], str(r[2]), str(r[3]))


def _expect(model_entry, what):
    """model answer → ('ok', value) | ('err',) | ('raw',)"""
    m = model_entry["model"]
    if "ok" in m:
        return ("ok", m["ok"])
    if "raw" in m:
        return ("raw",)
    return ("err", m["err"])


def _check_l0(entry, form):
    """re-evaluate L1 = L0 where the driver evaluated both (theorems dense_eq_spec, sparse_eq_spec, pixels_eq_spec)"""
    m, spec = entry["model"], entry["spec"]
    if spec is None:
        return
    if form == "dense":
        assert "ok" in m and m["ok"] == spec, f"L1 != L0 (dense): {m} vs {spec}"
    else:
        assert m == spec, f"L1 != L0 ({form}): {m} vs {spec}"


FORMS = ["dense", "sparse", "pixels", "pixels_join", "pixels_idx"]


class _Ctx:
    """one collection being read: its Cooler object, its weight columns, and the run's bookkeeping"""

    def __init__(self, clr, case, stats, mism, label=None):
        self.clr = clr
        self.cols = case["weights"]
        self.field = case.get("field", "count")
        self.rawfloat = self.field == "fv"
        self.configs = case["configs"]
        self.joincfg = case.get("join_config", 0)
        self.idxcfg = case.get("idx_config", 0)
        self.binid = {(gen.chromname(b[0]), b[1]): k for k, b in enumerate(_bins(case))}
        self.stats = stats
        self.mism = mism
        self.label = label
        self.step = None


def _raws(ctx, win, forms, cfg_idx):
    """the raw (balance=False) results of the same query in the three forms, and the model's answers for them"""
    i0, i1, j0, j1 = win
    sl = (slice(i0, i1), slice(j0, j1))
    w = list(win)
    clr, field, rawfloat = ctx.clr, ctx.field, ctx.rawfloat
    cfgs = [ctx.configs[k] for k in cfg_idx]
    rawD = _outcome(lambda: _dense_canon(clr.matrix(field=field, balance=False, sparse=False)[sl], rawfloat, False))
    rawS = _outcome(lambda: _sparse_canon(clr.matrix(field=field, balance=False, sparse=True)[sl], rawfloat, False))
    # ignore_index=False: the frame is labelled with the pixel-table row ids, which a balanced read must keep
    rawP = _outcome(lambda: _pixels_canon(
        clr.matrix(field=field, balance=False, as_pixels=True, join=False, ignore_index=False)[sl],
        field, rawfloat, False, ctx.binid))
    if "err" in (rawD[0], rawS[0], rawP[0]):
        ctx.stats["raw_query_errors"] += 1  # not this property's business (C03)
    exp = {}
    if rawD[0] == "ok" and "dense" in forms and isinstance(rawD[1], list):
        exp["dense"] = drv().ask("C12.dense", cols=ctx.cols, configs=cfgs, win=w, raw=rawD[1], rawfloat=rawfloat)
    if rawS[0] == "ok" and "sparse" in forms:
        exp["sparse"] = drv().ask("C12.sparse", cols=ctx.cols, configs=cfgs, win=w, raw=rawS[1], rawfloat=rawfloat)
    if rawP[0] == "ok" and any(f.startswith("pixels") for f in forms):
        exp["pixels"] = drv().ask("C12.pixels", cols=ctx.cols, configs=cfgs,
                                  raw=[r[:3] for r in rawP[1][0]], rawfloat=rawfloat)
    raw = {"dense": rawD[1], "sparse": rawS[1]}
    if rawP[0] == "ok":
        raw["pixels"] = rawP[1][0]
        raw["pixel_ids"] = sorted([i_, r[0], r[1]] for i_, r in zip(rawP[1][1], rawP[1][0]))
    return {"win": w, "sl": sl, "raw": raw, "exp": exp, "cfg_idx": list(cfg_idx)}


def _judge(ctx, rw, k, form):
    """one balanced read of configuration `k` in form `form` against the model; appends to ctx.mism"""
    key = "pixels" if form.startswith("pixels") else form
    exp = rw["exp"]
    if key not in exp:
        return
    clr, field, rawfloat, stats = ctx.clr, ctx.field, ctx.rawfloat, ctx.stats
    bal, dw = ctx.configs[k]
    w, sl = rw["win"], rw["sl"]
    i0, i1, j0, j1 = w
    entry = exp[key][rw["cfg_idx"].index(k)]
    _check_l0(entry, key)
    want = _expect(entry, key)
    got_ids = None
    if form == "dense":
        got = _outcome(lambda: _dense_canon(
            clr.matrix(field=field, balance=bal, sparse=False, divisive_weights=dw)[sl], rawfloat, True))
        w_val = want[1] if want[0] == "ok" else None
    elif form == "sparse":
        got = _outcome(lambda: sorted(_sparse_canon(
            clr.matrix(field=field, balance=bal, sparse=True, divisive_weights=dw)[sl], rawfloat, True)))
        w_val = sorted(want[1]) if want[0] == "ok" else None
    else:
        joined = form == "pixels_join"
        # plain: the default (ignore_index=True); idx: pixel ids kept; join: alternately
        keep_ids = form == "pixels_idx" or (joined and (i0 + i1 + j0 + j1) % 2 == 1)
        kw = {"ignore_index": False} if keep_ids else {}
        got = _outcome(lambda: _pixels_canon(
            clr.matrix(field=field, balance=bal, as_pixels=True, join=joined, divisive_weights=dw, **kw)[sl],
            field, rawfloat, joined, ctx.binid))
        if got[0] == "ok":
            rows, ids = got[1]
            if keep_ids:
                got_ids = sorted([i_, r[0], r[1]] for i_, r in zip(ids, rows))
            got = ("ok", sorted(rows, key=_pxkey))
        w_val = (sorted([r[:3] + [v] for r, v in zip(rw["raw"]["pixels"], want[1])], key=_pxkey)
                 if want[0] == "ok" else None)
    stats["comparisons"] += 1
    rawkey = rw["raw"][key]
    verdict = "ok"
    if want[0] == "raw":
        return
    if want[0] == "err":
        # the property promises *an error*, not its class or message
        stats["error_outcomes"] += 1
        if got[0] != "err":
            verdict = "no error for a missing weight column"
    elif got[0] != "ok":
        verdict = "raised"
    else:
        strict = got[1] == w_val
        sample = (i0 + 2 * i1 + 3 * j0 + 5 * j1 + k) % 7 == 0
        if not strict or sample:
            holds = _contract(key, got[1], rawkey, ctx.cols, [bal, dw], w, rawfloat)
            if strict and holds is not True:
                raise AssertionError(f"model output rejected by the contract (theorems *_contract): "
                                     f"{key} {w} {bal} {dw} {got[1]}")
            if not strict:
                stats["bracketing_differs"] += 1
                if holds is not True or STRICT_ASSOCIATION:
                    verdict = "wrong value" if holds is not True else "bracketing differs (STRICT_ASSOCIATION)"
        if verdict == "ok" and got_ids is not None:
            stats["index_comparisons"] += 1
            if got_ids != rw["raw"]["pixel_ids"]:
                verdict = "pixel-id index differs from the unbalanced read's"
    if verdict != "ok":
        rec = {"win": w, "balance": bal, "divisive_weights": dw, "form": form, "config_index": k,
               "verdict": verdict,
               "impl": got[1] if got[0] == "ok" else {"raised": got[1]},
               "model": w_val if want[0] == "ok" else {"error": want[1]},
               "raw": rawkey}
        if got_ids is not None:
            rec["impl_pixel_ids"] = got_ids
            rec["raw_pixel_ids"] = rw["raw"].get("pixel_ids")
        if ctx.label is not None:
            rec["group"] = ctx.label
            rec["step"] = ctx.step
        ctx.mism.append(rec)
        nvalue = sum(1 for m_ in ctx.mism if m_["verdict"] == "wrong value")
        if (nvalue >= 1 and len(ctx.mism) >= 3) or len(ctx.mism) >= 30:
            raise _Stop()


def _new_stats():
    return {"windows": 0, "comparisons": 0, "raw_query_errors": 0, "error_outcomes": 0, "bracketing_differs": 0,
            "index_comparisons": 0}


def _verdict(mism, stats):
    if mism:
        # a wrong value makes a clearer replay than an exception: report it first
        mism.sort(key=lambda m_: m_["verdict"] != "wrong value")
        return {"mismatch": True, "first": mism[0], "more": mism[1:3], "n_reported": len(mism)}
    return {"stats": stats}


def _matrix(case):
    n = sum(case["chroms"])
    only = case.get("only")
    p = _build(case, "m")
    stats, mism = _new_stats(), []
    try:
        ctx = _Ctx(cooler.Cooler(p), case, stats, mism)
        wins = [tuple(only["win"])] if only else list(_windows(n))
        forms = only["forms"] if only else FORMS
        cfg_idx = only["configs"] if only else list(range(len(ctx.configs)))
        for win in wins:
            stats["windows"] += 1
            rw = _raws(ctx, win, forms, cfg_idx)
            for k in cfg_idx:
                for form in forms:
                    if not only and ((form == "pixels_join" and k != ctx.joincfg) or
                                     (form == "pixels_idx" and k != ctx.idxcfg)):
                        continue
                    _judge(ctx, rw, k, form)
    except _Stop:
        pass
    finally:
        if os.path.exists(p):
            os.unlink(p)
    return _verdict(mism, stats)


# ------------------------------------------------------------------------------------------------
# several collections in one file, read alternately in one process
# ------------------------------------------------------------------------------------------------

def _group_path(k):
    return f"/resolutions/{BINSIZE * (k + 1)}"


def _sequence(case):
    """state carried between calls: every read of a collection must use THAT collection's weights, whatever was
    read before from another collection of the same (unmodified) file"""
    groups = case["groups"]
    only = case.get("only")
    p = os.path.join(gen.tmpdir(), f"c12-s-{os.getpid()}.mcool")
    if os.path.exists(p):
        os.unlink(p)
    stats, mism = _new_stats(), []
    try:
        for k, g in enumerate(groups):
            px = g["pixels"]
            df = pd.DataFrame({
                "bin1_id": np.array([r[0] for r in px], dtype=np.int64),
                "bin2_id": np.array([r[1] for r in px], dtype=np.int64),
                "count": np.array([r[2] for r in px], dtype=np.int64),
            })
            cooler.create_cooler(f"{p}::{_group_path(k)}", gen.bins_df(_bins(g)), df,
                                 symmetric_upper=(g["mode"] == "symm"), ordered=True, mode="a")
        with h5py.File(p, "r+") as f:
            for k, g in enumerate(groups):
                for name, vec in g["weights"]:
                    f[_group_path(k)]["bins"].create_dataset(
                        name, data=np.array([unhx(s_) for s_ in vec], dtype=np.float64),
                        compression="gzip", compression_opts=6)
        # from here on the file is not modified
        ctxs = []
        for k, g in enumerate(groups):
            gc = dict(g)
            gc["configs"] = case["configs"]
            ctxs.append(_Ctx(cooler.Cooler(f"{p}::{_group_path(k)}"), gc, stats, mism, label=k))
        wlists = [list(_windows(sum(g["chroms"]))) for g in groups]
        steps = [only["step"]] if only else range(max(len(wl) for wl in wlists))
        forms = only["forms"] if only else ["dense", "sparse", "pixels"]
        cfg_idx = only["configs"] if only else list(range(len(case["configs"])))
        for t in steps:
            stats["windows"] += 1
            for c_ in ctxs:
                c_.step = t
            rws = [_raws(ctx, wl[t % len(wl)], forms, cfg_idx) for ctx, wl in zip(ctxs, wlists)]
            for k in cfg_idx:
                for form in forms:
                    # the same read from each collection in turn; the order of the turn rotates
                    order = list(range(len(ctxs)))
                    order = order[t % len(order):] + order[:t % len(order)]
                    for g_ in order:
                        _judge(ctxs[g_], rws[g_], k, form)
    except _Stop:
        pass
    finally:
        if os.path.exists(p):
            os.unlink(p)
    return _verdict(mism, stats)


class _Stop(Exception):
    pass


def _contract(key, got, raw, cols, config, w, rawfloat):
    """the property's contract (Lean denseOk / sparseOk / pixelsOk) on the implementation's result;
    True / False, or False when the result does not even have the raw result's rows"""
    if key == "dense":
        if not isinstance(got, list):
            return False
        return drv().ask("C12.contract", form="dense", cols=cols, config=config, win=w, raw=raw, out=got,
                         rawfloat=rawfloat)["holds"]
    if key == "sparse":
        rs = sorted(raw, key=lambda r: (r[0], r[1], str(r[2])))
        return drv().ask("C12.contract", form="sparse", cols=cols, config=config, win=w, raw=rs, out=got,
                         rawfloat=rawfloat)["holds"]
    rs = sorted([r[:3] for r in raw], key=lambda r: (r[0], r[1], str(r[2])))
    if [g[:3] for g in got] != rs or any(g[3] is None for g in got):
        return False
    return drv().ask("C12.contract", form="pixels", cols=cols, config=config, raw=rs, out=[g[3] for g in got],
                     rawfloat=rawfloat)["holds"]


# ------------------------------------------------------------------------------------------------
# cooler dump -b
# ------------------------------------------------------------------------------------------------

def _fields(out, header_flag):
    """stdout of a dump → (header fields or None, list of rows as lists of strings)"""
    lines = [l for l in out.splitlines() if l.strip()]
    header = None
    if header_flag and lines and lines[0].split("\t")[0] in ("bin1_id", "chrom1"):
        header = lines[0].split("\t")
        lines = lines[1:]
    return header, [l.split("\t") for l in lines]


def _zero_based_rows(rows, joined, binid):
    """rows of a dump printed WITHOUT the one-based options → [bin1, bin2, count]"""
    out = []
    for t in rows:
        if joined:
            out.append([binid[(t[0], int(t[1]))], binid[(t[3], int(t[4]))], int(t[6])])
        else:
            out.append([int(t[0]), int(t[1]), int(t[2])])
    return out


def _regions(case):
    """None plus every non-empty bin range inside one chromosome, as UCSC strings"""
    out = [None]
    for c, k in enumerate(case["chroms"]):
        out.append(gen.chromname(c))
        for a in range(k):
            for b in range(a + 1, k + 1):
                out.append(f"{gen.chromname(c)}:{a * BINSIZE}-{b * BINSIZE}")
    return out


BASE_FLAGS = [[], ["--join"], ["-f"], ["--join", "-f"]]
# options that change how ids / coordinates / the header are PRINTED; none may change a balanced value
PRINT_FLAGS = [[], ["--one-based-ids"], ["--one-based-starts"], ["--one-based-ids", "--one-based-starts"], ["-H"],
               ["-H", "--one-based-ids"]]


def _dump(case):
    from click.testing import CliRunner
    from cooler.cli import cli
    p = _build(case, "d")
    binid = {(gen.chromname(b[0]), b[1]): k for k, b in enumerate(_bins(case))}
    cols = case["weights"]
    stats = {"dumps": 0, "rows": 0, "missing_weight": 0, "bracketing_differs": 0, "print_option_dumps": 0,
             "unpaired_print_option_dumps": 0}
    only = case.get("only")

    def bad(r1, r2, flags, **kw):
        return dict({"mismatch": True, "regions": [r1, r2], "flags": flags}, **kw)

    try:
        regs = _regions(case)
        combos = []
        for r1 in regs:
            if r1 is None:
                combos.append((None, None))
                continue
            for r2 in regs:
                combos.append((r1, r2))
        if only:
            combos = [tuple(only["regions"])]
        # every (r1, r2) pair once, cycling through the option combinations; all combinations for the full dump
        for k, (r1, r2) in enumerate(combos):
            if only:
                variants = [(only.get("base", [f for f in only["flags"] if f in ("--join", "-f")]),
                             only.get("print", [f for f in only["flags"] if f not in ("--join", "-f")]))]
            elif r1 is None:
                variants = [(b, e) for b in BASE_FLAGS for e in PRINT_FLAGS]
            else:
                variants = [(BASE_FLAGS[k % len(BASE_FLAGS)], PRINT_FLAGS[(k // len(BASE_FLAGS)) % len(PRINT_FLAGS)])]
            for base, extra in variants:
                flags = base + extra
                args = ["dump", "--na-rep", "nan", "--float-format", ".17g"] + base
                if r1 is not None:
                    args += ["-r", r1]
                if r2 is not None:
                    args += ["-r2", r2]
                joined = "--join" in base
                hdr = "-H" in extra
                raw0 = CliRunner().invoke(cli, args + [p])                       # zero-based, no -b
                rawF = CliRunner().invoke(cli, args + extra + [p]) if extra else raw0   # same printing options, no -b
                balF = CliRunner().invoke(cli, args + extra + ["-b", p])
                stats["dumps"] += 1
                if extra:
                    stats["print_option_dumps"] += 1
                if raw0.exit_code != 0:
                    continue  # the unbalanced dump itself fails: not this property's business
                rawrows = _zero_based_rows(_fields(raw0.stdout, False)[1], joined, binid)
                m = drv().ask("C12.dump", cols=cols, raw=rawrows)
                if m["spec"] is not None:
                    assert m["model"] == m["spec"], f"L1 != L0 (dump): {m}"
                if "err" in m["model"]:
                    stats["missing_weight"] += 1
                    # an error, and no balanced rows (message / exit status value are not promised)
                    if balF.exit_code == 0:
                        return bad(r1, r2, flags, impl={"exit": 0, "output": balF.output[-400:]}, model=m["model"])
                    continue
                if balF.exit_code != 0:
                    return bad(r1, r2, flags, model="ok", verdict="raised",
                               impl={"exit": balF.exit_code, "output": balF.output[-400:], "exc": repr(balF.exception)})
                bh, brows = _fields(balF.stdout, hdr)
                if any(len(t) < 2 for t in brows):
                    return bad(r1, r2, flags, impl=brows[:5], model="rows with a balanced column", verdict="malformed row")
                # (a) -b only appends a column: the other fields are those of the same dump without -b
                if rawF.exit_code == 0:
                    fh, frows = _fields(rawF.stdout, hdr)
                    if sorted(t[:-1] for t in brows) != sorted(frows):
                        return bad(r1, r2, flags, impl=sorted(t[:-1] for t in brows)[:8], model=sorted(frows)[:8],
                                   verdict="-b changed the rows or their printed ids/coordinates")
                    if hdr and fh is not None and (bh is None or bh[:-1] != fh or bh[-1] != "balanced"):
                        return bad(r1, r2, flags, impl=bh, model=fh + ["balanced"], verdict="header")
                else:
                    frows = None
                # (b) the balanced value of every row is that of ITS pixel: pair the rows printed with the options with
                # the zero-based rows of the plain dump by position (same engine, same order; the count must agree)
                if frows is None or len(frows) != len(rawrows) or any(
                        t[6 if joined else 2] != str(r[2]) for t, r in zip(frows, rawrows)):
                    stats["unpaired_print_option_dumps"] += 1  # how ids are printed is property C16, not C12
                    continue
                val = {}
                for t in brows:
                    val.setdefault(tuple(t[:-1]), []).append(t[-1])
                got = []
                try:
                    for t in frows:
                        got.append(hx(float(val[tuple(t)].pop(0))))
                except (ValueError, KeyError, IndexError):
                    return bad(r1, r2, flags, impl=brows[:8], model="a float in the balanced column", verdict="malformed value")
                want = m["model"]["ok"]
                stats["rows"] += len(want)
                differs = got != want
                if differs or stats["dumps"] % 5 == 0:
                    holds = drv().ask("C12.dump_contract", cols=cols, raw=rawrows, out=got)["holds"] is True
                    if not differs:
                        assert holds, f"model output rejected by the contract (theorem dump_contract): {got}"
                    else:
                        stats["bracketing_differs"] += 1
                        if not holds or STRICT_ASSOCIATION:
                            return bad(r1, r2, flags, impl=[r + [v] for r, v in zip(rawrows, got)],
                                       model=[r + [v] for r, v in zip(rawrows, want)],
                                       verdict="wrong value" if not holds else "bracketing differs (STRICT_ASSOCIATION)")
    finally:
        if os.path.exists(p):
            os.unlink(p)
    return {"stats": stats}


# ------------------------------------------------------------------------------------------------
# units
# ------------------------------------------------------------------------------------------------

def _constants(case):
    from cooler import api
    live = getattr(api, "_4DN_DIVISIVE_WEIGHTS", None)
    if live is None:
        return {"stats": {"constant_not_found": 1}}  # internal name: behaviour is checked end to end by `matrix`
    names = sorted(set(map(str, live)) | set(NAMES) | {"kr", "SCALE", "VC_SQRT ", "SQRT_VC"})
    m = drv().ask("C12.constants", names=names)
    impl = sorted(map(str, live))
    if impl != sorted(m["divisive_names"]) or m["default_column"] != "weight":
        return {"mismatch": True, "impl": impl, "model": sorted(m["divisive_names"])}
    return None


def _arith(case):
    """Lean Float vs numpy float64 — trusted base; a difference is an infrastructure failure, not a verdict"""
    for x, y, k in case["triples"]:
        r = drv().ask("C12.float", x=x, y=y, n=k)
        fx, fy = np.float64(unhx(x)), np.float64(unhx(y))
        exp = {"x": hx(fx), "mul": hx(fx * fy), "inv": hx(np.float64(1) / fx), "ofint": hx(np.float64(np.int64(k)))}
        exp2 = hexes(np.array([fx]) * np.array([fy]))[0]
        if r != exp or exp2 != exp["mul"]:
            raise AssertionError(f"Lean Float and numpy float64 disagree: {x} {y} {k}: lean={r} numpy={exp} simd={exp2}")
    return None


CHECKS = {"matrix": _matrix, "dump": _dump, "sequence": _sequence, "constants": _constants, "arith": _arith}


# ------------------------------------------------------------------------------------------------
# generators
# ------------------------------------------------------------------------------------------------

SPECIAL_W = [float("nan"), 0.0, -0.0, 0.1, 1.0 / 3.0, 1.0, 2.5, 1e300, 1e-300, 5e-324, 1e154, -0.7, 3.0, 0.7071067811865476,
             1.7976931348623157e308, 2.2250738585072014e-308, 1e-160]
COUNTS = [0, 1, 1, 2, 3, 5, 7, 10, 1000, 12345, 2 ** 31 - 1, -1, -3, 999983]
SPECIAL_F = [0.0, -0.0, 0.5, 0.1, 1e300, -2.5, float("nan"), 1e-310, 3.0, 7.25]


def _weight_vec(rng, n, style):
    out = []
    for _ in range(n):
        u = rng.random()
        if style == "realistic":
            x = float("nan") if u < 0.2 else rng.uniform(0.2, 3.0)
        elif style == "special":
            x = rng.choice(SPECIAL_W)
        elif style == "wide":
            x = float("nan") if u < 0.1 else (10.0 ** rng.uniform(-200, 200)) * rng.choice([1, 1, 1, -1])
        else:  # mixed
            x = rng.choice(SPECIAL_W) if u < 0.5 else rng.uniform(-2.0, 2.0) if u < 0.7 else 10.0 ** rng.uniform(-8, 8)
        out.append(hx(x))
    return out


def _store(rng, n):
    if n >= 2 and rng.random() < 0.6:
        k = rng.randint(1, n - 1)
        chroms = [k, n - k]
    else:
        chroms = [n]
    mode = rng.choice(["symm", "square"])
    dens = rng.choice([0.3, 0.6, 0.9, 1.0])
    field = "fv" if rng.random() < 0.25 else "count"
    px = []
    for i in range(n):
        for j in range(n):
            if mode == "symm" and j < i:
                continue
            if rng.random() < dens:
                row = [i, j, rng.choice(COUNTS)]
                if field == "fv":
                    row.append(hx(rng.choice(SPECIAL_F) if rng.random() < 0.5 else rng.uniform(-10, 10)))
                px.append(row)
    return {"chroms": chroms, "mode": mode, "pixels": px, "field": field}


def _case(rng, n, nconf):
    case = _store(rng, n)
    present = [nm for nm in NAMES if rng.random() < 0.55]
    if not present:
        present = [rng.choice(NAMES)]
    if rng.random() < 0.85 and "weight" not in present:
        present.insert(0, "weight")
    if rng.random() < 0.8 and "KR" not in present:
        present.append("KR")
    present = [nm for nm in NAMES if nm in present][:4] if len(present) > 4 else [nm for nm in NAMES if nm in present]
    case["weights"] = [[nm, _weight_vec(rng, n, rng.choice(["realistic", "special", "wide", "mixed"]))] for nm in present]
    # configurations: always the default column, a 4DN name with the default flag, a missing column
    pool = [[b, d] for b in [True] + NAMES for d in (None, True, False)]
    fixed = [[True, None]]
    four = [nm for nm in ("KR", "VC", "VC_SQRT") if nm in present]
    if four:
        fixed.append([rng.choice(four), None])
    fixed.append(["missing", rng.choice([None, True, False])])
    rest = [c for c in pool if c not in fixed and (c[0] is True or c[0] in present or rng.random() < 0.1)]
    rng.shuffle(rest)
    case["configs"] = fixed + rest[:max(0, nconf - len(fixed))]
    case["join_config"] = rng.randrange(len(case["configs"]))
    # the configuration read with ignore_index=False on every window: one whose column exists
    live = [k for k, c in enumerate(case["configs"]) if (c[0] is True and "weight" in present) or c[0] in present]
    case["idx_config"] = rng.choice(live) if live else 0
    return case


def _seq_case(rng, nmax):
    """2-3 collections in one file carrying the SAME weight-column names with different vectors"""
    ng = 2 if rng.random() < 0.75 else 3
    names = ["weight"] + ([rng.choice(["KR", "VC", "wt2"])] if rng.random() < 0.7 else [])
    sizes = [rng.randint(2, nmax) for _ in range(ng)]
    if rng.random() < 0.4:
        sizes = [sizes[0]] * ng  # same shape (scool-like): a foreign vector fits and is silently wrong
    groups = []
    for n in sizes:
        g = _store(rng, n)
        g["field"] = "count"
        g["pixels"] = [r[:3] for r in g["pixels"]]
        g["weights"] = [[nm, _weight_vec(rng, n, rng.choice(["realistic", "realistic", "mixed"]))] for nm in names]
        groups.append(g)
    configs = [[True, None]] + [[nm, None] for nm in names[1:]]
    if rng.random() < 0.5:
        configs.append(["weight", True])
    return {"groups": groups, "configs": configs}


def cases(tier, rng):
    thorough = tier == "thorough"
    yield "constants", {}
    for _ in range(12 if thorough else 4):
        tr = []
        for _ in range(200):
            x = rng.choice(SPECIAL_W + [rng.uniform(-3, 3), 10.0 ** rng.uniform(-300, 300),
                                        struct.unpack(">d", struct.pack(">Q", rng.getrandbits(64)))[0]])
            y = rng.choice(SPECIAL_W + [rng.uniform(-3, 3), 10.0 ** rng.uniform(-300, 300),
                                        struct.unpack(">d", struct.pack(">Q", rng.getrandbits(64)))[0]])
            k = rng.choice(COUNTS + [rng.randint(-2 ** 62, 2 ** 62), 2 ** 53 + 1, -(2 ** 53) - 1])
            tr.append([hx(x), hx(y), k])
        yield "arith", {"triples": tr}
    # corpus: the window shapes DESIGN §2.6 names, on a fixed store
    corpus = {"chroms": [2, 1], "mode": "symm", "field": "count",
              "pixels": [[0, 0, 4], [0, 1, 2], [0, 2, 1], [1, 1, 3], [1, 2, 5], [2, 2, 6]],
              "weights": [["weight", [hx(0.1), hx(1 / 3), hx(float("nan"))]], ["KR", [hx(3.0), hx(0.7), hx(0.0)]]],
              "configs": [[True, None], ["KR", None], ["KR", False], ["weight", True], ["missing", None]], "join_config": 0}
    corpus["idx_config"] = 1
    yield "matrix", corpus
    yield "dump", corpus
    # two collections of one file, same column name, different vectors (and lengths), read in turn
    yield "sequence", {"groups": [
        {"chroms": [2, 1], "mode": "symm", "pixels": [[0, 0, 4], [0, 1, 2], [0, 2, 1], [1, 1, 3], [1, 2, 5], [2, 2, 6]],
         "weights": [["weight", [hx(0.1), hx(1 / 3), hx(float("nan"))]]]},
        {"chroms": [2], "mode": "symm", "pixels": [[0, 0, 7], [0, 1, 9], [1, 1, 11]],
         "weights": [["weight", [hx(2.0), hx(0.7)]]]}], "configs": [[True, None], ["weight", True]]}
    nconf = 6 if thorough else 4
    if thorough:
        plan = [(7, 16), (6, 20), (5, 24), (4, 20), (3, 16), (2, 8), (1, 3)]
    else:
        plan = [(5, 8), (4, 10), (3, 12), (2, 8), (1, 3)]
    # largest first so that the long cases do not form the tail of the pool
    for n, count in plan:
        for _ in range(count):
            yield "matrix", _case(rng, n, nconf)
    for _ in range(24 if thorough else 8):
        yield "sequence", _seq_case(rng, 4 if thorough else 3)
    for n, count in ([(7, 4), (6, 6), (5, 8), (4, 8), (3, 8), (2, 4)] if thorough else [(5, 3), (4, 4), (3, 4), (2, 2)]):
        for _ in range(count):
            c = _case(rng, n, 1)
            c["field"] = "count"
            c["pixels"] = [r[:3] for r in c["pixels"]]
            if rng.random() < 0.2:
                c["weights"] = [w for w in c["weights"] if w[0] != "weight"] or [["KR", _weight_vec(rng, n, "special")]]
            c.pop("configs")
            c.pop("join_config")
            yield "dump", c


def nontrivial(name, case):
    if name in ("matrix", "dump"):
        return sum(case["chroms"]) >= 2 and len(case["pixels"]) >= 1 and len(case["weights"]) >= 1
    if name == "sequence":
        return len(case["groups"]) >= 2 and all(g["pixels"] for g in case["groups"])
    return True


def distribution(name, case):
    if name in ("matrix", "dump"):
        yield f"{name}.n={sum(case['chroms'])}"
        yield f"{name}.mode={case['mode']}"
        yield f"{name}.nchroms={len(case['chroms'])}"
        yield f"{name}.field={case.get('field', 'count')}"
        for nm, _ in case["weights"]:
            yield f"{name}.column.{nm}"
    if name == "sequence":
        yield f"sequence.groups={len(case['groups'])}"
        yield "sequence.sizes=" + ("equal" if len({sum(g['chroms']) for g in case['groups']}) == 1 else "different")


# ------------------------------------------------------------------------------------------------
# shrinking, escalation
# ------------------------------------------------------------------------------------------------

def shrink(name, case):
    if name not in ("matrix", "dump", "sequence"):
        return
    if "only" not in case:
        # first pin the failing window / configuration so that later candidates are cheap to re-run
        r = CHECKS[name](case)
        if isinstance(r, dict) and r.get("mismatch"):
            c = dict(case)
            if name == "matrix":
                f = r["first"]
                c["only"] = {"win": f["win"], "forms": [f["form"]], "configs": [f["config_index"]]}
            elif name == "sequence":
                f = r["first"]
                # the whole turn of that step is kept: the failing read needs the read before it
                c["only"] = {"step": f["step"], "forms": [f["form"]], "configs": [f["config_index"]]}
            else:
                c["only"] = {"regions": r["regions"], "flags": r["flags"]}
            yield c
        return
    if name == "sequence":
        for g_, g in enumerate(case["groups"]):
            for k in range(len(g["pixels"])):
                c = dict(case)
                c["groups"] = [dict(x) for x in case["groups"]]
                c["groups"][g_]["pixels"] = g["pixels"][:k] + g["pixels"][k + 1:]
                yield c
        return
    # drop a pixel
    for k in range(len(case["pixels"])):
        c = dict(case)
        c["pixels"] = case["pixels"][:k] + case["pixels"][k + 1:]
        yield c
    # drop a weight column
    for k in range(len(case["weights"])):
        if len(case["weights"]) > 1:
            c = dict(case)
            c["weights"] = case["weights"][:k] + case["weights"][k + 1:]
            yield c
    # simplify a weight / a count
    for k, (nm, vec) in enumerate(case["weights"]):
        for q, s in enumerate(vec):
            for simple in (hx(1.0), hx(2.0), hx(3.0)):
                if s not in (hx(1.0), hx(2.0), hx(3.0)):
                    c = dict(case)
                    c["weights"] = [list(w) for w in case["weights"]]
                    c["weights"][k] = [nm, vec[:q] + [simple] + vec[q + 1:]]
                    yield c
                    break
    for k, r in enumerate(case["pixels"]):
        if r[2] != 1:
            c = dict(case)
            c["pixels"] = case["pixels"][:k] + [[r[0], r[1], 1] + r[3:]] + case["pixels"][k + 1:]
            yield c
    # drop the last bin when nothing refers to it
    n = sum(case["chroms"])
    if n > 1 and name == "matrix" and max(case["only"]["win"]) < n and all(max(r[0], r[1]) < n - 1 for r in case["pixels"]):
        c = dict(case)
        ch = list(case["chroms"])
        ch[-1] -= 1
        if ch[-1] == 0:
            ch.pop()
        c["chroms"] = ch
        c["weights"] = [[nm, vec[:-1]] for nm, vec in case["weights"]]
        yield c


def escalate(name, case, rng):
    """`constants` stopped checking: read through a column carrying each name on which the live set and the
    model's differ, with the default flag — an end-to-end wrong value if the default really changed"""
    if name != "constants":
        return None
    worker_init()
    from cooler import api
    live = set(map(str, getattr(api, "_4DN_DIVISIVE_WEIGHTS", set())))
    model = set(drv().ask("C12.constants", names=[])["divisive_names"])
    for nm in sorted(live ^ model):
        if not nm:
            continue
        c = {"chroms": [2], "mode": "symm", "field": "count", "pixels": [[0, 0, 1], [0, 1, 2], [1, 1, 3]],
             "weights": [[nm, [hx(0.5), hx(3.0)]]], "configs": [[nm, None]], "join_config": 0}
        r = _matrix(c)
        if r and r.get("mismatch"):
            return {"check": "matrix", "case": c, "result": r}
    return None
