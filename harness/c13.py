"""C13 — invalid input or a failed write never yields a cooler nor harms its neighbours.

Fault enumeration.  One case = one producer (ordered / unordered creation, merge_coolers,
coarsen_cooler), one destination kind and one valid chunk stream (or set of input coolers); the check
function then injects EVERY fault of the case's fault space, one at a time, each into a fresh copy of
the destination file: one invalid record of each kind at every chunk index and row position, an
exception raised by the input iterator before every chunk index 0..m, a count that does not fit the
column dtype, and no fault at all (sanity).  The same stream of events is run through the Lean model
(`createSteps` / `pipeline`, `run`) and the observable outcome is compared.
"""
from __future__ import annotations

import gc
import itertools
import os
import shutil
import tempfile

import numpy as np
import pandas as pd

from harness import gen
from harness.common import ImplRaised, drv, errclass, impl, run_check

PID = "C13"
THEOREMS = ["validate_accepts_iff", "validate_accepts_iff_flags", "validate_rejects", "validate_rejects_neg",
            "validate_rejects_excess", "validate_rejects_tril", "validate_rejects_dup", "validate_error_class",
            "validate_sorted_output", "format_last", "prefix_not_cooler", "root_old_format_kept",
            "nonroot_old_format_dropped", "run_fault", "partial_not_cooler", "frame_other_collections",
            "frame_after_run", "frame_listed", "root_unrelated_attrs_kept", "complete_is_cooler",
            "pipeline_dest", "pipeline_dest_untouched", "pipeline_partial_not_cooler", "pipeline_frame",
            "unordered_sortpass_fault_dest_untouched", "unorderedPre_isPre", "producerPre_isPre"]
LEVELS = {"faults": "top", "partial_state": "unit", "validator": "unit", "constants": "unit"}
DESCRIBE = {
    "faults": "fault enumeration: for one producer x destination x valid stream, EVERY injected fault (invalid record of "
              "each kind at every chunk index and row position, iterator exception before every chunk 0..m, dtype overflow, "
              "no fault) is run against a fresh copy of the destination file; after each: the call raised; "
              "is_cooler(dest) is False and dest is not in list_coolers (when dest held no cooler before); every other "
              "collection is still listed, recognised and reads back (pixels, bins, info) identically; unrelated "
              "attributes intact; no temporary file left; compared with the Lean model `run (createSteps ...)` / `runP (pipeline ...)`",
    "partial_state": "after each fault: exception class and the raw state of the half-written destination (tables present, "
                     "`format` attribute absent, rows of the pixel columns) vs the model state `runUntil k`",
    "validator": "cooler.create.validate_pixels(n, boundscheck, triucheck, dupcheck, ensure_sorted)(chunk) vs Lean "
                 "`validateCore` for all 16 flag combinations (DataFrame and dict-of-arrays input)",
    "constants": "cooler.create.MAGIC, the four table names and the default count dtype range vs the model's constants",
}
RULE = ("fault enumeration, EXHAUSTIVE over the fault space of each case: producers {create_cooler ordered=True, "
        "create_cooler ordered=False (mergebuf 2, thorough also max_merge 2), merge_coolers, coarsen_cooler} x destinations "
        "{new file (mode w and a; existing files: mode a, thorough also r+), new group /x/y in a file holding /a, /b/c, /old, a plain group /g and an unrelated root "
        "attribute, existing plain group /g, existing group /old holding an old cooler, group /a/sub nested in a neighbour, "
        "root of that file, root that already is a cooler} x symmetric-upper/square x seeded valid streams of m<=3 (quick) / "
        "m<=4 (thorough) chunks over n<=5 bins (plus fixed corpus streams incl. empty chunks and the empty stream); per "
        "stream EVERY fault: record with id=n (bin2 only / both ids), id=-1 (bin1 / bin2) [thorough: both variants at every "
        "position; quick: both at position 0 and alternating after], lower-triangle record (symmetric "
        "mode), duplicate of a record of the same chunk (quick: one record per position, thorough: every record), each at "
        "EVERY chunk index and EVERY row position; RuntimeError "
        "raised by the iterator before EVERY chunk index 0..m; a count of 2^31 at every record; cross-chunk overflowing "
        "duplicate (unordered); merge/coarsen: aggregation exception / overflow / out-of-range or lower-triangle input "
        "record at every input record, incompatible inputs; and no fault.  validator: ALL chunks of <=3 records over ids "
        "-1..n (n=1,2 quick; n<=3 thorough) x 16 flag combinations.  non-trivial = stream with >=2 chunks or >=2 inputs; "
        "distinct by canonical JSON")
EXHAUSTIVE = {"quick": True, "thorough": True}
TRUSTED = ["HDF5/h5py (file modes, create_group/del, dataset resize, attrs.update) and tempfile are primitives of the step model",
           "the chunk streams produced by CoolerMerger / CoolerCoarsener are observed (iterated once by the harness) and fed "
           "to the model as events: the theorems hold for every stream",
           "content of neighbouring collections is abstracted to content ids in the model; the harness compares real reads"]
ASSUMPTIONS = [
    "failures are Python exceptions leaving the creation call; process kill and HDF5-level torn writes are outside",
    "append mode (a / r+) for destinations in existing files: mode w truncates the file by documented design",
    "collections nested BELOW the destination group are part of what is replaced; a destination inside another "
    "collection's own table groups (chroms/bins/pixels/indexes) is outside the model",
    "a destination that already held a cooler: recognition after a fault is not fixed by the property (a root destination "
    "keeps its old format attribute: theorem root_old_format_kept); only its neighbours are checked there",
    "a duplicate that straddles two chunks is not detected by ordered creation (the property says 'within a chunk')",
    "a count that does not fit the column dtype need not be rejected for C13 (if it is not, the creation must complete)",
]
CHUNK = 1

BIG = 2 ** 31
SENTINEL = 777777
DESTS = ["newfile", "newgroup", "plaingroup", "oldcooler", "nested", "root", "rootold"]
DEST_PATH = {"newfile": "/", "newgroup": "/x/y", "plaingroup": "/g", "oldcooler": "/old", "nested": "/a/sub",
             "root": "/", "rootold": "/"}


def worker_init():
    global cooler, fileops, h5py, validate_pixels, CoolerMerger, CoolerCoarsener
    import cooler  # noqa
    import h5py  # noqa
    from cooler import fileops  # noqa
    from cooler._reduce import CoolerCoarsener, CoolerMerger  # noqa
    from cooler.create import validate_pixels  # noqa


# ----------------------------------------------------------------------------------------------
# marshalling
# ----------------------------------------------------------------------------------------------

def _df(chunk, form="df"):
    d = {"bin1_id": np.array([r[0] for r in chunk], dtype=np.int64),
         "bin2_id": np.array([r[1] for r in chunk], dtype=np.int64),
         "count": np.array([r[2] for r in chunk], dtype=np.int64)}
    return pd.DataFrame(d) if form == "df" else d


def _parts(p):
    return [x for x in p.split("/") if x]


def _put_cooler(dst_file, group, bins, df, symm, **kw):
    """write one collection into `dst_file::group` WITHOUT relying on cooler's append mode: the collection is
    created in a file of its own (mode w) and copied over with h5py"""
    one = dst_file + ".one"
    cooler.create_cooler(one, gen.bins_df(bins), df, symmetric_upper=symm, ordered=True, mode="w", **kw)
    parts = _parts(group)
    with h5py.File(one, "r") as s, h5py.File(dst_file, "a") as dd:
        parent = dd
        for q in parts[:-1]:
            parent = parent.require_group(q)
        s.copy(s["/"], parent, parts[-1])
    os.unlink(one)


def _template(d, case):
    """build the destination file of the case; returns (file path, model description of its groups, neighbours)"""
    kind = case["dest"]
    path = os.path.join(d, "tpl.cool")
    if kind == "newfile":
        return None, None
    magic = cooler.create.MAGIC
    n0 = 3
    b0 = gen.layout_bins([n0])
    if kind == "rootold":
        gen.write_cooler(path, b0, [[0, 0, 4], [1, 2, 6]], mode="w")
    else:
        with h5py.File(path, "w"):
            pass
    _put_cooler(path, "/a", gen.layout_bins([2, 2]), _df([[0, 0, 1], [0, 3, 2], [2, 2, 3]]), True)
    _put_cooler(path, "/b/c", b0, _df([[0, 1, 5], [2, 0, 7]]), False)
    _put_cooler(path, "/old", b0, _df([[1, 1, 9]]), True)
    with h5py.File(path, "r+") as f:
        f.attrs["note"] = "hello"
        g = f.create_group("g")
        g.attrs["tag"] = 3
        g.create_dataset("data", data=np.array([1, 2, 3]))
        g.create_group("sub")
    groups = [
        {"path": [], "fmt": magic if kind == "rootold" else None, "other": [["note", 1]], "id": 9 if kind == "rootold" else None},
        {"path": ["a"], "fmt": magic, "other": [], "id": 10},
        {"path": ["b"], "fmt": None, "other": [], "id": None},
        {"path": ["b", "c"], "fmt": magic, "other": [], "id": 11},
        {"path": ["old"], "fmt": magic, "other": [], "id": 12},
        {"path": ["g"], "fmt": None, "other": [["tag", 2]], "id": None},
        {"path": ["g", "sub"], "fmt": None, "other": [], "id": None},
    ]
    if case.get("src_in_dest"):
        groups.append({"path": ["src"], "fmt": magic, "other": [], "id": 13})
    return path, groups


def _snapshot(uri):
    c = cooler.Cooler(uri)
    px = c.pixels()[:]
    bn = c.bins()[:]
    info = dict(c.info)
    return {"pixels": [[int(a), int(b), int(v)] for a, b, v in zip(px["bin1_id"], px["bin2_id"], px["count"])],
            "bins": [[str(a), int(b), int(e)] for a, b, e in zip(bn["chrom"], bn["start"], bn["end"])],
            "info": {k: (v if isinstance(v, (str, int, float, dict, list, type(None))) else str(v)) for k, v in sorted(info.items())}}


def _unrelated(path, dest):
    """unrelated attributes / plain data that the creation must not touch"""
    out = {}
    with h5py.File(path, "r") as f:
        out["root.note"] = str(f.attrs.get("note"))
        if "g" in f and dest != "/g":
            out["g.tag"] = int(f["g"].attrs.get("tag", -1))
            out["g.data"] = [int(x) for x in f["g/data"][:]] if "data" in f["g"] else None
            out["g.sub"] = "sub" in f["g"]
    return out


# ----------------------------------------------------------------------------------------------
# fault spaces
# ----------------------------------------------------------------------------------------------

def _stream_faults(case, thorough):
    """every fault of an explicit chunk stream (ordered / unordered creation)"""
    chunks, n, symm = case["chunks"], case["n"], case["symm"]
    m = len(chunks)
    out = [{"kind": "none"}]
    for k in range(m + 1):
        out.append({"kind": "raise", "at": k})
    for k, ch in enumerate(chunks):
        for p in range(len(ch) + 1):
            row = ch[p - 1][0] if p > 0 else (ch[0][0] if ch else 0)
            # two variants of each out-of-range kind (which id column); quick: both at position 0, alternating after
            both = thorough or p == 0
            if both or (p + k) % 2 == 0:
                out.append({"kind": "excess", "chunk": k, "pos": p, "rec": [row, n, 1]})
                out.append({"kind": "neg", "chunk": k, "pos": p, "rec": [-1, row, 1]})
            if both or (p + k) % 2 == 1:
                out.append({"kind": "excess", "chunk": k, "pos": p, "rec": [n, n, 1]})
                out.append({"kind": "neg", "chunk": k, "pos": p, "rec": [row, -1, 1]})
            if symm and n >= 2:
                out.append({"kind": "tril", "chunk": k, "pos": p, "rec": [n - 1, (p + k) % (n - 1), 1]})
            if ch:
                whiches = range(len(ch)) if thorough else [(p + k) % len(ch)]
                for q in whiches:
                    out.append({"kind": "dup", "chunk": k, "pos": p, "rec": [ch[q][0], ch[q][1], 99]})
        for p in range(len(ch)):
            out.append({"kind": "overflow", "chunk": k, "pos": p})
    if case["producer"] == "unordered":
        # a key present in two chunks whose counts sum beyond int32: the FINAL pass fails, in the destination
        for k in range(m):
            for k2 in range(m):
                if k != k2 and chunks[k]:
                    out.append({"kind": "overflow_sum", "chunk": k, "chunk2": k2})
                    break
    return out


def _apply_stream_fault(chunks, fault):
    ch = [list(map(list, c)) for c in chunks]
    kind = fault["kind"]
    if kind in ("excess", "neg", "tril", "dup"):
        ch[fault["chunk"]].insert(fault["pos"], list(fault["rec"]))
    elif kind == "overflow":
        ch[fault["chunk"]][fault["pos"]][2] = BIG
    elif kind == "overflow_sum":
        r = ch[fault["chunk"]][0]
        r[2] = 2 ** 30
        ch[fault["chunk2"]].append([r[0], r[1], 2 ** 30])
        ch[fault["chunk2"]].sort()
    events = []
    for k, c in enumerate(ch):
        if kind == "raise" and fault["at"] == k:
            events.append({"raise": True})
            break
        events.append({"chunk": c})
    else:
        if kind == "raise" and fault["at"] == len(ch):
            events.append({"raise": True})
    return events


def _iterator(events, form):
    for e in events:
        if "raise" in e:
            raise RuntimeError("boom")
        yield _df(e["chunk"], form)


def _boom_agg(s):
    if (s == SENTINEL).any():
        raise RuntimeError("boom")
    return s.sum()


def _producer_faults(case, thorough):
    """merge / coarsen: faults are planted in the INPUT coolers"""
    inputs = case["inputs"]
    out = [{"kind": "none"}]
    single = case["producer"] == "merge" and len(inputs) == 1
    for r in range(len(inputs[0])):
        out.append({"kind": "agg_boom", "rec": r})
        if not single:
            out.append({"kind": "overflow", "rec": r})
        if case["producer"] == "merge":
            out.append({"kind": "bad_input", "rec": r, "what": "excess"})
            if case["symm"]:
                out.append({"kind": "bad_input", "rec": r, "what": "tril"})
        elif case["symm"]:
            # coarsen: a lower-triangle record in a symmetric-upper SOURCE (it stays lower after pooling unless both
            # ends fall into one coarse bin; the model judges the chunks the coarsener really yields)
            out.append({"kind": "bad_input", "rec": r, "what": "tril"})
    if case["producer"] == "merge" and not single:
        out.append({"kind": "incompatible"})
    return out


def _faulty_inputs(case, fault):
    """pixel lists of the input coolers with the fault planted (valid coolers are still written: checks off)"""
    inputs = [list(map(list, px)) for px in case["inputs"]]
    n = case["n"]
    kind = fault["kind"]
    if kind == "agg_boom":
        inputs[0][fault["rec"]][2] = SENTINEL
    elif kind == "overflow":
        r = inputs[0][fault["rec"]]
        r[2] = 2 ** 31 - 1
        if case["producer"] == "merge":
            tgt = inputs[1]
            for q in tgt:
                if q[0] == r[0] and q[1] == r[1]:
                    q[2] = 2 ** 31 - 1
                    break
            else:
                tgt.append([r[0], r[1], 2 ** 31 - 1])
                tgt.sort()
        else:
            # coarsen by 2: a second pixel of the same 2x2 block (or the same pixel made to overflow with a partner)
            i, j = r[0], r[1]
            part = None
            for q in inputs[0]:
                if q is not r and q[0] // 2 == i // 2 and q[1] // 2 == j // 2 and _same_chrom(case, q, r):
                    part = q
                    break
            if part is None:
                return None  # no partner in the block: this fault does not exist for this record
            part[2] = 2 ** 31 - 1
    elif kind == "bad_input":
        which = 1 if (case["producer"] == "merge" and len(inputs) > 1) else 0
        r = inputs[which][fault["rec"] % len(inputs[which])] if inputs[which] else None
        if r is None:
            return None
        if fault["what"] == "excess":
            r[1] = n
        else:
            if r[0] == r[1]:
                if n < 2:
                    return None
                r[0], r[1] = (1, 0)
            else:
                r[0], r[1] = r[1], r[0]
        inputs[which].sort()
        # keys must stay unique inside the input cooler
        keys = [(q[0], q[1]) for q in inputs[which]]
        if len(set(keys)) != len(keys):
            return None
    return inputs


def _same_chrom(case, q, r):
    lay = case["layout"]
    def ch(i):
        s = 0
        for c, k in enumerate(lay):
            s += k
            if i < s:
                return c
        return -1
    # coarsening pools bins of one chromosome only; block membership also needs equal offsets parity
    off = {}
    s = 0
    for c, k in enumerate(lay):
        off[c] = s
        s += k
    return (ch(q[0]) == ch(r[0]) and ch(q[1]) == ch(r[1])
            and (q[0] - off[ch(q[0])]) // 2 == (r[0] - off[ch(r[0])]) // 2
            and (q[1] - off[ch(q[1])]) // 2 == (r[1] - off[ch(r[1])]) // 2)


def _write_inputs(case, where, only=None, inputs=None, incompatible=False):
    """write the input coolers of a merge/coarsen case (one file each, or `only`=k into the group URI `where`);
    returns their URIs.  The planted records may be invalid: the checks are off."""
    inputs = case["inputs"] if inputs is None else inputs
    bins = gen.layout_bins(case["layout"])
    kw = dict(boundscheck=False, triucheck=False, dupcheck=False, dtypes={"count": np.int32})
    uris = []
    for k, px in enumerate(inputs):
        if only is not None and k != only:
            continue
        b = bins
        if incompatible and k == 1:
            b = gen.layout_bins([x + 1 for x in case["layout"]], width=7)
        if only is not None:
            f, g = where.split("::")
            _put_cooler(f, g, b, _df(px), case["symm"], **kw)
            uris.append(where)
        else:
            uri = os.path.join(where, f"in{k}.cool")
            cooler.create_cooler(uri, gen.bins_df(b), _df(px), symmetric_upper=case["symm"], ordered=True, mode="w", **kw)
            uris.append(uri)
    return uris


# ----------------------------------------------------------------------------------------------
# one fault, real side + model side
# ----------------------------------------------------------------------------------------------

class _Ctx:
    pass


def _prepare(case):
    """scratch dir, template file, snapshots of the neighbours"""
    x = _Ctx()
    x.dir = tempfile.mkdtemp(prefix=f"c13-{os.getpid()}-", dir=gen.tmpdir())
    x.tpl, x.groups = _template(x.dir, case)
    x.dest_group = DEST_PATH[case["dest"]]
    x.work = os.path.join(x.dir, "work")
    os.makedirs(x.work)
    x.file = os.path.join(x.work, "out.cool")
    x.uri = x.file + "::" + x.dest_group
    x.mode = case.get("mode") or ("w" if case["dest"] == "newfile" else "a")
    x.neigh = {}
    x.inputs = ()
    x.stat = {}
    x.unrelated = None
    x.was_cooler = False
    if x.tpl:
        listing = fileops.list_coolers(x.tpl)
        model_listing = sorted("/" + "/".join(g["path"]) for g in x.groups if g["fmt"] == cooler.create.MAGIC and g["path"] != ["src"])
        assert sorted(listing) == model_listing, ("harness: template description out of sync", listing, model_listing)
        x.was_cooler = x.dest_group in listing
        for p in listing:
            if _in_footprint(x.dest_group, p):
                continue
            x.neigh[p] = _snapshot(x.tpl + "::" + p)
        x.unrelated = _unrelated(x.tpl, x.dest_group)
        x.file, keep = x.tpl, x.file
        x.raw0 = _raw_target(x)
        x.file = keep
    return x


def _in_footprint(dest, p):
    if dest == "/":
        return p == "/" or _parts(p)[0] in ("chroms", "bins", "pixels", "indexes")
    return p == dest or p.startswith(dest + "/")


def _fresh(x):
    for f in os.listdir(x.work):
        os.unlink(os.path.join(x.work, f))
    if x.tpl:
        shutil.copyfile(x.tpl, x.file)


def _model(x, case, events, pipeline, inputs_ok=True, n=None):
    cfg = {"target": _parts(x.dest_group), "mode": x.mode, "n": case["n"] if n is None else n, "symm": case["symm"]}
    m = drv().ask("C13.run", cfg=cfg, fs=x.groups, events=events, pipeline=pipeline, inputs_ok=inputs_ok)
    if m["fault"] is not None:
        # where the run stopped: before the final create touched the destination / inside it, after how many chunks
        nch = sum(1 for e in events if "chunk" in e)
        x.stat = {("stopped.before_dest_touched" if m["dest_untouched"] else "stopped.dest_half_written"): 1,
                  f"stopped_with_stream_of_{min(nch, 5)}_chunks": 1}
        if m["was_cooler"] and m["is_cooler"]:
            x.stat["old_destination_still_recognised(root keeps its attributes)"] = 1
    return m


def _call(f):
    """run the creation call: (None | exception class, message)"""
    try:
        f()
    except Exception as e:  # noqa: the expected OUTCOME of a fault
        return errclass(e), str(e)[:200]
    return None, None


def _observe_top(x, case, fault, model, raised, msg):
    """the property, after one creation attempt"""
    kind = fault["kind"]
    base = {"mismatch": True, "fault": fault, "producer": case["producer"], "dest": case["dest"], "dest_uri_group": x.dest_group,
            "mode": x.mode, "model_fault": model["fault"], "raised": raised, "message": msg}
    assert model["l0_ok"], f"model run contradicts a proved theorem: {model}"
    mfault = model["fault"]
    overflow = kind in ("overflow", "overflow_sum")
    if mfault is None and raised is not None:
        return dict(base, note="the creation raised on a valid stream / valid inputs", impl_raised=raised)
    if mfault is not None and raised is None:
        if overflow:
            mfault = None  # not rejecting an overflowing count is not C13's concern: then the creation must complete
        else:
            return dict(base, note="invalid input / interrupted input stream did not raise: creation went on")
    exists = os.path.exists(x.file)
    is_c = impl(fileops.is_cooler, x.uri)
    listed = impl(fileops.list_coolers, x.file) if exists else []
    if mfault is None:
        if not is_c or x.dest_group not in listed:
            return dict(base, note="no fault, yet the destination is not a recognised / listed cooler", is_cooler=is_c, listed=listed)
    elif not x.was_cooler:
        if is_c:
            return dict(base, note="creation failed but the destination is recognised as a cooler (is_cooler)", listed=listed)
        if x.dest_group in listed:
            return dict(base, note="creation failed but the destination is listed by list_coolers", listed=listed)
    # neighbours
    for p, snap in x.neigh.items():
        if p not in listed:
            return dict(base, note=f"collection {p} of the same file is no longer listed", listed=listed)
        if not impl(fileops.is_cooler, x.file + "::" + p):
            return dict(base, note=f"collection {p} of the same file is no longer recognised")
        now = impl(_snapshot, x.file + "::" + p)
        if now != snap:
            diff = [k for k in snap if snap[k] != now[k]]
            return dict(base, note=f"collection {p} of the same file reads back differently", differs=diff,
                        before={k: snap[k] for k in diff}, after={k: now[k] for k in diff})
    extra = [p for p in listed if p not in x.neigh and not _in_footprint(x.dest_group, p)]
    if extra:
        return dict(base, note="list_coolers names collections that did not exist", extra=extra)
    if x.unrelated is not None:
        now = impl(_unrelated, x.file, x.dest_group)
        if now != x.unrelated:
            return dict(base, note="unrelated attributes / plain data changed", before=x.unrelated, after=now)
    # model agreement on the same observables (the model's neighbours are unchanged by theorem; re-evaluated above)
    mlisted = sorted("/" + "/".join(p) for p in model["listed"])
    rl = sorted(p for p in listed if p != x.dest_group or not x.was_cooler or mfault is None)
    ml = sorted(p for p in mlisted if p != x.dest_group or not x.was_cooler or mfault is None)
    if raised is not None or not overflow:
        if rl != ml:
            return dict(base, note="list_coolers differs from the model's file state", impl=rl, model=ml)
    # temporary files
    left = [f for f in os.listdir(x.work) if f != "out.cool" and f not in x.inputs]
    if left:
        gc.collect()
        left = [f for f in os.listdir(x.work) if f != "out.cool" and f not in x.inputs]
        if left:
            return dict(base, note="temporary files left next to the destination", left=left)
    return None


def _raw_target(x):
    """raw state of the destination group"""
    if not os.path.exists(x.file):
        return None
    with h5py.File(x.file, "r") as f:
        if x.dest_group not in f:
            return "missing-group"
        g = f[x.dest_group]
        out = {"chroms": "chroms" in g, "bins": "bins" in g, "indexes": "indexes" in g,
               "fmt": (lambda v: None if v is None else (v.decode() if isinstance(v, bytes) else str(v)))(g.attrs.get("format", None)),
               "info": "nnz" in g.attrs, "pixels": None}
        if "pixels" in g:
            pg = g["pixels"]
            out["pixels"] = {"ids": [[int(a), int(b)] for a, b in zip(pg["bin1_id"][:], pg["bin2_id"][:])],
                             "counts": [int(v) for v in pg["count"][:]]}
            if len(pg["bin1_id"]) != len(pg["bin2_id"]):
                out["pixels"]["ids"] = ["ragged", len(pg["bin1_id"]), len(pg["bin2_id"])]
    return out


def _observe_state(x, case, fault, model, raised, msg):
    base = {"mismatch": True, "fault": fault, "producer": case["producer"], "dest": case["dest"], "mode": x.mode}
    mf = model["fault"]
    want = {"iter": "RuntimeError", None: None}.get(mf, mf)
    if raised != want:
        return dict(base, note="exception class differs from the model's", impl=raised, model=want, message=msg)
    raw = _raw_target(x)
    mt = model["target"]
    if model["dest_untouched"] and x.tpl:
        if raw != x.raw0:
            return dict(base, note="the model leaves the destination file untouched (the fault precedes the final create) "
                                   "but the destination group changed", before=x.raw0, after=raw)
        return None
    if mt is None:
        if model["dest_exists"] != (raw is not None) or raw not in (None, "missing-group"):
            return dict(base, note="destination group exists although the model has none", impl=raw)
        return None
    if raw in (None, "missing-group"):
        return dict(base, note="destination group missing", model=mt)
    cmp_model = {k: mt[k] for k in ("chroms", "bins", "indexes", "fmt", "info")}
    cmp_impl = {k: raw[k] for k in ("chroms", "bins", "indexes", "fmt", "info")}
    if cmp_model != cmp_impl:
        return dict(base, note="tables / attributes present in the destination differ from the model state", impl=cmp_impl, model=cmp_model)
    if case["producer"] in ("ordered", "merge", "coarsen") and mf is not None:
        if raw["pixels"] != mt["pixels"]:
            return dict(base, note="rows of the half-written pixel columns differ from the model state `runUntil k`",
                        impl=raw["pixels"], model=mt["pixels"], steps_done=model["steps_done"], steps_total=model["steps_total"])
    return None


def _run_stream_fault(x, case, fault, observe):
    events = _apply_stream_fault(case["chunks"], fault)
    _fresh(x)
    form = case.get("form", "df")
    bins = gen.bins_df(gen.layout_bins(case["layout"]))
    kw = {}
    if case["producer"] == "unordered":
        kw = {"mergebuf": case.get("mergebuf", 2), "max_merge": case.get("max_merge", 200)}
    model = _model(x, case, events, case["producer"])
    raised, msg = _call(lambda: cooler.create_cooler(x.uri, bins, _iterator(events, form), ordered=case["producer"] == "ordered",
                                                      symmetric_upper=case["symm"], mode=x.mode, **kw))
    return observe(x, case, fault, model, raised, msg)


def _observe_events(it):
    """iterate a producer once and record what it yields: chunks, then possibly an exception"""
    ev = []
    try:
        for ch in it:
            ev.append({"chunk": [[int(a), int(b), int(v)] for a, b, v in zip(ch["bin1_id"], ch["bin2_id"], ch["count"])]})
    except Exception:  # noqa: recorded as the event "the iterator raises here"
        ev.append({"raise": True})
    return ev


def _run_producer_fault(x, case, fault, observe):
    inputs = _faulty_inputs(case, fault)
    if inputs is None:
        return "skip"
    _fresh(x)
    prod = case["producer"]
    agg = {"count": _boom_agg} if fault["kind"] == "agg_boom" else None
    if case.get("src_in_dest") and x.tpl:
        # the source of the coarsening is a neighbour of the destination, in the same file
        uris = _write_inputs(case, x.file + "::/src", only=0, inputs=inputs)
        x.neigh["/src"] = _snapshot(uris[0])
    else:
        uris = _write_inputs(case, x.work, inputs=inputs, incompatible=fault["kind"] == "incompatible")
        x.inputs = tuple(os.path.basename(u) for u in uris)
    n_out = case["n"]
    inputs_ok = True
    if prod == "merge":
        try:
            it = CoolerMerger([cooler.Cooler(u) for u in uris], mergebuf=case.get("mergebuf", 2), columns=["count"], agg=agg)
            events = _observe_events(it)
        except ValueError:
            inputs_ok, events = False, []
        model = _model(x, case, events, "producer", inputs_ok=inputs_ok)
        raised, msg = _call(lambda: cooler.merge_coolers(x.uri, uris, mergebuf=case.get("mergebuf", 2), agg=agg, mode=x.mode))
    else:
        it = CoolerCoarsener(uris[0], 2, case.get("chunksize", 2), columns=["count"], agg=agg, batchsize=1)
        n_out = len(it.new_bins)
        events = _observe_events(it)
        model = _model(x, case, events, "producer", n=n_out)
        raised, msg = _call(lambda: cooler.coarsen_cooler(uris[0], x.uri, 2, case.get("chunksize", 2), agg=agg, mode=x.mode))
    return observe(x, case, fault, model, raised, msg)


def _enumerate(case, observe):
    thorough = bool(case.get("thorough"))
    stream = case["producer"] in ("ordered", "unordered")
    faults = case.get("only") or (_stream_faults(case, thorough) if stream else _producer_faults(case, thorough))
    x = _prepare(case)
    stats = {"faults": 0}
    try:
        for fault in faults:
            try:
                r = (_run_stream_fault if stream else _run_producer_fault)(x, case, fault, observe)
            except ImplRaised as e:
                return {"mismatch": True, "fault": fault, "producer": case["producer"], "dest": case["dest"],
                        "impl_raised": e.cls, "message": e.msg, "where": e.where,
                        "note": "the implementation raised while the state after the creation attempt was inspected"}
            if r == "skip":
                continue
            stats["faults"] += 1
            stats[f"kind.{fault['kind']}"] = stats.get(f"kind.{fault['kind']}", 0) + 1
            for k, v in x.stat.items():
                stats[k] = stats.get(k, 0) + v
            x.stat = {}
            if r is not None:
                return r
        return {"stats": stats}
    finally:
        shutil.rmtree(x.dir, ignore_errors=True)


def _faults(case):
    return _enumerate(case, _observe_top)


def _partial_state(case):
    return _enumerate(case, _observe_state)


# ----------------------------------------------------------------------------------------------
# validator and constants
# ----------------------------------------------------------------------------------------------

def _validator(case):
    n, chunks = case["n"], case["chunks"]
    ans = drv().ask("C13.validate_batch", n=n, chunks=chunks)
    assert ans["l0_ok"], "validatePixels disagrees with acceptsSpec: theorem validate_accepts_iff_flags contradicted"
    flags = ans["flags"]
    ncalls = 0
    for ci, (chunk, results) in enumerate(zip(chunks, ans["results"])):
        keys = [(r[0], r[1]) for r in chunk]
        has_dup = len(set(keys)) != len(keys)
        for (b, t, d, e), want in zip(flags, results):
            form = "df" if (ci + b + 2 * t) % 2 == 0 else "dict"
            f = validate_pixels(n, b, t, d, e)
            try:
                out = f(_df(chunk, form))
                got = {"ok": [[int(a), int(c), int(v)] for a, c, v in zip(out["bin1_id"], out["bin2_id"], out["count"])]}
            except Exception as ex:  # noqa: expected outcome
                got = {"err": errclass(ex)}
            ncalls += 1
            same = got == want
            if not same and "ok" in got and "ok" in want and e and has_dup:
                # order among records of equal key after sorting is not promised
                same = [r[:2] for r in got["ok"]] == [r[:2] for r in want["ok"]] and sorted(got["ok"]) == sorted(want["ok"])
            if not same:
                return {"mismatch": True, "n": n, "chunk": chunk, "input_form": form,
                        "flags": {"boundscheck": b, "triucheck": t, "dupcheck": d, "ensure_sorted": e}, "impl": got, "model": want}
    return {"stats": {"validator_calls": ncalls}}


def _constants(case):
    m = drv().ask("C13.constants")
    from cooler.create import COUNT_DTYPE, MAGIC
    info = np.iinfo(COUNT_DTYPE)
    got = {"magic": MAGIC, "count_lo": int(info.min), "count_hi": int(info.max), "tables": ["chroms", "bins", "pixels", "indexes"]}
    if got != m:
        return {"mismatch": True, "impl": got, "model": m}
    return None


CHECKS = {"faults": _faults, "partial_state": _partial_state, "validator": _validator, "constants": _constants}


# ----------------------------------------------------------------------------------------------
# cases
# ----------------------------------------------------------------------------------------------

def nontrivial(name, case):
    if name in ("faults", "partial_state"):
        return len(case.get("chunks", [])) >= 2 or len(case.get("inputs", [])) >= 2 or case["producer"] == "coarsen"
    return name == "validator"


def distribution(name, case):
    if name in ("faults", "partial_state"):
        yield f"{name}.producer={case['producer']}"
        yield f"{name}.dest={case['dest']}"
        yield f"{name}.{'symm' if case['symm'] else 'square'}"
        if "chunks" in case:
            yield f"{name}.m={len(case['chunks'])}"


def _split(rng, px, m):
    cuts = sorted(rng.randint(0, len(px)) for _ in range(m - 1))
    out, a = [], 0
    for c in cuts + [len(px)]:
        out.append(px[a:c])
        a = c
    return out


def _stream_case(rng, producer, dest, symm, mmax, thorough, n=None, m=None):
    n = n or rng.randint(2, 5)
    m = m if m is not None else rng.randint(1, mmax)
    px = gen.matrix_kinds(rng, n, symm, rng.choice(["random", "dense-random", "gaps", "random", "diag", "onerow"]))
    px = [[i, j, 1 + (v % 50)] for i, j, v in px]
    chunks = _split(rng, px, m) if m else []
    if producer == "unordered":
        rng.shuffle(chunks)
    c = {"producer": producer, "dest": dest, "symm": symm, "n": n, "layout": gen.split_layout(rng, n), "chunks": chunks,
         "form": rng.choice(["df", "dict"]), "thorough": thorough}
    if dest == "newfile":
        c["mode"] = rng.choice(["w", "a"])
    elif thorough and rng.random() < 0.25:
        c["mode"] = "r+"
    if producer == "unordered" and thorough and rng.random() < 0.4:
        c["max_merge"] = 2
    return c


def _producer_case(rng, producer, dest, symm, thorough):
    if producer == "merge":
        n = rng.randint(2, 5)
        layout = gen.split_layout(rng, n)
        k = rng.choice([1, 2, 2, 3])          # a single input is a merge too (and must be validated like one)
        inputs = []
        for _ in range(k):
            px = gen.matrix_kinds(rng, n, symm, rng.choice(["random", "dense-random", "gaps", "onerow"]))
            inputs.append([[i, j, 1 + (v % 50)] for i, j, v in px])
        if not inputs[0]:
            inputs[0] = [[0, n - 1, 3]]
        if k > 1 and not inputs[1]:
            inputs[1] = [[0, 0, 2]]
    else:
        n = rng.randint(3, 6)
        layout = gen.split_layout(rng, n)
        px = gen.matrix_kinds(rng, n, symm, rng.choice(["dense-random", "full", "random"]))
        inputs = [[[i, j, 1 + (v % 50)] for i, j, v in px]]
        if not inputs[0]:
            inputs[0] = [[0, 0, 2], [0, 1, 3]]
    c = {"producer": producer, "dest": dest, "symm": symm, "n": n, "layout": layout, "inputs": inputs, "thorough": thorough,
         "mergebuf": rng.choice([1, 1, 2]), "chunksize": rng.choice([1, 1, 2])}
    if dest == "newfile":
        c["mode"] = rng.choice(["w", "a"])
    if producer == "coarsen" and dest != "newfile" and rng.random() < 0.5:
        c["src_in_dest"] = True
    return c


CORPUS = [
    # the empty stream, an empty chunk in the middle, a one-record stream
    {"producer": "ordered", "dest": "newgroup", "symm": True, "n": 3, "layout": [3], "chunks": []},
    {"producer": "ordered", "dest": "newfile", "mode": "w", "symm": True, "n": 3, "layout": [3], "chunks": [[[0, 0, 1]], [], [[1, 2, 2], [2, 2, 3]]]},
    {"producer": "ordered", "dest": "root", "symm": False, "n": 2, "layout": [1, 1], "chunks": [[[1, 0, 4]]]},
    {"producer": "unordered", "dest": "newgroup", "symm": True, "n": 3, "layout": [3], "chunks": [[[1, 2, 2], [2, 2, 3]], [[0, 0, 1], [0, 1, 5]]]},
    {"producer": "unordered", "dest": "newfile", "mode": "a", "symm": True, "n": 2, "layout": [2], "chunks": [[], [[0, 1, 1]]]},
    # a merge of ONE input (seeded change C13-9: a copy shortcut would bypass the validator)
    {"producer": "merge", "dest": "newfile", "mode": "w", "symm": True, "n": 3, "layout": [3], "inputs": [[[0, 1, 2], [1, 2, 3]]]},
    {"producer": "merge", "dest": "newgroup", "symm": False, "n": 3, "layout": [2, 1], "inputs": [[[0, 1, 2], [2, 0, 3]]]},
]


def cases(tier, rng):
    thorough = tier == "thorough"
    yield "constants", {}
    for c in CORPUS:
        c = dict(c, thorough=thorough)
        yield "faults", c
        yield "partial_state", c
    mmax = 4 if thorough else 3
    reps = {"ordered": 6 if thorough else 2, "unordered": 3 if thorough else 1, "merge": 3 if thorough else 1, "coarsen": 3 if thorough else 1}
    for dest in DESTS:
        for symm in (True, False):
            for producer in ("ordered", "unordered"):
                for r in range(reps[producer]):
                    # make sure the largest stream length is present for every destination
                    m = mmax if r == 0 else None
                    yield "faults", _stream_case(rng, producer, dest, symm, mmax, thorough, m=m)
            for producer in ("merge", "coarsen"):
                for _ in range(reps[producer]):
                    yield "faults", _producer_case(rng, producer, dest, symm, thorough)
    # unit: state of the half-written destination and exception classes vs `runUntil k`
    for dest in DESTS:
        for producer in ("ordered", "unordered", "merge", "coarsen"):
            symm = rng.random() < 0.6
            if producer in ("ordered", "unordered"):
                yield "partial_state", _stream_case(rng, producer, dest, symm, mmax if producer == "ordered" else 2, thorough)
            else:
                yield "partial_state", _producer_case(rng, producer, dest, symm, thorough)
    # unit: the validator, exhaustively
    for n in ((1, 2, 3) if thorough else (1, 2)):
        ids = list(range(-1, n + 1))
        keys = [(a, b) for a in ids for b in ids]
        allc = [[]]
        for L in (1, 2, 3):
            for combo in itertools.product(keys, repeat=L):
                allc.append([[a, b, 10 + t] for t, (a, b) in enumerate(combo)])
        B = 150
        for i in range(0, len(allc), B):
            yield "validator", {"n": n, "chunks": allc[i:i + B]}
    for _ in range(40 if thorough else 8):
        n = rng.randint(1, 6)
        chunks = []
        for _ in range(40):
            L = rng.randint(0, 8)
            chunks.append([[rng.randint(-1, n), rng.randint(-1, n), rng.randint(1, 9)] for _ in range(L)])
        yield "validator", {"n": n, "chunks": chunks}


def shrink(name, case):
    if name in ("faults", "partial_state") and not case.get("only"):
        stream = case["producer"] in ("ordered", "unordered")
        fs = _stream_faults(case, bool(case.get("thorough"))) if stream else _producer_faults(case, bool(case.get("thorough")))
        # a real fault first: the no-fault run is only the sanity member of the enumeration
        for f in sorted(fs, key=lambda f: f["kind"] == "none"):
            yield dict(case, only=[f])
    if name == "validator":
        for ch in case["chunks"]:
            if len(case["chunks"]) > 1:
                yield dict(case, chunks=[ch])


def escalate(name, case, rng):
    """a unit correspondence stopped checking: run the end-to-end fault enumeration"""
    worker_init()
    tries = []
    if name == "partial_state":
        tries.append(dict(case))
    if name == "validator":
        for ch in case["chunks"][:3]:
            n = case["n"]
            for symm in (True, False):
                tries.append({"producer": "ordered", "dest": "newgroup", "symm": symm, "n": n, "layout": [n], "chunks": [ch],
                              "only": [{"kind": "none"}]})
    for dest in ("newgroup", "root", "newfile"):
        for producer in ("ordered", "unordered"):
            tries.append(_stream_case(rng, producer, dest, rng.random() < 0.6, 3, False))
    for c in tries:
        r = run_check(_faults, c)
        if r:
            return {"check": "faults", "case": c, "result": r}
    return None
