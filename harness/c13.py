"""C13 — invalid input or a failed write never yields a cooler nor harms its neighbours.

Fault enumeration.  One case = one producer (ordered / unordered creation, merge_coolers,
coarsen_cooler), one destination kind and one valid chunk stream (or set of input coolers); the check
function then injects EVERY fault of the case's fault space, one at a time, each into a fresh copy of
the destination file: one invalid record of each kind at every chunk index and row position, an
exception raised by the input iterator before every chunk index 0..m, a count that does not fit the
column dtype, and no fault at all (sanity).  The same stream of events is run through the Lean model
(`createSteps` / `pipeline`, `run`) and the observable outcome is compared.

Option cases (`case["opts"]`): the same enumeration (a thin slice of each fault space) with every keyword option of the
producing calls set to non-default values: metadata (None / {} / flat / nested document / a value json cannot encode,
which is itself a fault: `write_info` raises), assembly, extra value column + dtypes, count dtype, h5opts (valid
variants and an unknown key = rejected on entry), boundscheck / triucheck / dupcheck off, ensure_sorted, mode "w" on an
existing file; through create_cooler (ordered / unordered), merge_coolers, coarsen_cooler, zoomify_cooler (several
creations into one new file), create_scool (one creation per cell) and the CLI loader `cooler load`.
"""
from __future__ import annotations

import gc
import itertools
import os
import shutil
import tempfile

import numpy as np
import pandas as pd

from harness import gen
from harness.common import ImplRaised, drv, errclass, impl, run_check

PID = "C13"
THEOREMS = ["validate_accepts_iff", "validate_accepts_iff_flags", "validate_rejects", "validate_rejects_neg",
            "validate_rejects_excess", "validate_rejects_tril", "validate_rejects_dup", "validate_error_class",
            "validate_sorted_output", "format_last", "prefix_not_cooler", "root_old_format_kept",
            "nonroot_old_format_dropped", "run_fault", "partial_not_cooler", "frame_other_collections",
            "frame_after_run", "frame_listed", "root_unrelated_attrs_kept", "complete_is_cooler",
            "pipeline_dest", "pipeline_dest_untouched", "pipeline_partial_not_cooler", "pipeline_frame",
            "unordered_sortpass_fault_dest_untouched", "unorderedPre_isPre", "producerPre_isPre",
            "bad_metadata_never_completes", "bad_metadata_not_cooler", "optsPre_isPre", "unorderedPreBadOpts_isPre",
            "runP_stops_at_check", "bad_opts_dest_untouched"]
LEVELS = {"faults": "top", "partial_state": "unit", "validator": "unit", "constants": "unit"}
DESCRIBE = {
    "faults": "fault enumeration: for one producer x destination x valid stream, EVERY injected fault (invalid record of "
              "each kind at every chunk index and row position, iterator exception before every chunk 0..m, dtype overflow, "
              "no fault) is run against a fresh copy of the destination file; after each: the call raised; "
              "is_cooler(dest) is False and dest is not in list_coolers (when dest held no cooler before); every other "
              "collection is still listed, recognised and reads back (pixels, bins, info) identically; unrelated "
              "attributes intact; no temporary file left; compared with the Lean model `run (createSteps ...)` / `runP (pipeline ...)`",
    "partial_state": "after each fault: exception class and the raw state of the half-written destination (tables present, "
                     "`format` attribute absent, rows of the pixel columns) vs the model state `runUntil k`",
    "validator": "cooler.create.validate_pixels(n, boundscheck, triucheck, dupcheck, ensure_sorted)(chunk) vs Lean "
                 "`validateCore` for all 16 flag combinations (DataFrame and dict-of-arrays input)",
    "constants": "cooler.create.MAGIC, the four table names and the default count dtype range vs the model's constants",
}
DESCRIBE["faults"] += ("; option cases: the same with the keyword options of the producing call set (metadata incl. values "
                       "json cannot encode, assembly, columns/dtypes, h5opts incl. an unknown key, check flags, ensure_sorted, "
                       "mode w on an existing file) through create_cooler, merge_coolers, coarsen_cooler, zoomify_cooler "
                       "(model: `C13.run_seq`, one creation per level in one file), create_scool (one creation per cell) and "
                       "the CLI `cooler load` (a malformed line = the reader raises before that chunk)")
RULE = ("fault enumeration, EXHAUSTIVE over the fault space of each case: producers {create_cooler ordered=True, "
        "create_cooler ordered=False (mergebuf 2, thorough also max_merge 2), merge_coolers, coarsen_cooler} x destinations "
        "{new file (mode w and a; existing files: mode a, thorough also r+), new group /x/y in a file holding /a, /b/c, /old, a plain group /g and an unrelated root "
        "attribute, existing plain group /g, existing group /old holding an old cooler, group /a/sub nested in a neighbour, "
        "root of that file, root that already is a cooler} x symmetric-upper/square x seeded valid streams of m<=3 (quick) / "
        "m<=4 (thorough) chunks over n<=5 bins (plus fixed corpus streams incl. empty chunks and the empty stream); per "
        "stream EVERY fault: record with id=n (bin2 only / both ids), id=-1 (bin1 / bin2) [thorough: both variants at every "
        "position; quick: both at position 0 and alternating after], lower-triangle record (symmetric "
        "mode), duplicate of a record of the same chunk (quick: one record per position, thorough: every record), each at "
        "EVERY chunk index and EVERY row position; RuntimeError "
        "raised by the iterator before EVERY chunk index 0..m; a count of 2^31 at every record; cross-chunk overflowing "
        "duplicate (unordered); merge/coarsen: aggregation exception / overflow / out-of-range or lower-triangle input "
        "record at every input record, incompatible inputs; and no fault.  OPTION CASES (per producer 9/6/6/6 quick, "
        "18/12/12/12 thorough; plus cooler-load CLI 5/10, zoomify_cooler 4/12, create_scool 4/12): every axis "
        "{metadata: absent, None, {}, flat, nested, not-JSON (set / complex / tuple key / object / ndarray); assembly; "
        "columns+dtypes: extra float column, w float32, count int64 / int16 / float64 / explicit int32; h5opts: lzf, gzip-1 "
        "no shuffle, no compression, fletcher32, unknown key; flags: boundscheck / triucheck / dupcheck off (a record whose "
        "check is off: either outcome, the other clauses still apply), ensure_sorted with rows descending; mode w on an "
        "existing file} cycled independently (every value of every axis equally often, pairing by seed) x destinations "
        "{new group, new file, plain group, root, nested} x a slice of the fault space: no fault, iterator exception "
        "before EVERY chunk, one position of every other kind per chunk (quick; thorough: every third case the full "
        "space); zoomify: aggregation exception at level 1, at a LATER level only, lower-triangle base record; scool: "
        "the stream faults in every cell.  validator: ALL chunks of <=3 records over ids "
        "-1..n (n=1,2 quick; n<=3 thorough) x 16 flag combinations.  non-trivial = stream with >=2 chunks or >=2 inputs; "
        "distinct by canonical JSON")
EXHAUSTIVE = {"quick": True, "thorough": True}
TRUSTED = ["HDF5/h5py (file modes, create_group/del, dataset resize, attrs.update) and tempfile are primitives of the step model",
           "the chunk streams produced by CoolerMerger / CoolerCoarsener are observed (iterated once by the harness) and fed "
           "to the model as events: the theorems hold for every stream",
           "content of neighbouring collections is abstracted to content ids in the model; the harness compares real reads"]
ASSUMPTIONS = [
    "a record of a kind whose check the caller switched off (boundscheck / triucheck / dupcheck = False): whether the "
    "creation raises is not fixed by the property ('with the default checks'); if it raises the destination must not be a "
    "cooler, if it does not the creation must complete; the neighbours are checked either way",
    "metadata 'JSON compatible' = what the encoder cooler uses (simplejson) accepts; the not-JSON values used are rejected "
    "by every JSON encoder (set, complex, tuple key, arbitrary object, ndarray)",
    "zoomify_cooler / create_scool write several collections into one file: levels / cells completed before the fault "
    "are 'other collections' and must read back as in a run of the same call without the fault (creation-date aside); "
    "the order in which cells are written is not fixed",
    "failures are Python exceptions leaving the creation call; process kill and HDF5-level torn writes are outside",
    "append mode (a / r+) for destinations in existing files: mode w truncates the file by documented design",
    "collections nested BELOW the destination group are part of what is replaced; a destination inside another "
    "collection's own table groups (chroms/bins/pixels/indexes) is outside the model",
    "a destination that already held a cooler: recognition after a fault is not fixed by the property (a root destination "
    "keeps its old format attribute: theorem root_old_format_kept); only its neighbours are checked there",
    "a duplicate that straddles two chunks is not detected by ordered creation (the property says 'within a chunk')",
    "a count that does not fit the column dtype need not be rejected for C13 (if it is not, the creation must complete)",
]
CHUNK = 1

BIG = 2 ** 31
SENTINEL = 777777
DESTS = ["newfile", "newgroup", "plaingroup", "oldcooler", "nested", "root", "rootold"]
DEST_PATH = {"newfile": "/", "newgroup": "/x/y", "plaingroup": "/g", "oldcooler": "/old", "nested": "/a/sub",
             "root": "/", "rootold": "/"}


def worker_init():
    global cooler, fileops, h5py, validate_pixels, CoolerMerger, CoolerCoarsener
    import cooler  # noqa
    import h5py  # noqa
    from cooler import fileops  # noqa
    from cooler._reduce import CoolerCoarsener, CoolerMerger  # noqa
    from cooler.create import validate_pixels  # noqa


# ----------------------------------------------------------------------------------------------
# marshalling
# ----------------------------------------------------------------------------------------------

def _df(chunk, form="df", extra=False):
    d = {"bin1_id": np.array([r[0] for r in chunk], dtype=np.int64),
         "bin2_id": np.array([r[1] for r in chunk], dtype=np.int64),
         "count": np.array([r[2] for r in chunk], dtype=np.int64)}
    if extra:
        d["w"] = np.array([r[2] * 0.5 for r in chunk], dtype=np.float64)
    return pd.DataFrame(d) if form == "df" else d


# ----------------------------------------------------------------------------------------------
# keyword options of the producing calls (case["opts"]: JSON tags -> real keyword arguments / model configuration)
# ----------------------------------------------------------------------------------------------

class _Opaque:
    pass


def _metadata(tag):
    """the `metadata=` argument: None, JSON documents, and values that are NOT JSON compatible (json.dumps raises)"""
    return {"none": None,
            "empty": {},
            "flat": {"sample": "S1", "lanes": 2, "ok": True, "ratio": 0.25, "nothing": None},
            "nested": {"sample": {"id": "S1", "tags": ["a", "b", {"k": [1, 2.5, None]}]}, "format": "not-a-cooler",
                       "\u00e9t\u00e9": "\u2603", "runs": [[1, 2], [], [3]]},
            "bad_set": {"lanes": {1, 2}},
            "bad_complex": {"z": [1, 2j]},
            "bad_key": {"runs": {(1, 2): "x"}},
            "bad_obj": {"deep": [{"x": _Opaque()}]},
            "bad_array": {"v": np.arange(3)}}[tag]


H5OPTS = {"lzf": {"compression": "lzf"},
          "gzip1": {"compression": "gzip", "compression_opts": 1, "shuffle": False},
          "nocomp": {"compression": None, "shuffle": False},
          "fletcher": {"fletcher32": True},
          "bad": {"compresion": "gzip"}}      # an unknown storage option: rejected on entry of create()
BAD_METADATA = ["bad_set", "bad_complex", "bad_key", "bad_obj", "bad_array"]
FLAGS = ("boundscheck", "triucheck", "dupcheck", "ensure_sorted")


def _o(case):
    return case.get("opts") or {}


def _real_opts(case):
    """keyword arguments for create_cooler / merge_coolers / coarsen_cooler / zoomify_cooler / create_scool"""
    o, kw = _o(case), {}
    if "metadata" in o:
        kw["metadata"] = _metadata(o["metadata"])
    if "assembly" in o and case["producer"] != "merge":   # merge_coolers passes assembly= itself (from input 0)
        kw["assembly"] = o["assembly"]
    dt = {}
    if "count_dtype" in o:
        dt["count"] = np.dtype(o["count_dtype"])
    if o.get("extra"):
        kw["columns"] = ["count", "w"]
        if o.get("w_dtype"):
            dt["w"] = np.dtype(o["w_dtype"])
    if dt:
        kw["dtypes"] = dt
    if "h5opts" in o:
        kw["h5opts"] = dict(H5OPTS[o["h5opts"]])
    for f in FLAGS:
        if f in o:
            kw[f] = bool(o[f])
    return kw


def _model_opts(case):
    """the same options as the model's configuration"""
    o, c = _o(case), {}
    if str(o.get("metadata", "")).startswith("bad"):
        c["info_ok"] = False
    for f in FLAGS:
        if f in o:
            c[f] = bool(o[f])
    if "count_dtype" in o:
        dt = np.dtype(o["count_dtype"])
        if np.issubdtype(dt, np.integer):
            c["count_lo"], c["count_hi"] = int(np.iinfo(dt).min), int(np.iinfo(dt).max)
        else:
            c["count_lo"], c["count_hi"] = -2 ** 200, 2 ** 200     # _check_fits_dtype looks at integer columns only
    return c, o.get("h5opts") != "bad"


def _check_off(case, fault):
    """the injected record is of a kind whose check is switched off by the case's options: the property ('with the
    default checks') does not fix whether the creation raises; whatever it does, the other clauses apply"""
    o = _o(case)
    kind = fault.get("what", fault["kind"]) if fault["kind"] == "bad_input" else fault["kind"]
    return ((kind in ("excess", "neg") and o.get("boundscheck") is False)
            or (kind == "tril" and o.get("triucheck") is False)
            or (kind == "dup" and o.get("dupcheck") is False))


def _parts(p):
    return [x for x in p.split("/") if x]


def _put_cooler(dst_file, group, bins, df, symm, **kw):
    """write one collection into `dst_file::group` WITHOUT relying on cooler's append mode: the collection is
    created in a file of its own (mode w) and copied over with h5py"""
    one = dst_file + ".one"
    cooler.create_cooler(one, gen.bins_df(bins), df, symmetric_upper=symm, ordered=True, mode="w", **kw)
    parts = _parts(group)
    with h5py.File(one, "r") as s, h5py.File(dst_file, "a") as dd:
        parent = dd
        for q in parts[:-1]:
            parent = parent.require_group(q)
        s.copy(s["/"], parent, parts[-1])
    os.unlink(one)


def _template(d, case):
    """build the destination file of the case; returns (file path, model description of its groups, neighbours)"""
    kind = case["dest"]
    path = os.path.join(d, "tpl.cool")
    if kind == "newfile":
        return None, None
    magic = cooler.create.MAGIC
    n0 = 3
    b0 = gen.layout_bins([n0])
    if kind == "rootold":
        gen.write_cooler(path, b0, [[0, 0, 4], [1, 2, 6]], mode="w")
    else:
        with h5py.File(path, "w"):
            pass
    _put_cooler(path, "/a", gen.layout_bins([2, 2]), _df([[0, 0, 1], [0, 3, 2], [2, 2, 3]]), True)
    _put_cooler(path, "/b/c", b0, _df([[0, 1, 5], [2, 0, 7]]), False)
    _put_cooler(path, "/old", b0, _df([[1, 1, 9]]), True)
    with h5py.File(path, "r+") as f:
        f.attrs["note"] = "hello"
        g = f.create_group("g")
        g.attrs["tag"] = 3
        g.create_dataset("data", data=np.array([1, 2, 3]))
        g.create_group("sub")
    groups = [
        {"path": [], "fmt": magic if kind == "rootold" else None, "other": [["note", 1]], "id": 9 if kind == "rootold" else None},
        {"path": ["a"], "fmt": magic, "other": [], "id": 10},
        {"path": ["b"], "fmt": None, "other": [], "id": None},
        {"path": ["b", "c"], "fmt": magic, "other": [], "id": 11},
        {"path": ["old"], "fmt": magic, "other": [], "id": 12},
        {"path": ["g"], "fmt": None, "other": [["tag", 2]], "id": None},
        {"path": ["g", "sub"], "fmt": None, "other": [], "id": None},
    ]
    if case.get("src_in_dest"):
        groups.append({"path": ["src"], "fmt": magic, "other": [], "id": 13})
    return path, groups


def _snapshot(uri, stable=False):
    """what a collection reads back as; `stable`: without the attribute that differs between two runs of the same call
    (the collection is compared with the one a run WITHOUT the fault produced)"""
    c = cooler.Cooler(uri)
    px = c.pixels()[:]
    bn = c.bins()[:]
    info = dict(c.info)
    if stable:
        info.pop("creation-date", None)
    return {"pixels": [[int(a), int(b), int(v)] for a, b, v in zip(px["bin1_id"], px["bin2_id"], px["count"])],
            "bins": [[str(a), int(b), int(e)] for a, b, e in zip(bn["chrom"], bn["start"], bn["end"])],
            "info": {k: (v if isinstance(v, (str, int, float, dict, list, type(None))) else str(v)) for k, v in sorted(info.items())}}


def _unrelated(path, dest):
    """unrelated attributes / plain data that the creation must not touch"""
    out = {}
    with h5py.File(path, "r") as f:
        out["root.note"] = str(f.attrs.get("note"))
        if "g" in f and dest != "/g":
            out["g.tag"] = int(f["g"].attrs.get("tag", -1))
            out["g.data"] = [int(x) for x in f["g/data"][:]] if "data" in f["g"] else None
            out["g.sub"] = "sub" in f["g"]
    return out


# ----------------------------------------------------------------------------------------------
# fault spaces
# ----------------------------------------------------------------------------------------------

def _stream_faults(case, thorough):
    """every fault of an explicit chunk stream (ordered / unordered creation)"""
    chunks, n, symm = case["chunks"], case["n"], case["symm"]
    m = len(chunks)
    out = [{"kind": "none"}]
    for k in range(m + 1):
        out.append({"kind": "raise", "at": k})
    for k, ch in enumerate(chunks):
        for p in range(len(ch) + 1):
            row = ch[p - 1][0] if p > 0 else (ch[0][0] if ch else 0)
            # two variants of each out-of-range kind (which id column); quick: both at position 0, alternating after
            both = thorough or p == 0
            if both or (p + k) % 2 == 0:
                out.append({"kind": "excess", "chunk": k, "pos": p, "rec": [row, n, 1]})
                out.append({"kind": "neg", "chunk": k, "pos": p, "rec": [-1, row, 1]})
            if both or (p + k) % 2 == 1:
                out.append({"kind": "excess", "chunk": k, "pos": p, "rec": [n, n, 1]})
                out.append({"kind": "neg", "chunk": k, "pos": p, "rec": [row, -1, 1]})
            if symm and n >= 2:
                out.append({"kind": "tril", "chunk": k, "pos": p, "rec": [n - 1, (p + k) % (n - 1), 1]})
            if ch:
                whiches = range(len(ch)) if thorough else [(p + k) % len(ch)]
                for q in whiches:
                    out.append({"kind": "dup", "chunk": k, "pos": p, "rec": [ch[q][0], ch[q][1], 99]})
        for p in range(len(ch)):
            out.append({"kind": "overflow", "chunk": k, "pos": p})
    if case["producer"] in ("unordered", "cli_load"):
        # a key present in two chunks whose counts sum beyond int32: the FINAL pass fails, in the destination
        for k in range(m):
            for k2 in range(m):
                if k != k2 and chunks[k]:
                    out.append({"kind": "overflow_sum", "chunk": k, "chunk2": k2})
                    break
    return out


def _apply_stream_fault(chunks, fault, unsorted_rows=False):
    ch = [list(map(list, c)) for c in chunks]
    kind = fault["kind"]
    if kind in ("excess", "neg", "tril", "dup"):
        ch[fault["chunk"]].insert(fault["pos"], list(fault["rec"]))
    elif kind == "overflow":
        ch[fault["chunk"]][fault["pos"]][2] = BIG
    elif kind == "overflow_sum":
        r = ch[fault["chunk"]][0]
        r[2] = 2 ** 30
        ch[fault["chunk2"]].append([r[0], r[1], 2 ** 30])
        ch[fault["chunk2"]].sort()
    if unsorted_rows:
        # ensure_sorted=True: the rows of a chunk may come in any order (here: descending); the validator sorts them
        ch = [c[::-1] for c in ch]
    events = []
    for k, c in enumerate(ch):
        if kind == "raise" and fault["at"] == k:
            events.append({"raise": True})
            break
        events.append({"chunk": c})
    else:
        if kind == "raise" and fault["at"] == len(ch):
            events.append({"raise": True})
    return events


def _iterator(events, form, extra=False):
    for e in events:
        if "raise" in e:
            raise RuntimeError("boom")
        yield _df(e["chunk"], form, extra)


def _boom_agg(s):
    if (s == SENTINEL).any():
        raise RuntimeError("boom")
    return s.sum()


def _producer_faults(case, thorough):
    """merge / coarsen: faults are planted in the INPUT coolers"""
    inputs = case["inputs"]
    out = [{"kind": "none"}]
    single = case["producer"] == "merge" and len(inputs) == 1
    for r in range(len(inputs[0])):
        out.append({"kind": "agg_boom", "rec": r})
        if not single:
            out.append({"kind": "overflow", "rec": r})
        if case["producer"] == "merge":
            out.append({"kind": "bad_input", "rec": r, "what": "excess"})
            if case["symm"]:
                out.append({"kind": "bad_input", "rec": r, "what": "tril"})
        elif case["symm"]:
            # coarsen: a lower-triangle record in a symmetric-upper SOURCE (it stays lower after pooling unless both
            # ends fall into one coarse bin; the model judges the chunks the coarsener really yields)
            out.append({"kind": "bad_input", "rec": r, "what": "tril"})
    if case["producer"] == "merge" and not single:
        out.append({"kind": "incompatible"})
    return out


def _faulty_inputs(case, fault):
    """pixel lists of the input coolers with the fault planted (valid coolers are still written: checks off)"""
    inputs = [list(map(list, px)) for px in case["inputs"]]
    n = case["n"]
    kind = fault["kind"]
    if kind == "agg_boom":
        inputs[0][fault["rec"]][2] = SENTINEL
    elif kind == "overflow":
        r = inputs[0][fault["rec"]]
        r[2] = 2 ** 31 - 1
        if case["producer"] == "merge":
            tgt = inputs[1]
            for q in tgt:
                if q[0] == r[0] and q[1] == r[1]:
                    q[2] = 2 ** 31 - 1
                    break
            else:
                tgt.append([r[0], r[1], 2 ** 31 - 1])
                tgt.sort()
        else:
            # coarsen by 2: a second pixel of the same 2x2 block (or the same pixel made to overflow with a partner)
            i, j = r[0], r[1]
            part = None
            for q in inputs[0]:
                if q is not r and q[0] // 2 == i // 2 and q[1] // 2 == j // 2 and _same_chrom(case, q, r):
                    part = q
                    break
            if part is None:
                return None  # no partner in the block: this fault does not exist for this record
            part[2] = 2 ** 31 - 1
    elif kind == "bad_input":
        which = 1 if (case["producer"] == "merge" and len(inputs) > 1) else 0
        r = inputs[which][fault["rec"] % len(inputs[which])] if inputs[which] else None
        if r is None:
            return None
        if fault["what"] == "excess":
            r[1] = n
        else:
            if r[0] == r[1]:
                if n < 2:
                    return None
                r[0], r[1] = (1, 0)
            else:
                r[0], r[1] = r[1], r[0]
        inputs[which].sort()
        # keys must stay unique inside the input cooler
        keys = [(q[0], q[1]) for q in inputs[which]]
        if len(set(keys)) != len(keys):
            return None
    return inputs


def _same_chrom(case, q, r):
    lay = case["layout"]
    def ch(i):
        s = 0
        for c, k in enumerate(lay):
            s += k
            if i < s:
                return c
        return -1
    # coarsening pools bins of one chromosome only; block membership also needs equal offsets parity
    off = {}
    s = 0
    for c, k in enumerate(lay):
        off[c] = s
        s += k
    return (ch(q[0]) == ch(r[0]) and ch(q[1]) == ch(r[1])
            and (q[0] - off[ch(q[0])]) // 2 == (r[0] - off[ch(r[0])]) // 2
            and (q[1] - off[ch(q[1])]) // 2 == (r[1] - off[ch(r[1])]) // 2)


def _write_inputs(case, where, only=None, inputs=None, incompatible=False):
    """write the input coolers of a merge/coarsen case (one file each, or `only`=k into the group URI `where`);
    returns their URIs.  The planted records may be invalid: the checks are off."""
    inputs = case["inputs"] if inputs is None else inputs
    bins = gen.layout_bins(case["layout"])
    kw = dict(boundscheck=False, triucheck=False, dupcheck=False, dtypes={"count": np.int32})
    extra = bool(_o(case).get("extra"))
    if extra:
        kw["columns"] = ["count", "w"]
    uris = []
    for k, px in enumerate(inputs):
        if only is not None and k != only:
            continue
        b = bins
        if incompatible and k == 1:
            b = gen.layout_bins([x + 1 for x in case["layout"]], width=7)
        if only is not None:
            f, g = where.split("::")
            _put_cooler(f, g, b, _df(px, extra=extra), case["symm"], **kw)
            uris.append(where)
        else:
            uri = os.path.join(where, f"in{k}.cool")
            cooler.create_cooler(uri, gen.bins_df(b), _df(px, extra=extra), symmetric_upper=case["symm"], ordered=True, mode="w", **kw)
            uris.append(uri)
    return uris


# ----------------------------------------------------------------------------------------------
# one fault, real side + model side
# ----------------------------------------------------------------------------------------------

class _Ctx:
    pass


def _prepare(case):
    """scratch dir, template file, snapshots of the neighbours"""
    x = _Ctx()
    x.dir = tempfile.mkdtemp(prefix=f"c13-{os.getpid()}-", dir=gen.tmpdir())
    x.tpl, x.groups = _template(x.dir, case)
    x.dest_group = DEST_PATH[case["dest"]]
    x.work = os.path.join(x.dir, "work")
    os.makedirs(x.work)
    x.file = os.path.join(x.work, "out.cool")
    x.uri = x.file + "::" + x.dest_group
    x.mode = case.get("mode") or ("w" if case["dest"] == "newfile" else "a")
    x.neigh = {}
    x.inputs = ()
    x.stat = {}
    x.unrelated = None
    x.was_cooler = False
    x.refpaths = set()
    x.ref = None
    if x.tpl:
        listing = fileops.list_coolers(x.tpl)
        model_listing = sorted("/" + "/".join(g["path"]) for g in x.groups if g["fmt"] == cooler.create.MAGIC and g["path"] != ["src"])
        assert sorted(listing) == model_listing, ("harness: template description out of sync", listing, model_listing)
        x.was_cooler = x.dest_group in listing
        for p in listing:
            if _in_footprint(x.dest_group, p):
                continue
            x.neigh[p] = _snapshot(x.tpl + "::" + p)
        x.unrelated = _unrelated(x.tpl, x.dest_group)
        x.file, keep = x.tpl, x.file
        x.raw0 = _raw_target(x)
        x.file = keep
    return x


def _in_footprint(dest, p):
    if dest == "/":
        return p == "/" or _parts(p)[0] in ("chroms", "bins", "pixels", "indexes")
    return p == dest or p.startswith(dest + "/")


def _fresh(x):
    for f in os.listdir(x.work):
        os.unlink(os.path.join(x.work, f))
    if x.tpl:
        shutil.copyfile(x.tpl, x.file)


def _model(x, case, events, pipeline, inputs_ok=True, n=None, opts_ok=None):
    cfg = {"target": _parts(x.dest_group), "mode": x.mode, "n": case["n"] if n is None else n, "symm": case["symm"]}
    mo, ok = _model_opts(case)
    opts_ok = ok if opts_ok is None else opts_ok
    cfg.update(mo)
    m = drv().ask("C13.run", cfg=cfg, fs=x.groups, events=events, pipeline=pipeline, inputs_ok=inputs_ok, opts_ok=opts_ok)
    if m["fault"] is not None:
        # where the run stopped: before the final create touched the destination / inside it, after how many chunks
        nch = sum(1 for e in events if "chunk" in e)
        x.stat = {("stopped.before_dest_touched" if m["dest_untouched"] else "stopped.dest_half_written"): 1,
                  f"stopped_with_stream_of_{min(nch, 5)}_chunks": 1}
        if m["was_cooler"] and m["is_cooler"]:
            x.stat["old_destination_still_recognised(root keeps its attributes)"] = 1
    return m


def _call(f):
    """run the creation call: (None | exception class, message)"""
    try:
        f()
    except Exception as e:  # noqa: the expected OUTCOME of a fault
        return errclass(e), str(e)[:200]
    return None, None


def _observe_top(x, case, fault, model, raised, msg):
    """the property, after one creation attempt"""
    kind = fault["kind"]
    base = {"mismatch": True, "fault": fault, "producer": case["producer"], "dest": case["dest"], "dest_uri_group": x.dest_group,
            "mode": x.mode, "model_fault": model["fault"], "raised": raised, "message": msg}
    assert model["l0_ok"], f"model run contradicts a proved theorem: {model}"
    mfault = model["fault"]
    overflow = kind in ("overflow", "overflow_sum")
    if _o(case):
        base["opts"] = _o(case)
    # mode "w" on an existing file truncates it by documented design: once the final create() has opened the
    # destination the other collections are gone (the model says so too); only the destination clauses remain
    trunc = bool(x.tpl) and x.mode == "w" and (not model["dest_untouched"] or raised is None)
    if mfault is None and raised is not None:
        if _check_off(case, fault):
            mfault = "unchecked"   # outcome not fixed by the property; the creation stopped: the fault clauses apply
        else:
            return dict(base, note="the creation raised on a valid stream / valid inputs", impl_raised=raised)
    if mfault is not None and raised is None:
        if overflow or _opt_fault(case, model):
            # not rejecting an overflowing count / an option value the documentation excludes (metadata json cannot
            # encode, an unknown storage option) is not C13's concern: then the creation must complete
            mfault = None
        else:
            return dict(base, note="invalid input / interrupted input stream did not raise: creation went on")
    exists = os.path.exists(x.file)
    is_c = impl(fileops.is_cooler, x.uri)
    listed = impl(fileops.list_coolers, x.file) if exists else []
    if mfault is None:
        if not is_c or x.dest_group not in listed:
            return dict(base, note="no fault, yet the destination is not a recognised / listed cooler", is_cooler=is_c, listed=listed)
    elif not x.was_cooler:
        if is_c:
            return dict(base, note="creation failed but the destination is recognised as a cooler (is_cooler)", listed=listed)
        if x.dest_group in listed:
            return dict(base, note="creation failed but the destination is listed by list_coolers", listed=listed)
    # neighbours
    for p, snap in ({} if trunc else x.neigh).items():
        if p not in listed:
            return dict(base, note=f"collection {p} of the same file is no longer listed", listed=listed)
        if not impl(fileops.is_cooler, x.file + "::" + p):
            return dict(base, note=f"collection {p} of the same file is no longer recognised")
        now = impl(_snapshot, x.file + "::" + p, p in x.refpaths)
        if now != snap:
            diff = [k for k in snap if snap[k] != now[k]]
            return dict(base, note=f"collection {p} of the same file reads back differently", differs=diff,
                        before={k: snap[k] for k in diff}, after={k: now[k] for k in diff})
    extra = [p for p in listed if p not in x.neigh and not _in_footprint(x.dest_group, p)]
    if extra and not trunc:
        return dict(base, note="list_coolers names collections that did not exist", extra=extra)
    if x.unrelated is not None and not trunc:
        now = impl(_unrelated, x.file, x.dest_group)
        if now != x.unrelated:
            return dict(base, note="unrelated attributes / plain data changed", before=x.unrelated, after=now)
    # model agreement on the same observables (the model's neighbours are unchanged by theorem; re-evaluated above)
    mlisted = sorted("/" + "/".join(p) for p in model["listed"])
    rl = sorted(p for p in listed if p != x.dest_group or not x.was_cooler or mfault is None)
    ml = sorted(p for p in mlisted if p != x.dest_group or not x.was_cooler or mfault is None)
    if (model["fault"] is None) == (raised is None):
        if rl != ml:
            return dict(base, note="list_coolers differs from the model's file state", impl=rl, model=ml)
    # temporary files
    left = [f for f in os.listdir(x.work) if f != "out.cool" and f not in x.inputs]
    if left:
        gc.collect()
        left = [f for f in os.listdir(x.work) if f != "out.cool" and f not in x.inputs]
        if left:
            return dict(base, note="temporary files left next to the destination", left=left)
    return None


def _raw_target(x):
    """raw state of the destination group"""
    if not os.path.exists(x.file):
        return None
    with h5py.File(x.file, "r") as f:
        if x.dest_group not in f:
            return "missing-group"
        g = f[x.dest_group]
        out = {"chroms": "chroms" in g, "bins": "bins" in g, "indexes": "indexes" in g,
               "fmt": (lambda v: None if v is None else (v.decode() if isinstance(v, bytes) else str(v)))(g.attrs.get("format", None)),
               "info": "nnz" in g.attrs, "pixels": None}
        if "pixels" in g:
            pg = g["pixels"]
            out["pixels"] = {"ids": [[int(a), int(b)] for a, b in zip(pg["bin1_id"][:], pg["bin2_id"][:])],
                             "counts": [int(v) for v in pg["count"][:]]}
            if len(pg["bin1_id"]) != len(pg["bin2_id"]):
                out["pixels"]["ids"] = ["ragged", len(pg["bin1_id"]), len(pg["bin2_id"])]
    return out


def _observe_state(x, case, fault, model, raised, msg):
    base = {"mismatch": True, "fault": fault, "producer": case["producer"], "dest": case["dest"], "mode": x.mode}
    mf = model["fault"]
    want = {"iter": "RuntimeError", None: None}.get(mf, mf)
    if case["producer"] == "cli_load" and mf == "iter" and raised is not None:
        want = raised     # a malformed line: whatever the text reader raises is propagated
    if raised != want and (_check_off(case, fault) or (raised is None and _opt_fault(case, model))):
        return None   # a record whose check is switched off / an excluded option value: whether the creation fails is not fixed
    if raised != want:
        return dict(base, note="exception class differs from the model's", impl=raised, model=want, message=msg)
    raw = _raw_target(x)
    mt = model["target"]
    if model["dest_untouched"] and x.tpl:
        if raw != x.raw0:
            return dict(base, note="the model leaves the destination file untouched (the fault precedes the final create) "
                                   "but the destination group changed", before=x.raw0, after=raw)
        return None
    if mt is None:
        if model["dest_exists"] != (raw is not None) or raw not in (None, "missing-group"):
            return dict(base, note="destination group exists although the model has none", impl=raw)
        return None
    if raw in (None, "missing-group"):
        return dict(base, note="destination group missing", model=mt)
    cmp_model = {k: mt[k] for k in ("chroms", "bins", "indexes", "fmt", "info")}
    cmp_impl = {k: raw[k] for k in ("chroms", "bins", "indexes", "fmt", "info")}
    if cmp_model != cmp_impl:
        return dict(base, note="tables / attributes present in the destination differ from the model state", impl=cmp_impl, model=cmp_model)
    if case["producer"] in ("ordered", "merge", "coarsen") and mf is not None:
        if raw["pixels"] != mt["pixels"]:
            return dict(base, note="rows of the half-written pixel columns differ from the model state `runUntil k`",
                        impl=raw["pixels"], model=mt["pixels"], steps_done=model["steps_done"], steps_total=model["steps_total"])
    return None


def _run_stream_fault(x, case, fault, observe):
    o = _o(case)
    events = _apply_stream_fault(case["chunks"], fault, unsorted_rows=bool(o.get("ensure_sorted")))
    _fresh(x)
    form = case.get("form", "df")
    bins = gen.bins_df(gen.layout_bins(case["layout"]))
    kw = _real_opts(case)
    if case["producer"] == "unordered":
        kw.update({"mergebuf": case.get("mergebuf", 2), "max_merge": case.get("max_merge", 200)})
    model = _model(x, case, events, case["producer"])
    raised, msg = _call(lambda: cooler.create_cooler(x.uri, bins, _iterator(events, form, bool(o.get("extra"))),
                                                      ordered=case["producer"] == "ordered",
                                                      symmetric_upper=case["symm"], mode=x.mode, **kw))
    return observe(x, case, fault, model, raised, msg)


def _observe_events(it):
    """iterate a producer once and record what it yields: chunks, then possibly an exception"""
    ev = []
    try:
        for ch in it:
            ev.append({"chunk": [[int(a), int(b), int(v)] for a, b, v in zip(ch["bin1_id"], ch["bin2_id"], ch["count"])]})
    except Exception:  # noqa: recorded as the event "the iterator raises here"
        ev.append({"raise": True})
    return ev


def _run_producer_fault(x, case, fault, observe):
    inputs = _faulty_inputs(case, fault)
    if inputs is None:
        return "skip"
    _fresh(x)
    prod = case["producer"]
    agg = {"count": _boom_agg} if fault["kind"] == "agg_boom" else None
    if case.get("src_in_dest") and x.tpl:
        # the source of the coarsening is a neighbour of the destination, in the same file
        uris = _write_inputs(case, x.file + "::/src", only=0, inputs=inputs)
        x.neigh["/src"] = _snapshot(uris[0])
    else:
        uris = _write_inputs(case, x.work, inputs=inputs, incompatible=fault["kind"] == "incompatible")
        x.inputs = tuple(os.path.basename(u) for u in uris)
    n_out = case["n"]
    inputs_ok = True
    kw = _real_opts(case)
    cols = kw.get("columns", ["count"])
    if prod == "merge":
        try:
            it = CoolerMerger([cooler.Cooler(u) for u in uris], mergebuf=case.get("mergebuf", 2), columns=cols, agg=agg)
            events = _observe_events(it)
        except ValueError:
            inputs_ok, events = False, []
        model = _model(x, case, events, "producer", inputs_ok=inputs_ok)
        raised, msg = _call(lambda: cooler.merge_coolers(x.uri, uris, mergebuf=case.get("mergebuf", 2), agg=agg, mode=x.mode, **kw))
    else:
        it = CoolerCoarsener(uris[0], 2, case.get("chunksize", 2), columns=cols, agg=agg, batchsize=1)
        n_out = len(it.new_bins)
        events = _observe_events(it)
        model = _model(x, case, events, "producer", n=n_out)
        raised, msg = _call(lambda: cooler.coarsen_cooler(uris[0], x.uri, 2, case.get("chunksize", 2), agg=agg, mode=x.mode, **kw))
    return observe(x, case, fault, model, raised, msg)


# ----------------------------------------------------------------------------------------------
# further producers: the CLI loader, zoomify_cooler and create_scool (several creations into one file)
# ----------------------------------------------------------------------------------------------

def _rechunk(rows, cs):
    return [rows[i:i + cs] for i in range(0, len(rows), cs)]


def _cli_faults(case, thorough):
    # a malformed line = the reader raises before that chunk; a lower-triangle record is no fault here (the loader
    # reflects it); what a number beyond the count dtype becomes is the text reader's business (the overflowing SUM of two
    # records stays); an empty input is outside (the reader rejects it before anything is created)
    return [f for f in _stream_faults(case, thorough) if f["kind"] not in ("tril", "overflow")]


def _run_cli_fault(x, case, fault, observe):
    """`cooler load -f coo`: text records in any order, read `chunksize` lines at a time, through unordered ingestion"""
    import json
    from click.testing import CliRunner
    from cooler.cli import cli
    o = _o(case)
    cs = case["chunksize"]
    BAD = None
    if fault["kind"] == "raise":
        rows = [r for c in case["chunks"][:fault["at"]] for r in c] + [BAD] + [r for c in case["chunks"][fault["at"]:] for r in c]
    else:
        rows = [e["chunk"] for e in _apply_stream_fault(case["chunks"], fault)]
        rows = [r for c in rows for r in c]
    events = []
    for c in _rechunk(rows, cs):
        if any(r is BAD for r in c):
            events.append({"raise": True})
            break
        events.append({"chunk": c})
    _fresh(x)
    bed, txt = os.path.join(x.work, "bins.bed"), os.path.join(x.work, "pixels.txt")
    gen.bins_df(gen.layout_bins(case["layout"])).to_csv(bed, sep="\t", header=False, index=False)
    with open(txt, "w") as f:
        for r in rows:
            f.write("1\tx\t1\n" if r is BAD else f"{r[0]}\t{r[1]}\t{r[2]}\n")
    x.inputs = ("bins.bed", "pixels.txt", "meta.json")
    args = ["load", "-f", "coo", "--chunksize", str(cs), "--mergebuf", str(case.get("mergebuf", 2)),
            "--max-merge", str(case.get("max_merge", 200))]
    opts_ok = True
    if "metadata" in o:
        with open(os.path.join(x.work, "meta.json"), "w") as f:
            if o["metadata"] == "unparsable":
                f.write('{"sample": ')
                opts_ok = False       # rejected before the creation is entered
            else:
                json.dump(_metadata(o["metadata"]), f)
        args += ["--metadata", os.path.join(x.work, "meta.json")]
    if "assembly" in o:
        args += ["--assembly", o["assembly"]]
    if o.get("count_dtype") == "float64":
        args += ["--count-as-float"]
    elif "count_dtype" in o:
        args += ["--field", f"count:dtype={o['count_dtype']}"]
    if "h5opts" in o:
        args += ["--storage-options", ",".join(f"{k}={v}" for k, v in H5OPTS[o["h5opts"]].items())]
    if not case["symm"]:
        args += ["--no-symmetric-upper"]
    if x.mode != "w":
        args += ["--append"]
    args += [bed, txt, x.uri]
    model = _model(x, case, events, "unordered", opts_ok=None if opts_ok else False)

    def run():
        res = CliRunner().invoke(cli, args)
        if res.exit_code != 0:
            raise res.exception if isinstance(res.exception, Exception) else RuntimeError(f"exit {res.exit_code}")
    raised, msg = _call(run)
    return observe(x, case, fault, model, raised, msg)


class _LateBoom:
    """aggregation that raises as soon as a pooled value exceeds `t` (a fault that only a LATER zoom level meets)"""

    def __init__(self, t):
        self.t = t

    def __call__(self, s):
        v = s.sum()
        if v > self.t:
            raise RuntimeError("boom")
        return v


def _zoom_faults(case, thorough):
    out = [{"kind": "none"}, {"kind": "late_boom"}]
    for r in range(len(case["inputs"][0])):
        out.append({"kind": "agg_boom", "rec": r})
        if case["symm"]:
            out.append({"kind": "bad_input", "rec": r, "what": "tril"})
    return out


def _seq_model(x, case, fs, stages):
    mo, opts_ok = _model_opts(case)
    st = []
    for g in stages:
        cfg = {"target": _parts(g["target"]), "mode": g["mode"], "n": g["n"], "symm": case["symm"]}
        cfg.update(mo)
        cfg.update(g.get("cfg", {}))
        st.append({"cfg": cfg, "events": g["events"], "pipeline": g["pipeline"], "inputs_ok": True,
                   "opts_ok": g.get("opts_ok", opts_ok)})
    m = drv().ask("C13.run_seq", stages=st, fs=fs)
    if m["fault"] is not None:
        x.stat = {f"stopped_in_creation_{min(m['stage'], 3)}_of_the_call": 1,
                  ("stopped.before_dest_touched" if m["dest_untouched"] else "stopped.dest_half_written"): 1}
    return m


def _good_opts(case):
    return _model_opts(case)[1] and _model_opts(case)[0].get("info_ok", True)


def _opt_fault(case, model):
    """what stopped the model's run is an option value itself (metadata json cannot encode: TypeError out of write_info;
    an option rejected on entry: ValueError), not the stream"""
    if model["fault"] == "TypeError":
        return True
    return model["fault"] == "ValueError" and (not _model_opts(case)[1] or _o(case).get("metadata") == "unparsable")


def _run_zoom_fault(x, case, fault, observe):
    """zoomify_cooler: the base is copied into a NEW multi-resolution file, then one coarsening per level, each reading
    the level below from the same file: after a fault at one level the levels below are 'other collections'"""
    from cooler._reduce import get_multiplier_sequence
    kw = _real_opts(case)
    cols = kw.get("columns", ["count"])
    chunksize = case.get("chunksize", 2)
    magic = cooler.create.MAGIC
    if x.ref is None:
        # the run WITHOUT a fault (same options; none at all if the options themselves are the fault)
        x.ref = {"file": os.path.join(x.dir, "ref.mcool"), "snap": {}}
        base = _write_inputs(case, x.dir)[0]
        b = int(cooler.Cooler(base).binsize or 1)
        res = [b * 2 ** k for k in range(1, case.get("levels", 2) + 1)]
        resn, pred, mult = get_multiplier_sequence(res, {b})
        x.ref.update(b=b, res=res, plan=[(int(resn[i]), int(resn[pred[i]]), int(mult[i])) for i in range(len(resn))
                                         if pred[i] != -1 and int(resn[i]) != b])
        x.ref["snap"][b] = _snapshot(base, True)
        if _good_opts(case):
            impl(cooler.zoomify_cooler, base, x.ref["file"], res, chunksize, **_real_opts(case))
            for r in res:
                x.ref["snap"][r] = impl(_snapshot, x.ref["file"] + f"::/resolutions/{r}", True)
        os.unlink(base)
    ref = x.ref
    b, res, plan = ref["b"], ref["res"], ref["plan"]
    agg = None
    if fault["kind"] == "agg_boom":
        agg = {"count": _boom_agg}
    elif fault["kind"] == "late_boom":
        if not _good_opts(case) or len(res) < 2:
            return "skip"
        m1 = max([p[2] for p in ref["snap"][res[0]]["pixels"]] or [0])
        if max([p[2] for r in res[1:] for p in ref["snap"][r]["pixels"]] or [0]) <= m1:
            return "skip"            # no pooled value of a later level exceeds those of the first
        agg = {"count": _LateBoom(m1)}
    inputs = _faulty_inputs(dict(case, producer="coarsen"), fault) if fault["kind"] in ("agg_boom", "bad_input") else case["inputs"]
    if inputs is None:
        return "skip"
    _fresh(x)
    uris = _write_inputs(case, x.work, inputs=inputs)
    x.inputs = tuple(os.path.basename(u) for u in uris)
    stages = []
    for r, src, factor in plan:
        source = uris[0] if src == b else ref["file"] + f"::/resolutions/{src}"
        if src != b and not os.path.exists(ref["file"]):
            break                    # (bad options: the first creation already fails)
        it = CoolerCoarsener(source, factor, chunksize, columns=cols, agg=agg, batchsize=1)
        stages.append({"target": f"/resolutions/{r}", "mode": "r+", "n": len(it.new_bins), "events": _observe_events(it),
                       "pipeline": "producer"})
    fs = [{"path": [], "fmt": None, "other": [], "id": None}, {"path": ["resolutions"], "fmt": None, "other": [], "id": None},
          {"path": ["resolutions", str(b)], "fmt": magic, "other": [], "id": 20}]
    model = _seq_model(x, case, fs, stages)
    if fault["kind"] == "bad_input" and model["fault"] is None:
        return "skip"                # the planted record is not invalid once pooled: a different valid input
    raised, msg = _call(lambda: cooler.zoomify_cooler(uris[0], x.file, res, chunksize, agg=agg, **kw))
    if raised is None and _opt_fault(case, model):
        return "skip"                # the option value was accepted after all: no fault to look at
    k = model["stage"]
    x.dest_group = stages[k]["target"]
    x.uri = x.file + "::" + x.dest_group
    done = [r for r, _, _ in plan[:k]]
    x.neigh = {f"/resolutions/{r}": ref["snap"][r] for r in done if r in ref["snap"]}
    x.neigh[f"/resolutions/{b}"] = _snapshot(uris[0], True)      # the copy of the base the call was given
    x.refpaths = set(x.neigh)
    return observe(x, case, fault, model, raised, msg)


def _scool_faults(case, thorough):
    out = [{"kind": "none"}]
    for name in sorted(case["cells"]):
        sub = dict(case, producer="ordered", chunks=case["cells"][name])
        out.extend(dict(f, cell=name) for f in _stream_faults(sub, thorough) if f["kind"] != "none")
    return out


def _run_scool_fault(x, case, fault, observe):
    """create_scool: the file root becomes the single-cell container, then one creation per cell under /cells"""
    o = _o(case)
    kw = _real_opts(case)
    names = sorted(case["cells"])
    bins = gen.bins_df(gen.layout_bins(case["layout"]))
    form = case.get("form", "df")
    nofault = {"kind": "none"}

    def events_of(name, f):
        return _apply_stream_fault(case["cells"][name], f if f.get("cell") == name else nofault,
                                   unsorted_rows=bool(o.get("ensure_sorted")))

    def call(path, f):
        cells = {name: _iterator(events_of(name, f), form, bool(o.get("extra"))) for name in names}
        cooler.create_scool(path, bins, cells, ordered=True, symmetric_upper=case["symm"], mode=x.mode, **kw)

    if x.ref is None:
        x.ref = {"snap": {}, "neigh0": dict(x.neigh)}
        if _good_opts(case):
            rf = os.path.join(x.dir, "ref.scool")
            if x.tpl:
                shutil.copyfile(x.tpl, rf)
            impl(call, rf, nofault)
            for name in names:
                x.ref["snap"][name] = impl(_snapshot, rf + "::/cells/" + name, True)
            os.unlink(rf)
    _fresh(x)
    x.inputs = ()
    raised, msg = _call(lambda: call(x.file, fault))
    listed = impl(fileops.list_coolers, x.file) if os.path.exists(x.file) else []
    mo, opts_ok = _model_opts(case)
    root0 = [dict(g) for g in (x.groups or [{"path": [], "fmt": None, "other": [], "id": None}])]
    if not _good_opts(case):
        # the container itself is not written: an option rejected on entry, or its own `write_info` raising
        fs = x.groups
        stages = [{"target": "/", "mode": x.mode, "n": case["n"], "events": [], "pipeline": "ordered"}]
    else:
        for g in root0:
            if g["path"] == []:
                g["fmt"], g["id"] = "HDF5::SCOOL", None
        fs = root0
        bad = fault.get("cell")
        # the order in which the cells are written is the implementation's: the model is given the cells that ARE
        # complete, then the one holding the fault
        order = [n for n in names if n != bad and ("/cells/" + n) in listed] + ([bad] if bad else [])
        if not bad:
            order = names
        stages = [{"target": "/cells/" + n, "mode": "a", "n": case["n"], "events": events_of(n, fault), "pipeline": "ordered"}
                  for n in order]
    model = _seq_model(x, case, fs, stages)
    if raised is None and _opt_fault(case, model):
        return "skip"                # the option value was accepted after all: no fault to look at
    k = model["stage"]
    x.dest_group = stages[k]["target"]
    x.uri = x.file + ("" if x.dest_group == "/" else "::" + x.dest_group)
    x.neigh = dict(x.ref["neigh0"])
    for g in stages[:k]:
        n = g["target"].split("/")[-1]
        if n in x.ref["snap"]:
            x.neigh[g["target"]] = x.ref["snap"][n]
    x.refpaths = {g["target"] for g in stages}
    return observe(x, case, fault, model, raised, msg)


def _fault_list(case):
    """the fault space of a case; an option case (`slice`) takes a thin deterministic slice of it: no fault, the
    iterator exception before EVERY chunk index, and one position (chosen by `salt`) of every other kind per chunk"""
    thorough = bool(case.get("thorough"))
    prod = case["producer"]
    stream = prod in ("ordered", "unordered", "cli_load", "scool")
    faults = {"ordered": _stream_faults, "unordered": _stream_faults, "cli_load": _cli_faults, "scool": _scool_faults,
              "merge": _producer_faults, "coarsen": _producer_faults, "zoomify": _zoom_faults}[prod](case, thorough)
    if not case.get("slice"):
        return faults
    if _o(case).get("h5opts") == "bad" or (prod == "scool" and not _good_opts(case)) or _o(case).get("metadata") == "unparsable":
        # rejected on entry whatever the stream: the first fault of each kind is enough
        seen, out = set(), []
        for f in faults:
            if f["kind"] not in seen:
                seen.add(f["kind"])
                out.append(f)
        return out
    groups = {}
    for f in faults:
        groups.setdefault((f["kind"], f.get("chunk", f.get("at")), f.get("what"), f.get("cell")), []).append(f)
    salt = int(case.get("salt", 0))
    out = []
    for i, g in enumerate(groups.values()):
        picks = {(salt + i) % len(g)}
        if not stream:
            picks.add((salt + i + len(g) // 2) % len(g))    # merge / coarsen: two input records per kind
        out.extend(g[q] for q in sorted(picks))
    return out


def _enumerate(case, observe):
    runner = {"ordered": _run_stream_fault, "unordered": _run_stream_fault, "merge": _run_producer_fault,
              "coarsen": _run_producer_fault, "zoomify": _run_zoom_fault, "scool": _run_scool_fault,
              "cli_load": _run_cli_fault}[case["producer"]]
    faults = case.get("only") or _fault_list(case)
    x = _prepare(case)
    stats = {"faults": 0}
    try:
        for fault in faults:
            try:
                r = runner(x, case, fault, observe)
            except ImplRaised as e:
                return {"mismatch": True, "fault": fault, "producer": case["producer"], "dest": case["dest"],
                        "impl_raised": e.cls, "message": e.msg, "where": e.where,
                        "note": "the implementation raised while the state after the creation attempt was inspected"}
            if isinstance(r, str) and r == "skip":
                continue
            stats["faults"] += 1
            stats[f"kind.{fault['kind']}"] = stats.get(f"kind.{fault['kind']}", 0) + 1
            for k, v in x.stat.items():
                stats[k] = stats.get(k, 0) + v
            x.stat = {}
            if r is not None:
                return r
        return {"stats": stats}
    finally:
        shutil.rmtree(x.dir, ignore_errors=True)


def _faults(case):
    return _enumerate(case, _observe_top)


def _partial_state(case):
    return _enumerate(case, _observe_state)


# ----------------------------------------------------------------------------------------------
# validator and constants
# ----------------------------------------------------------------------------------------------

def _validator(case):
    n, chunks = case["n"], case["chunks"]
    ans = drv().ask("C13.validate_batch", n=n, chunks=chunks)
    assert ans["l0_ok"], "validatePixels disagrees with acceptsSpec: theorem validate_accepts_iff_flags contradicted"
    flags = ans["flags"]
    ncalls = 0
    for ci, (chunk, results) in enumerate(zip(chunks, ans["results"])):
        keys = [(r[0], r[1]) for r in chunk]
        has_dup = len(set(keys)) != len(keys)
        for (b, t, d, e), want in zip(flags, results):
            form = "df" if (ci + b + 2 * t) % 2 == 0 else "dict"
            f = validate_pixels(n, b, t, d, e)
            try:
                out = f(_df(chunk, form))
                got = {"ok": [[int(a), int(c), int(v)] for a, c, v in zip(out["bin1_id"], out["bin2_id"], out["count"])]}
            except Exception as ex:  # noqa: expected outcome
                got = {"err": errclass(ex)}
            ncalls += 1
            same = got == want
            if not same and "ok" in got and "ok" in want and e and has_dup:
                # order among records of equal key after sorting is not promised
                same = [r[:2] for r in got["ok"]] == [r[:2] for r in want["ok"]] and sorted(got["ok"]) == sorted(want["ok"])
            if not same:
                return {"mismatch": True, "n": n, "chunk": chunk, "input_form": form,
                        "flags": {"boundscheck": b, "triucheck": t, "dupcheck": d, "ensure_sorted": e}, "impl": got, "model": want}
    return {"stats": {"validator_calls": ncalls}}


def _constants(case):
    m = drv().ask("C13.constants")
    from cooler.create import COUNT_DTYPE, MAGIC
    info = np.iinfo(COUNT_DTYPE)
    got = {"magic": MAGIC, "count_lo": int(info.min), "count_hi": int(info.max), "tables": ["chroms", "bins", "pixels", "indexes"]}
    if got != m:
        return {"mismatch": True, "impl": got, "model": m}
    return None


CHECKS = {"faults": _faults, "partial_state": _partial_state, "validator": _validator, "constants": _constants}


# ----------------------------------------------------------------------------------------------
# cases
# ----------------------------------------------------------------------------------------------

def nontrivial(name, case):
    if name in ("faults", "partial_state"):
        return (len(case.get("chunks", [])) >= 2 or len(case.get("inputs", [])) >= 2 or len(case.get("cells", [])) >= 2
                or case["producer"] in ("coarsen", "zoomify"))
    return name == "validator"


def distribution(name, case):
    if name in ("faults", "partial_state"):
        yield f"{name}.producer={case['producer']}"
        yield f"{name}.dest={case['dest']}"
        yield f"{name}.{'symm' if case['symm'] else 'square'}"
        if "chunks" in case:
            yield f"{name}.m={len(case['chunks'])}"
        for k, v in sorted(_o(case).items()):
            yield f"{name}.opt.{k}={v}"
        if case.get("mode"):
            yield f"{name}.mode={case['mode']}"


def _split(rng, px, m):
    cuts = sorted(rng.randint(0, len(px)) for _ in range(m - 1))
    out, a = [], 0
    for c in cuts + [len(px)]:
        out.append(px[a:c])
        a = c
    return out


def _stream_case(rng, producer, dest, symm, mmax, thorough, n=None, m=None):
    n = n or rng.randint(2, 5)
    m = m if m is not None else rng.randint(1, mmax)
    px = gen.matrix_kinds(rng, n, symm, rng.choice(["random", "dense-random", "gaps", "random", "diag", "onerow"]))
    px = [[i, j, 1 + (v % 50)] for i, j, v in px]
    chunks = _split(rng, px, m) if m else []
    if producer == "unordered":
        rng.shuffle(chunks)
    c = {"producer": producer, "dest": dest, "symm": symm, "n": n, "layout": gen.split_layout(rng, n), "chunks": chunks,
         "form": rng.choice(["df", "dict"]), "thorough": thorough}
    if dest == "newfile":
        c["mode"] = rng.choice(["w", "a"])
    elif thorough and rng.random() < 0.25:
        c["mode"] = "r+"
    if producer == "unordered" and thorough and rng.random() < 0.4:
        c["max_merge"] = 2
    return c


def _producer_case(rng, producer, dest, symm, thorough):
    if producer == "merge":
        n = rng.randint(2, 5)
        layout = gen.split_layout(rng, n)
        k = rng.choice([1, 2, 2, 3])          # a single input is a merge too (and must be validated like one)
        inputs = []
        for _ in range(k):
            px = gen.matrix_kinds(rng, n, symm, rng.choice(["random", "dense-random", "gaps", "onerow"]))
            inputs.append([[i, j, 1 + (v % 50)] for i, j, v in px])
        if not inputs[0]:
            inputs[0] = [[0, n - 1, 3]]
        if k > 1 and not inputs[1]:
            inputs[1] = [[0, 0, 2]]
    else:
        n = rng.randint(3, 6)
        layout = gen.split_layout(rng, n)
        px = gen.matrix_kinds(rng, n, symm, rng.choice(["dense-random", "full", "random"]))
        inputs = [[[i, j, 1 + (v % 50)] for i, j, v in px]]
        if not inputs[0]:
            inputs[0] = [[0, 0, 2], [0, 1, 3]]
    c = {"producer": producer, "dest": dest, "symm": symm, "n": n, "layout": layout, "inputs": inputs, "thorough": thorough,
         "mergebuf": rng.choice([1, 1, 2]), "chunksize": rng.choice([1, 1, 2])}
    if dest == "newfile":
        c["mode"] = rng.choice(["w", "a"])
    if producer == "coarsen" and dest != "newfile" and rng.random() < 0.5:
        c["src_in_dest"] = True
    return c


# the option axes: every keyword option of the producing calls (value None = the keyword is not passed)
OPT_AXES = {
    "metadata": [None, "none", "empty", "flat", "nested", "empty", "flat", "nested", "bad"],
    "assembly": [None, "toy1", None, "hg19"],
    "columns": [None, {"extra": True}, {"extra": True, "w_dtype": "float32"}, {"count_dtype": "int64"},
                {"count_dtype": "int16"}, {"count_dtype": "float64"}, {"count_dtype": "int32"},
                {"extra": True, "count_dtype": "int64"}],
    "h5opts": [None, "lzf", None, "gzip1", "nocomp", None, "fletcher", "bad"],
    "flags": [None, {"boundscheck": False}, {"triucheck": False}, {"dupcheck": False}, {"ensure_sorted": True}, None,
              {"boundscheck": False, "triucheck": False, "dupcheck": False},
              {"ensure_sorted": True, "dupcheck": False}, {"boundscheck": True, "triucheck": True, "dupcheck": True,
                                                          "ensure_sorted": False}],
}
# destinations where the recognition clause applies (the destination held no cooler before)
OPT_DESTS = ["newgroup", "newfile", "plaingroup", "root", "nested"]


def _axis(rng, vals, k):
    """k values of an axis: every value as often as every other (a shuffled cycle)"""
    out = []
    while len(out) < k:
        v = list(vals)
        rng.shuffle(v)
        out.extend(v)
    return out[:k]


CLI_AXES = {
    "metadata": [None, "empty", "flat", "nested", "unparsable"],
    "assembly": [None, "toy1"],
    "columns": [None, {"count_dtype": "float64"}, {"count_dtype": "int64"}, None],
    "h5opts": [None, "lzf", "gzip1", None, "bad"],
    "flags": [None],
}


def _base_case(rng, producer, dest, symm, thorough):
    if producer in ("ordered", "unordered"):
        return _stream_case(rng, producer, dest, symm, 3, thorough, m=rng.choice([2, 3, 3]))
    if producer in ("merge", "coarsen"):
        return _producer_case(rng, producer, dest, symm, thorough)
    if producer == "cli_load":
        c = _stream_case(rng, "unordered", dest, symm, 3, thorough, m=3)
        rows = [r for ch in c["chunks"] for r in ch] or [[0, c["n"] - 1, 3]]
        rng.shuffle(rows)
        cs = rng.randint(1, max(1, (len(rows) + 1) // 2))
        c.update(producer="cli_load", chunksize=cs, chunks=_rechunk(rows, cs)[:4] if not thorough else _rechunk(rows, cs))
        c.pop("form", None)
        return c
    if producer == "zoomify":
        n = rng.randint(4, 7)
        layout = gen.split_layout(rng, n)
        px = gen.matrix_kinds(rng, n, symm, rng.choice(["dense-random", "full", "random"]))
        px = [[i, j, 1 + (v % 50)] for i, j, v in px] or [[0, 0, 2], [0, n - 1, 3]]
        return {"producer": "zoomify", "dest": "newfile", "symm": symm, "n": n, "layout": layout, "inputs": [px],
                "chunksize": rng.choice([1, 2, 3]), "levels": 2, "thorough": thorough}
    if producer == "scool":
        n = rng.randint(2, 4)
        cells = {}
        for name in rng.sample(["cellA", "cellB", "cellC", "b10", "b9"], rng.choice([2, 3])):
            px = gen.matrix_kinds(rng, n, symm, rng.choice(["random", "dense-random", "gaps", "diag"]))
            cells[name] = _split(rng, [[i, j, 1 + (v % 50)] for i, j, v in px], rng.randint(1, 2))
        c = {"producer": "scool", "dest": dest if dest in ("newfile", "root") else "newfile", "symm": symm, "n": n,
             "layout": gen.split_layout(rng, n), "cells": cells, "form": rng.choice(["df", "dict"]), "thorough": thorough}
        c["mode"] = rng.choice(["w", "a"]) if c["dest"] == "newfile" else "a"
        return c
    raise AssertionError(producer)


def _opt_cases(rng, producer, k, thorough):
    """k cases of one producer; each option axis is cycled through independently (every value of every axis occurs
    floor(k/len) times at least; which values meet each other, the destination and the stream depend on the seed)"""
    cols = {a: _axis(rng, v, k) for a, v in (CLI_AXES if producer == "cli_load" else OPT_AXES).items()}
    dests = _axis(rng, OPT_DESTS, k)
    for i in range(k):
        dest = dests[i]
        symm = rng.random() < 0.7
        c = _base_case(rng, producer, dest, symm, thorough)
        dest = c["dest"]
        o = {}
        for a in ("metadata", "assembly", "h5opts"):
            if cols[a][i] is not None:
                o[a] = cols[a][i]
        if o.get("metadata") == "bad":
            o["metadata"] = rng.choice(BAD_METADATA)
        for a in ("columns", "flags"):
            if cols[a][i] is not None:
                o.update(cols[a][i])
        if dest != "newfile" and not c.get("src_in_dest") and i % 5 == 4:
            c["mode"] = "w"          # an existing multi-collection file, truncated by design
        c.update(opts=o, slice=not thorough or i % 3 != 0, salt=rng.randrange(1000))
        yield c


CORPUS = [
    # the empty stream, an empty chunk in the middle, a one-record stream
    {"producer": "ordered", "dest": "newgroup", "symm": True, "n": 3, "layout": [3], "chunks": []},
    {"producer": "ordered", "dest": "newfile", "mode": "w", "symm": True, "n": 3, "layout": [3], "chunks": [[[0, 0, 1]], [], [[1, 2, 2], [2, 2, 3]]]},
    {"producer": "ordered", "dest": "root", "symm": False, "n": 2, "layout": [1, 1], "chunks": [[[1, 0, 4]]]},
    {"producer": "unordered", "dest": "newgroup", "symm": True, "n": 3, "layout": [3], "chunks": [[[1, 2, 2], [2, 2, 3]], [[0, 0, 1], [0, 1, 5]]]},
    {"producer": "unordered", "dest": "newfile", "mode": "a", "symm": True, "n": 2, "layout": [2], "chunks": [[], [[0, 1, 1]]]},
    # a merge of ONE input (seeded change C13-9: a copy shortcut would bypass the validator)
    {"producer": "merge", "dest": "newfile", "mode": "w", "symm": True, "n": 3, "layout": [3], "inputs": [[[0, 1, 2], [1, 2, 3]]]},
    {"producer": "merge", "dest": "newgroup", "symm": False, "n": 3, "layout": [2, 1], "inputs": [[[0, 1, 2], [2, 0, 3]]]},
]


def cases(tier, rng):
    thorough = tier == "thorough"
    yield "constants", {}
    for c in CORPUS:
        c = dict(c, thorough=thorough)
        yield "faults", c
        yield "partial_state", c
    mmax = 4 if thorough else 3
    reps = {"ordered": 6 if thorough else 2, "unordered": 3 if thorough else 1, "merge": 3 if thorough else 1, "coarsen": 3 if thorough else 1}
    for dest in DESTS:
        for symm in (True, False):
            for producer in ("ordered", "unordered"):
                for r in range(reps[producer]):
                    # make sure the largest stream length is present for every destination
                    m = mmax if r == 0 else None
                    yield "faults", _stream_case(rng, producer, dest, symm, mmax, thorough, m=m)
            for producer in ("merge", "coarsen"):
                for _ in range(reps[producer]):
                    yield "faults", _producer_case(rng, producer, dest, symm, thorough)
    # every keyword option of the producing calls, crossed with a thin slice of each case's fault space
    kopt = {"ordered": 18 if thorough else 9, "unordered": 12 if thorough else 6, "merge": 12 if thorough else 6,
            "coarsen": 12 if thorough else 6, "cli_load": 10 if thorough else 5, "zoomify": 12 if thorough else 4,
            "scool": 12 if thorough else 4}
    for producer in ("ordered", "unordered", "merge", "coarsen", "cli_load", "zoomify", "scool"):
        for i, c in enumerate(_opt_cases(rng, producer, kopt[producer], thorough)):
            yield "faults", c
            if i % 3 == 1 and producer in ("ordered", "unordered", "merge", "coarsen", "cli_load"):
                yield "partial_state", c
    # unit: state of the half-written destination and exception classes vs `runUntil k`
    for dest in DESTS:
        for producer in ("ordered", "unordered", "merge", "coarsen"):
            symm = rng.random() < 0.6
            if producer in ("ordered", "unordered"):
                yield "partial_state", _stream_case(rng, producer, dest, symm, mmax if producer == "ordered" else 2, thorough)
            else:
                yield "partial_state", _producer_case(rng, producer, dest, symm, thorough)
    # unit: the validator, exhaustively
    for n in ((1, 2, 3) if thorough else (1, 2)):
        ids = list(range(-1, n + 1))
        keys = [(a, b) for a in ids for b in ids]
        allc = [[]]
        for L in (1, 2, 3):
            for combo in itertools.product(keys, repeat=L):
                allc.append([[a, b, 10 + t] for t, (a, b) in enumerate(combo)])
        B = 150
        for i in range(0, len(allc), B):
            yield "validator", {"n": n, "chunks": allc[i:i + B]}
    for _ in range(40 if thorough else 8):
        n = rng.randint(1, 6)
        chunks = []
        for _ in range(40):
            L = rng.randint(0, 8)
            chunks.append([[rng.randint(-1, n), rng.randint(-1, n), rng.randint(1, 9)] for _ in range(L)])
        yield "validator", {"n": n, "chunks": chunks}


def shrink(name, case):
    if name in ("faults", "partial_state") and not case.get("only"):
        fs = _fault_list(case)
        # a real fault first: the no-fault run is only the sanity member of the enumeration
        for f in sorted(fs, key=lambda f: f["kind"] == "none"):
            yield dict(case, only=[f])
    if name in ("faults", "partial_state") and case.get("only") and _o(case):
        # then the options, one at a time: what remains is what the failure needs
        for k in sorted(_o(case)):
            yield dict(case, opts={q: v for q, v in _o(case).items() if q != k})
    if name == "validator":
        for ch in case["chunks"]:
            if len(case["chunks"]) > 1:
                yield dict(case, chunks=[ch])


def escalate(name, case, rng):
    """a unit correspondence stopped checking: run the end-to-end fault enumeration"""
    worker_init()
    tries = []
    if name == "partial_state":
        tries.append(dict(case))
    if name == "validator":
        for ch in case["chunks"][:3]:
            n = case["n"]
            for symm in (True, False):
                tries.append({"producer": "ordered", "dest": "newgroup", "symm": symm, "n": n, "layout": [n], "chunks": [ch],
                              "only": [{"kind": "none"}]})
    for dest in ("newgroup", "root", "newfile"):
        for producer in ("ordered", "unordered"):
            tries.append(_stream_case(rng, producer, dest, rng.random() < 0.6, 3, False))
    for c in tries:
        r = run_check(_faults, c)
        if r:
            return {"check": "faults", "case": c, "result": r}
    return None
