"""C01 — create-then-read round trip returns exactly the matrix that was stored."""
from __future__ import annotations

import json
import os

import numpy as np
import pandas as pd

from harness import gen, monitor
from harness.common import ImplRaised, drv, impl, run_check

PID = "C01"
THEOREMS = ["pixels_roundtrip", "chunking_irrelevant", "created_offsOK", "matrix_roundtrip_square", "matrix_roundtrip_symm",
            "arrayLoader_spec", "sortByKey_strict", "createFromFrame_px", "clipInt_eq_iff", "checkedWrite_exact",
            "checkedWrite_refuses_iff", "unordered_eq_frame", "unordered_roundtrip", "specWindow_local", "specDense_local"]
LEVELS = {"big_roundtrip": "top", "call_sequence": "top", "roundtrip": "top", "metadata": "top", "array_loader": "unit", "value_dtypes": "top"}
DESCRIBE = {
    "roundtrip": "create_cooler(bins, pixels in some input form) then Cooler.pixels()[:] / matrix(balance=False)[:] (dense, sparse) / "
                 "info vs Lean `createStore` + `specWindow`/`specDense` over the full window (theorems pixels_roundtrip, "
                 "matrix_roundtrip_symm/_square, createFromFrame_px, arrayLoader_spec); form `unordered` = an iterable of chunks given "
                 "without ordered=True (the default: external sort, one or two merge passes by max_merge, any mergebuf) vs Lean "
                 "`createFromUnordered` = the key-sorted records (theorems unordered_eq_frame, unordered_roundtrip)",
    "metadata": "user metadata document and assembly name given at creation vs Cooler.info (identity)",
    "array_loader": "cooler.create.ArrayLoader(bins, A, chunksize) chunk stream vs Lean `arrayLoader` (= `triuNonzero`)",
    "big_roundtrip": "one creation with 1 051 975 pixels (n = 1450, three chunks): pixel table exact, matrix windows around record 10^6, "
                     "on the last rows and elsewhere vs the symmetric completion (numpy transcription of specDense at this size); kind "
                     "`rows`: > 10^6 pixels laid out so that a row starts at record k*10^6 + shift (shift 0 = exactly on the literal "
                     "block of the index builder), one frame or three ordered chunks, both storage modes: pixel table exact, "
                     "pixels()[lo:hi] around the boundary exact, matrix windows (dense and sparse) around the boundary rows vs Lean "
                     "`specDense`/`specWindow` on the records touching the window (theorems specWindow_local, specDense_local)",
    "call_sequence": "2-4 creations in one process over one bin table, each with its own dtype requests (int32 / float32 / none) for "
                     "the columns count and score: every file reads back as given to ITS call, values and dtypes (the model is a "
                     "function of the call's arguments: theorem pixels_roundtrip has no hidden state)",
    "value_dtypes": "an integer value column GIVEN in one integer dtype (int8..uint64, extremes included) and STORED in another: the "
                    "creation either completes and every value reads back exactly (pixels()[:], raw dataset), or it is refused "
                    "with an exception, and it is refused only when some value does not fit (Lean `checkedWrite`: theorems "
                    "checkedWrite_exact, checkedWrite_refuses_iff); never a silently different value",
}
RULE = ("bin tables: 1-3 chromosomes, fixed width with short last bin, variable width, single-bin chromosomes (n<=6 quick / <=9 "
        "thorough); matrices: empty, diagonal, dense, random, asymmetric (square mode); input forms: DataFrame, dict, shuffled "
        "DataFrame, iterator over EVERY composition of nnz into chunks with empty chunks inserted (nnz<=5 exhaustive, sampled "
        "beyond), iterator WITHOUT ordered=True (default ordered=False; `ordered` omitted or False): every chunk count 1..13 quick / "
        "1..26 thorough x max_merge in {1, 2, count-1, count} x mergebuf in {default, 1, 2, 3, nnz}, random chunkings with empty "
        "chunks, shuffled chunk order, every dtype/extra/h5opts choice, and one stream (4 thorough) of 201..260 chunks with all "
        "options at their defaults; ArrayLoader with every chunk size 1..n+1; > 10^6-pixel creations: full upper triangle of "
        "n = 1450, and rows of 500/1000/2000 records with a row starting exactly on record 10^6 (thorough: +-1, second block, a "
        "row that is a whole block, one record per row); count dtype int32/int64/float64; 0-2 extra value columns; h5opts in "
        "{default, none, lzf, gzip9-noshuffle, chunks}; metadata documents from a JSON generator; non-trivial = nnz>=2")
EXHAUSTIVE = {"quick": False, "thorough": False}
TRUSTED = ["HDF5 filters (compression, shuffle, chunking) and dtype conversion on write are value-transparent primitives",
           "json.dumps/loads round trip for JSON-compatible metadata is a primitive", "pandas sort_values on distinct keys"]
ASSUMPTIONS = ["float counts are multiples of 1/4 (exactly representable); integer counts fit the column dtype"]
CHUNK = 2

H5OPTS = {
    "default": None,
    "none": dict(compression=None, shuffle=False),
    "lzf": dict(compression="lzf"),
    "gzip9": dict(compression="gzip", compression_opts=9, shuffle=False),
    "chunks": dict(chunks=True, compression="gzip", compression_opts=1, fletcher32=True),
}


def worker_init():
    global cooler
    import cooler  # noqa


def _frame(px, dtype, extra_cols, scale):
    d = {"bin1_id": np.array([p[0] for p in px], dtype=np.int64),
         "bin2_id": np.array([p[1] for p in px], dtype=np.int64),
         "count": (np.array([p[2] for p in px], dtype=np.float64) / scale).astype(dtype)}
    for k, name in enumerate(extra_cols):
        d[name] = np.array([_extra(p, k) for p in px], dtype=np.float64 if k == 0 else np.int64)
    return d


def _extra(p, k):
    return (p[0] * 31 + p[1] * 7 + k) * (0.5 if k == 0 else 1)


def _roundtrip(case):
    bins, px, symm = case["bins"], case["pixels"], case["symm"]
    form, dtype, extra_cols = case["form"], case["dtype"], case["extra"]
    scale = 4 if dtype == "float64" else 1
    n = len(bins)
    nchroms = max(b[0] for b in bins) + 1
    path = os.path.join(gen.tmpdir(), f"c01-{os.getpid()}.cool")
    bdf = gen.bins_df(bins)
    cols = ["count"] + extra_cols
    dtypes = {"count": dtype}
    for k, name in enumerate(extra_cols):
        dtypes[name] = "float64" if k == 0 else "int64"
    kw = dict(symmetric_upper=symm, columns=cols, dtypes=dtypes, h5opts=H5OPTS[case["h5opts"]])
    # what the model says must be stored
    if form == "array":
        A = [[0] * n for _ in range(n)]
        for i, j, v in px:
            A[i][j] = v
            if symm:
                A[j][i] = v
        al = drv().ask("C01.array_loader", A=A, c=case["chunksize"])
        assert [p for ch in al["chunks"] for p in ch] == al["spec"], "theorem arrayLoader_spec contradicted"
        chunks_model = al["chunks"]
    elif form in ("frame", "dict", "shuffled"):
        inp = list(px)
        if form == "shuffled":
            import random
            random.Random(case["seed"]).shuffle(inp)
        chunks_model = [drv().ask("C01.frame", pixels=inp)["sorted"]]
    elif form == "unordered":
        # an iterable of chunks given WITHOUT ordered=True (the default): external sort, one merge pass or two
        cuts = case["cuts"]
        given = [px[a:b] for a, b in zip([0] + cuts, cuts + [len(px)])]
        if case.get("perm") is not None:
            import random
            random.Random(case["perm"]).shuffle(given)          # chunk ORDER is free on this path
        mm = case.get("max_merge")
        two = len(given) > (200 if mm is None else mm) > 0
        u = drv().ask("C01.unordered", chunks=given, edges=[0, len(given) // 2, len(given)] if two else None)
        assert u["edges_valid"] and u["stored"] == u["sorted"], "theorem unordered_eq_frame contradicted"
        assert case.get("perm") is not None or u["stored"] == [list(p) for p in px], "theorem unordered_roundtrip contradicted"
        chunks_given = given
        chunks_model = [u["stored"]]
    else:
        cuts = case["cuts"]
        chunks_model = [px[a:b] for a, b in zip([0] + cuts, cuts + [len(px)])]
    st = drv().ask("C02.create", nchroms=nchroms, bin_chrom=[b[0] for b in bins], symm=symm, chunks=chunks_model)
    assert st["violations"] == [], f"theorem create_valid contradicted: {st['violations']}"
    try:
        if form == "array":
            from cooler.create import ArrayLoader
            arr = np.array(A, dtype=np.int64)
            loader = ArrayLoader(bdf, arr, case["chunksize"])
            if case.get("seed", 0) % 2:
                # the loader is an iterable, not an iterator: a second creation from the SAME object sees the same chunks
                impl(cooler.create_cooler, path, bdf, loader, ordered=True, symmetric_upper=symm, dtypes={"count": dtype})
                os.unlink(path)
            impl(cooler.create_cooler, path, bdf, loader, ordered=True,
                 symmetric_upper=symm, dtypes={"count": dtype}, h5opts=H5OPTS[case["h5opts"]])
            extra_cols = []
        elif form == "frame":
            impl(cooler.create_cooler, path, bdf, pd.DataFrame(_frame(px, dtype, extra_cols, scale)), **kw)
        elif form == "shuffled":
            impl(cooler.create_cooler, path, bdf, pd.DataFrame(_frame(inp, dtype, extra_cols, scale)), **kw)
        elif form == "dict":
            impl(cooler.create_cooler, path, bdf, _frame(px, dtype, extra_cols, scale), **kw)
        elif form == "unordered":
            it = (pd.DataFrame(_frame(c, dtype, extra_cols, scale)) if k % 2 == 0 else _frame(c, dtype, extra_cols, scale)
                  for k, c in enumerate(chunks_given))
            ukw = {}
            if case.get("ordered_kw"):
                ukw["ordered"] = False                 # explicit; otherwise omitted (the same default)
            for opt in ("max_merge", "mergebuf"):
                if case.get(opt) is not None:
                    ukw[opt] = case[opt]
            impl(cooler.create_cooler, path, bdf, it, **ukw, **kw)
            left = [f for f in os.listdir(os.path.dirname(path)) if f.endswith(".multi.cool")]
            for f in left:
                os.unlink(os.path.join(os.path.dirname(path), f))
        else:
            it = (pd.DataFrame(_frame(c, dtype, extra_cols, scale)) if k % 2 == 0 else _frame(c, dtype, extra_cols, scale)
                  for k, c in enumerate(chunks_model))
            impl(cooler.create_cooler, path, bdf, it, ordered=True, **kw)
        clr = cooler.Cooler(path)
        tab = impl(lambda: clr.pixels()[:])
        got = [[int(a), int(b), int(round(float(c) * scale))] for a, b, c in zip(tab["bin1_id"], tab["bin2_id"], tab["count"])]
        if got != st["pixels"] or any(float(c) * scale != round(float(c) * scale) for c in tab["count"]):
            return {"mismatch": True, "what": "pixel table", "impl": got, "model": st["pixels"]}
        for k, name in enumerate(extra_cols):
            want = [_extra(p, k) for p in st["pixels"]]
            if [float(x) for x in tab[name]] != [float(x) for x in want]:
                return {"mismatch": True, "what": f"extra column {name}", "impl": [float(x) for x in tab[name]], "model": want}
        # sub-slices
        nnz = len(st["pixels"])
        for lo, hi in [(0, nnz), (1, nnz), (0, max(nnz - 1, 0)), (nnz // 2, nnz // 2 + 2)]:
            sub = impl(lambda: clr.pixels()[lo:hi])
            g = [[int(a), int(b), int(round(float(c) * scale))] for a, b, c in zip(sub["bin1_id"], sub["bin2_id"], sub["count"])]
            if g != st["pixels"][lo:hi] or [int(x) for x in sub.index] != list(range(lo, min(hi, nnz)))[:len(g)]:
                return {"mismatch": True, "what": f"pixels()[{lo}:{hi}]", "impl": g, "model": st["pixels"][lo:hi]}
        # full-matrix view against L0
        w = drv().ask("C03.windows", pixels=st["pixels"], n=n, symm=symm, boxes=[[0, n, 0, n]])[0]
        assert w["l1_ok"]
        dense = impl(lambda: clr.matrix(balance=False)[:])
        dm = (np.asarray(dense, dtype=np.float64) * scale)
        if dm.shape != (n, n) or dm.tolist() != [[float(x) for x in r] for r in w["dense"]]:
            return {"mismatch": True, "what": "matrix()[:] dense", "impl": dm.tolist(), "model": w["dense"]}
        sp = impl(lambda: clr.matrix(balance=False, sparse=True)[:])
        ent = sorted([int(r), int(c), int(round(float(v) * scale))] for r, c, v in zip(sp.row, sp.col, sp.data))
        if ent != w["spec"]:
            return {"mismatch": True, "what": "matrix()[:] sparse entries", "impl": ent, "model": w["spec"]}
        info = clr.info
        if int(info["nnz"]) != st["nnz"] or float(info["sum"]) * scale != float(st["sum"]):
            return {"mismatch": True, "what": "info nnz/sum", "impl": [info["nnz"], info["sum"]], "model": [st["nnz"], st["sum"]]}
        v = monitor.violations(path) if dtype != "float64" else []
        if v:
            return {"mismatch": True, "what": "schema (C02 monitor)", "violated": v}
        return None
    finally:
        if os.path.exists(path):
            os.unlink(path)


def _metadata(case):
    path = os.path.join(gen.tmpdir(), f"c01m-{os.getpid()}.cool")
    bins = gen.layout_bins([3])
    try:
        impl(gen.write_cooler, path, bins, [[0, 1, 2]], metadata=case["metadata"], assembly=case["assembly"])
        info = impl(lambda: cooler.Cooler(path).info)
        got = info.get("metadata")
        if got != case["metadata"] or json.dumps(got, sort_keys=True) != json.dumps(case["metadata"], sort_keys=True):
            return {"mismatch": True, "field": "metadata", "impl": got, "given": case["metadata"]}
        ga = info.get("genome-assembly")
        if ga != case["assembly"] or type(ga) is not str:
            return {"mismatch": True, "field": "assembly", "impl": ga, "impl_type": type(ga).__name__, "given": case["assembly"]}
        return None
    finally:
        if os.path.exists(path):
            os.unlink(path)


INT_DTYPES = {"int8": (True, 8), "uint8": (False, 8), "int16": (True, 16), "uint16": (False, 16), "int32": (True, 32),
              "uint32": (False, 32), "int64": (True, 64), "uint64": (False, 64)}


def _value_dtypes(case):
    given, stored, vals, col = case["given"], case["stored"], case["values"], case["column"]
    signed, bits = INT_DTYPES[stored]
    m = drv().ask("C01.checked_write", signed=signed, bits=bits, values=vals)
    n = len(vals)
    bins = gen.layout_bins([n])
    path = os.path.join(gen.tmpdir(), f"c01v-{os.getpid()}.cool")
    d = {"bin1_id": np.arange(n, dtype=np.int64), "bin2_id": np.arange(n, dtype=np.int64)}
    if col != "count":
        d["count"] = np.ones(n, dtype=np.int32)
    d[col] = np.array(vals, dtype=given)
    assert [int(x) for x in d[col]] == vals, "generator: a value does not fit the GIVEN dtype"
    frame = pd.DataFrame(d) if case["form"] == "frame" else d
    try:
        raised = None
        try:
            if case["form"] == "chunks":
                k = max(1, n // 2)
                it = ({c: v[a:a + k] for c, v in d.items()} for a in range(0, n, k))
                cooler.create_cooler(path, gen.bins_df(bins), it, ordered=True, columns=list(d)[2:], dtypes={col: stored})
            else:
                cooler.create_cooler(path, gen.bins_df(bins), frame, columns=list(d)[2:], dtypes={col: stored})
        except Exception as e:  # noqa: a refusal is one of the two allowed outcomes
            raised = type(e).__name__
        base = {"mismatch": True, "given_dtype": given, "stored_dtype": stored, "values": vals, "column": col}
        if m["stored"] is None:
            if raised is None:
                import h5py
                with h5py.File(path, "r") as f:
                    raw = [int(x) for x in f["pixels"][col][:]]
                return dict(base, note="a value that does not fit the stored dtype was accepted", stored=raw,
                            model_unchecked_write=m["unchecked"])
            return {"stats": {"refused": 1}}
        if raised is not None:
            return dict(base, note="every value fits the stored dtype, yet the creation was refused", raised=raised)
        import h5py
        with h5py.File(path, "r") as f:
            raw = [int(x) for x in f["pixels"][col][:]]
            dt = str(f["pixels"][col].dtype)
        tab = impl(lambda: cooler.Cooler(path).pixels()[:])
        got = [int(x) for x in tab[col]]
        if raw != vals or got != vals or dt != stored:
            return dict(base, note="stored values differ from the given ones", raw=raw, pixels_table=got, file_dtype=dt)
        return {"stats": {"stored_exactly": 1}}
    finally:
        if os.path.exists(path):
            os.unlink(path)


def _call_sequence(case):
    """several creations in ONE process, each with its own dtype requests for the same column names: every file reads back
    as given to ITS call (no state carried from one call to the next); an extra value column without a dtype request is
    float64 (documented default), `count` without one is int32"""
    n = case["n"]
    bins = gen.layout_bins([n])
    bdf = gen.bins_df(bins)
    d = gen.tmpdir()
    paths = []
    want = []
    try:
        for k, call in enumerate(case["calls"]):
            path = os.path.join(d, f"c01q-{os.getpid()}-{k}.cool")
            paths.append(path)
            px = call["pixels"]
            frac = call["score_dtype"] is None or str(call["score_dtype"]).startswith("float")
            score = [(v * 2 + 1) / 4.0 if frac else float(v + 3) for _, _, v in px]
            df = gen.pixels_df(px)
            df["score"] = np.array(score, dtype=np.float64)
            dtypes = {}
            if call["score_dtype"]:
                dtypes["score"] = call["score_dtype"]
            if call["count_dtype"]:
                dtypes["count"] = call["count_dtype"]
            kw = {"dtypes": dtypes} if (dtypes or call.get("empty_dict")) else {}
            impl(cooler.create_cooler, path, bdf, df, columns=["count", "score"], **kw)
            want.append((px, score, call["score_dtype"] or "float64", call["count_dtype"] or "int32"))
        for k, (path, (px, score, sdt, cdt)) in enumerate(zip(paths, want)):
            t = impl(lambda: cooler.Cooler(path).pixels()[:])
            got = [[int(a), int(b), int(c)] for a, b, c in zip(t["bin1_id"], t["bin2_id"], t["count"])]
            gs = [float(x) for x in t["score"]]
            if got != [list(p) for p in px] or gs != score or str(t["score"].dtype) != sdt or str(t["count"].dtype) != cdt:
                return {"mismatch": True, "call_index": k, "calls": case["calls"], "what": "a creation reads back differently from what ITS call was given",
                        "impl": {"pixels": got, "score": gs, "score_dtype": str(t["score"].dtype), "count_dtype": str(t["count"].dtype)},
                        "given": {"pixels": px, "score": score, "score_dtype": sdt, "count_dtype": cdt}}
        return {"stats": {"calls": len(paths)}}
    finally:
        for p_ in paths:
            if os.path.exists(p_):
                os.unlink(p_)


def _big_roundtrip(case):
    """> 10^6 pixels (the pixel index is built in literal blocks of 10^6 records): the pixel table reads back exactly and the
    matrix query on the rows around record 1 000 000, on the last rows and on a spread of windows equals the symmetric
    completion.  Oracle here: a numpy transcription of `specDense` (the Lean definition itself is evaluated on the same
    family for n <= 9 in `roundtrip`; a million records do not go through the driver)."""
    if case.get("kind") == "rows":
        return _big_rows(case)
    n = case["n"]
    path = os.path.join(gen.tmpdir(), f"c01big-{os.getpid()}.cool")
    try:
        iu = np.triu_indices(n)
        b1, b2 = iu[0].astype(np.int64), iu[1].astype(np.int64)
        cnt = ((b1 * 7 + b2 * 13) % 5 + 1).astype(np.int32)
        cuts = [0, len(b1) // 3, 2 * len(b1) // 3 + 1, len(b1)]
        chunks = ({"bin1_id": b1[a:b], "bin2_id": b2[a:b], "count": cnt[a:b]} for a, b in zip(cuts, cuts[1:]))
        impl(cooler.create_cooler, path, gen.bins_df(gen.layout_bins([n])), chunks, ordered=True)
        clr = cooler.Cooler(path)
        t = impl(lambda: clr.pixels()[:])
        if len(t) != len(b1) or not (np.array_equal(t["bin1_id"].values, b1) and np.array_equal(t["bin2_id"].values, b2)
                                     and np.array_equal(t["count"].values, cnt)):
            return {"mismatch": True, "what": "pixel table of a > 10^6-pixel cooler differs from the input", "nnz": int(len(t))}
        dense = np.zeros((n, n), dtype=np.int64)
        dense[b1, b2] = cnt
        dense[b2, b1] = cnt
        row_at = int(b1[1_000_000])
        wins = [(max(0, row_at - 2), min(n, row_at + 3), 0, n), (n - 3, n, 0, n), (0, 3, n - 5, n), (row_at, n, row_at - 7, row_at + 2),
                (n // 2, n // 2 + 2, n // 3, n // 3 + 50)]
        for i0, i1, j0, j1 in wins:
            got = np.asarray(impl(lambda: clr.matrix(balance=False)[i0:i1, j0:j1]))
            if got.shape != (i1 - i0, j1 - j0) or not np.array_equal(got.astype(np.int64), dense[i0:i1, j0:j1]):
                bad = np.argwhere(got.astype(np.int64) != dense[i0:i1, j0:j1])[:5].tolist() if got.shape == (i1 - i0, j1 - j0) else None
                return {"mismatch": True, "what": "matrix window of a > 10^6-pixel cooler differs from the symmetric completion of the input",
                        "window": [i0, i1, j0, j1], "first_differing_cells": bad, "record_1e6_is_in_row": row_at}
        return {"stats": {"windows": len(wins)}}
    finally:
        if os.path.exists(path):
            os.unlink(path)


BLOCK = 1_000_000       # literal record block of cooler's pixel-index builder (create/_create.py index_pixels)


def _rows_layout(case):
    """`heavy` rows of `rowlen` records each (row r holds columns r .. r+len-1; row 0 holds `shift` more or fewer), so that
    row `heavy` starts at record k*10^6 + shift; then five short rows and a last diagonal record."""
    L, s, k = case["rowlen"], case.get("shift", 0), case.get("k", 1)
    assert (k * BLOCK) % L == 0 and L + s >= 1
    heavy = k * BLOCK // L
    lens = np.full(heavy, L, dtype=np.int64)
    lens[0] += s
    n = heavy + L + max(s, 0) + 8
    tail = [(heavy, [0, 1, 3]), (heavy + 1, [0]), (heavy + 2, [1, 2]), (heavy + 4, [0, 2, 3]), (n - 1, [0])]
    starts = np.concatenate([[0], np.cumsum(lens)])
    b1 = np.repeat(np.arange(heavy, dtype=np.int64), lens)
    b2 = b1 + (np.arange(int(starts[-1]), dtype=np.int64) - starts[:-1][b1])
    b1 = np.concatenate([b1] + [np.full(len(cs), r, dtype=np.int64) for r, cs in tail])
    b2 = np.concatenate([b2] + [np.array([r + c for c in cs], dtype=np.int64) for r, cs in tail])
    cnt = ((b1 * 7 + b2 * 13) % 5 + 1).astype(np.int32)
    return n, heavy, b1, b2, cnt


def _big_rows(case):
    """> 10^6 records with a row boundary placed at a chosen distance from the k-th literal 10^6-record block of the index
    builder.  Pixel table: exact; pixels()[lo:hi] around the boundary: exact; matrix windows around the boundary rows (dense
    and sparse, also the transposed window): Lean `specDense` / `specWindow` evaluated on the input records that touch the
    window (theorems specWindow_local, specDense_local: that is the window of the whole input)."""
    symm = case["symm"]
    n, heavy, b1, b2, cnt = _rows_layout(case)
    nnz = len(b1)
    at = case.get("k", 1) * BLOCK + case.get("shift", 0)
    assert nnz > BLOCK and int(b1[at]) == heavy and int(b1[at - 1]) == heavy - 1
    # two chromosomes of width-10 bins, each with a short last bin (built in numpy: the table may have 10^6 rows)
    sizes = [n // 3, n - n // 3]
    start = np.concatenate([np.arange(k, dtype=np.int64) * 10 for k in sizes])
    end = start + 10
    end[np.cumsum(sizes) - 1] -= 3
    bdf = pd.DataFrame({"chrom": np.repeat([gen.chromname(c) for c in range(2)], sizes), "start": start, "end": end})
    path = os.path.join(gen.tmpdir(), f"c01rows-{os.getpid()}.cool")
    try:
        if case["form"] == "chunks":
            cuts = [0, nnz // 3, at - 1, nnz] if case.get("cut_before") else [0, nnz // 3, 2 * nnz // 3 + 1, nnz]
            data = ({"bin1_id": b1[a:b], "bin2_id": b2[a:b], "count": cnt[a:b]} for a, b in zip(cuts, cuts[1:]))
            impl(cooler.create_cooler, path, bdf, data, ordered=True, symmetric_upper=symm)
        else:
            impl(cooler.create_cooler, path, bdf, pd.DataFrame({"bin1_id": b1, "bin2_id": b2, "count": cnt}), symmetric_upper=symm)
        clr = cooler.Cooler(path)
        t = impl(lambda: clr.pixels()[:])
        if len(t) != nnz or not (np.array_equal(t["bin1_id"].values, b1) and np.array_equal(t["bin2_id"].values, b2)
                                 and np.array_equal(t["count"].values, cnt)):
            return {"mismatch": True, "what": "pixel table of a > 10^6-pixel cooler differs from the input", "nnz": int(len(t))}
        for lo, hi in [(at - 3, at + 3), (at, at + 2), (at - 1, at), (nnz - 4, nnz), (BLOCK - 2, BLOCK + 2)]:
            sub = impl(lambda: clr.pixels()[lo:hi])
            g = [[int(a), int(b), int(c)] for a, b, c in zip(sub["bin1_id"], sub["bin2_id"], sub["count"])]
            want = [[int(a), int(b), int(c)] for a, b, c in zip(b1[lo:hi], b2[lo:hi], cnt[lo:hi])]
            if g != want:
                return {"mismatch": True, "what": f"pixels()[{lo}:{hi}]", "impl": g, "model": want}
        h = heavy
        boxes = [[h - 2, h + 3, h - 2, h + 8], [h - 2, h + 8, h - 2, h + 3], [h - 1, h + 1, h - 1, h + 1], [h, h + 5, h, h + 9],
                 [0, 3, 0, 4], [n - 4, n, n - 6, n], [h - 3, h, h + 2, h + 6]]
        boxes = [[max(0, a), min(n, b), max(0, c), min(n, d)] for a, b, c, d in boxes]
        for box in boxes:
            i0, i1, j0, j1 = box
            direct = (b1 >= i0) & (b1 < i1) & (b2 >= j0) & (b2 < j1)
            mirror = (b2 >= i0) & (b2 < i1) & (b1 >= j0) & (b1 < j1)
            sel = np.nonzero(direct | mirror)[0]
            # ... plus bystanders that do not touch the window (they must not matter)
            sel = np.union1d(sel, np.array([0, at - 1, at, nnz - 1]))
            recs = [[int(b1[q]), int(b2[q]), int(cnt[q])] for q in sel]
            w = drv().ask("C01.window", pixels=recs, symm=symm, boxes=[box])[0]
            got = np.asarray(impl(lambda: clr.matrix(balance=False)[i0:i1, j0:j1]))
            if got.shape != (i1 - i0, j1 - j0) or got.astype(np.int64).tolist() != w["dense"]:
                return {"mismatch": True, "what": "matrix window (dense) of a > 10^6-pixel cooler differs from the full-matrix view of the input",
                        "window": box, "impl": got.astype(np.int64).tolist(), "model": w["dense"], "row_starting_at_record": [h, at]}
            sp = impl(lambda: clr.matrix(balance=False, sparse=True)[i0:i1, j0:j1])
            ent = sorted([int(r) + i0, int(c) + j0, int(v)] for r, c, v in zip(sp.row, sp.col, sp.data))
            if ent != sorted(w["spec"]):
                return {"mismatch": True, "what": "matrix window (sparse) of a > 10^6-pixel cooler differs from the full-matrix view of the input",
                        "window": box, "impl": ent, "model": sorted(w["spec"]), "row_starting_at_record": [h, at]}
        return {"stats": {"windows": len(boxes)}}
    finally:
        if os.path.exists(path):
            os.unlink(path)


def _array_loader(case):
    from cooler.create import ArrayLoader
    A = case["A"]
    n = len(A)
    bdf = gen.bins_df(gen.layout_bins([n]))
    arr = np.array(A, dtype=np.int64)
    for c in range(1, n + 2):
        chunks = impl(lambda: list(ArrayLoader(bdf, arr, c)))
        got = [[[int(a), int(b), int(v)] for a, b, v in zip(ch["bin1_id"], ch["bin2_id"], ch["count"])] for ch in chunks]
        m = drv().ask("C01.array_loader", A=A, c=c)
        assert [p for ch in m["chunks"] for p in ch] == m["spec"], "theorem arrayLoader_spec contradicted"
        if [p for ch in got for p in ch] != m["spec"]:
            return {"mismatch": True, "chunksize": c, "impl": got, "model": m["spec"], "level": "concatenation differs from the upper triangle"}
        if got != m["chunks"]:
            return {"mismatch": True, "chunksize": c, "impl": got, "model": m["chunks"], "level": "chunk boundaries"}
    return None


CHECKS = {"big_roundtrip": _big_roundtrip, "call_sequence": _call_sequence, "value_dtypes": _value_dtypes, "roundtrip": _roundtrip, "metadata": _metadata, "array_loader": _array_loader}


def nontrivial(name, case):
    if name == "roundtrip":
        return len(case["pixels"]) >= 2
    if name == "metadata":
        return bool(case["metadata"])
    if name == "value_dtypes":
        return len(set(case["values"])) >= 2
    if name == "call_sequence":
        return len(case["calls"]) >= 2
    if name == "big_roundtrip":
        return True
    return any(any(r) for r in case["A"])


def distribution(name, case):
    if name == "value_dtypes":
        sg, bt = INT_DTYPES[case["stored"]]
        lo, hi = (-(2 ** (bt - 1)), 2 ** (bt - 1) - 1) if sg else (0, 2 ** bt - 1)
        yield f"given={case['given']}"
        yield f"stored={case['stored']}"
        yield "all_fit" if all(lo <= v <= hi for v in case["values"]) else "some_value_out_of_range"
    if name == "roundtrip":
        yield f"form={case['form']}"
        if case["form"] == "unordered":
            nch, mm = len(case["cuts"]) + 1, case.get("max_merge")
            yield "unordered.two_merge_passes" if nch > (200 if mm is None else mm) else "unordered.one_merge_pass"
            yield "unordered.max_merge=default" if mm is None else "unordered.max_merge=given"
        yield f"dtype={case['dtype']}"
        yield f"h5opts={case['h5opts']}"


def _json_eq(a, b):
    """JSON documents equal, numbers by value (1e5 == 100000.0)"""
    if isinstance(a, bool) or isinstance(b, bool) or a is None or b is None:
        return type(a) is type(b) and a == b
    if isinstance(a, (int, float)) and isinstance(b, (int, float)):
        return float(a) == float(b)
    if isinstance(a, list) and isinstance(b, list):
        return len(a) == len(b) and all(_json_eq(x, y) for x, y in zip(a, b))
    if isinstance(a, dict) and isinstance(b, dict):
        return a.keys() == b.keys() and all(_json_eq(a[k], b[k]) for k in a)
    return type(a) is type(b) and a == b


def classify(name, case, res, findings):
    """D16: Cooler.info JSON-decodes every string attribute"""
    if name == "metadata" and res.get("field") == "assembly":
        a = drv().ask("C01.json_literal", s=case["assembly"])
        if a["parses"] and _json_eq(a["value"], res["impl"]):
            for f in findings:
                if f["id"] == "D16":
                    return "D16"
    return None


def _table(rng, n):
    style = rng.choice(["fixed", "fixed", "var", "onebin"])
    if style == "onebin":
        return [[c, 0, rng.randint(1, 30)] for c in range(n)]
    layout = gen.split_layout(rng, n)
    bins = []
    w = rng.choice([1, 2, 5, 10])
    for c, k in enumerate(layout):
        if style == "fixed":
            last = rng.randint(1, w)
            bins += gen.chrom_bins(c, [w] * (k - 1) + [last])
        else:
            bins += gen.chrom_bins(c, [rng.randint(1, 9) for _ in range(k)])
    return bins


def _json_doc(rng, depth=0):
    r = rng.random()
    if depth >= 3 or r < 0.35:
        return rng.choice([0, 1, -5, 2 ** 40, 2 ** 53, 2 ** 53 + 1, -(2 ** 60), 2 ** 63 - 1, 10 ** 30, 0.5, -2.25, 1e300, True, False, None,
                           "", "x", "naïve ünï", "a b", "123", "null", "9007199254740993", "line\nbreak", "tab\t", "quote\"q", "back\\slash"])
    if r < 0.65:
        return [_json_doc(rng, depth + 1) for _ in range(rng.randint(0, 3))]
    return {rng.choice(["a", "b", "key 1", "ü", "nested", "0"]) + str(k): _json_doc(rng, depth + 1) for k in range(rng.randint(0, 3))}


def _heavy_cases(thorough, rng):
    """the few cases that take seconds (yielded first so that they do not form the tail of the run)"""
    yield "big_roundtrip", {"n": 1450}
    # > 10^6 records with a row boundary AT the literal 10^6-record block of the index builder (quick: one; thorough: also one
    # record before / after it, a row that is a whole block, the second block boundary)
    yield "big_roundtrip", {"kind": "rows", "rowlen": rng.choice([500, 1000, 2000]), "shift": 0, "k": 1, "symm": rng.random() < 0.7,
                            "form": rng.choice(["frame", "chunks"]), "cut_before": rng.random() < 0.5}
    if thorough:
        for shift, k, rowlen in [(1, 1, 1000), (-1, 1, 1000), (0, 2, 1000), (0, 1, BLOCK), (rng.randint(2, 900), 1, 2000), (0, 1, 1)]:
            yield "big_roundtrip", {"kind": "rows", "rowlen": rowlen, "shift": shift, "k": k, "symm": rng.random() < 0.7,
                                    "form": rng.choice(["frame", "chunks"]), "cut_before": rng.random() < 0.5}
    # an iterable of chunks with EVERY option left at its default (ordered omitted, max_merge 200, mergebuf 20e6): more chunks
    # than the default max_merge, so the external sort takes two merge passes
    for _ in range(4 if thorough else 1):
        n = rng.randint(22, 26)
        bins = _table(rng, n)
        n = len(bins)
        px = gen.matrix_kinds(rng, n, True, "dense-random")
        nch = rng.randint(201, 260)
        yield "roundtrip", {"bins": bins, "pixels": px, "symm": True, "form": "unordered", "dtype": "int32",
                            "cuts": sorted(rng.randint(0, len(px)) for _ in range(nch - 1)), "extra": rng.choice([[], ["w"]]),
                            "h5opts": "default", "seed": 0, "max_merge": None, "mergebuf": None, "ordered_kw": False}


def cases(tier, rng):
    thorough = tier == "thorough"
    # corpus: D16 witnesses and a plain name (interleaved with the heavy cases: a pool task is CHUNK = 2 consecutive cases)
    heavy = list(_heavy_cases(thorough, rng))
    for k, a in enumerate(["hg19", "123", "null", "true", "1e5", "mm10.v2", "[1]", "unknown", '"q"']):
        if k < len(heavy):
            yield heavy[k]
        yield "metadata", {"metadata": {"a": 1}, "assembly": a}
    yield from heavy[9:]
    # witnesses of seeded change C01-1 (large integers must come back as integers)
    yield "metadata", {"metadata": {"n": 2 ** 53, "deep": [{"m": -(2 ** 63)}], "s": "9007199254740993"}, "assembly": "hg19"}
    nmax = 9 if thorough else 6
    reps = 500 if thorough else 90
    for k in range(reps):
        n = rng.randint(1, nmax)
        symm = rng.random() < 0.65
        bins = _table(rng, n)
        n = len(bins)
        px = gen.matrix_kinds(rng, n, symm)
        form = rng.choice(["frame", "dict", "shuffled", "chunks", "chunks", "array" if symm else "frame"])
        dtype = rng.choice(["int32", "int32", "int64", "float64"])
        c = {"bins": bins, "pixels": px, "symm": symm, "form": form, "dtype": dtype,
             "extra": rng.choice([[], [], ["w"], ["w", "k"]]), "h5opts": rng.choice(list(H5OPTS)), "seed": rng.randrange(10 ** 6)}
        if form == "chunks":
            m = rng.randint(0, 4)
            c["cuts"] = sorted(rng.randint(0, len(px)) for _ in range(m))
        if form == "array":
            c["chunksize"] = rng.randint(1, n + 1)
            c["dtype"] = rng.choice(["int32", "int64"])
            if k % 2:
                # signed values: a block of rows may sum to zero without being empty
                c["pixels"] = [[i, j, rng.choice([-2, -1, 1, 2])] for i, j, _ in px]
        yield "roundtrip", c
    # exhaustive chunkings of a small table
    for symm in (True, False):
        bins = gen.layout_bins([2, 2])
        px = gen.matrix_kinds(rng, 4, symm, "random")[:5]
        nnz = len(px)
        for m in range(0, 4):
            import itertools
            for cuts in itertools.combinations_with_replacement(range(nnz + 1), m):
                yield "roundtrip", {"bins": bins, "pixels": px, "symm": symm, "form": "chunks", "cuts": list(cuts), "dtype": "int32",
                                    "extra": [], "h5opts": "default", "seed": 0}
    for _ in range(120 if thorough else 25):
        doc = _json_doc(rng) if rng.random() < 0.8 else {"k": _json_doc(rng)}
        if doc is None:          # metadata=None is the "no metadata" default, not a document
            doc = {"k": None}
        yield "metadata", {"metadata": doc,
                           "assembly": rng.choice(["hg38", "dm6", "T2T-CHM13v2.0", "GRCh38.p13", "my assembly", "ü"])}
    # iterable of chunks given WITHOUT ordered=True (default ordered=False: external sort).  Every chunk count 1..K against
    # max_merge below / just below / at the count (two merge passes, one pass), merge buffers of a few records
    kmax = 26 if thorough else 13
    for symm in (True, False):
        n = 7 if symm else 5
        bins = _table(rng, n)
        n = len(bins)
        px = gen.matrix_kinds(rng, n, symm, "full" if symm else "dense-random")
        for nch in range(1, kmax + 1):
            if (nch % 2 == 0) != symm and nch > 3 and not thorough:
                continue
            for mm in sorted({1, 2, max(1, nch - 1), nch}):
                cuts = sorted(rng.sample(range(1, len(px)), nch - 1)) if nch - 1 <= len(px) - 1 else \
                    sorted(rng.randint(0, len(px)) for _ in range(nch - 1))
                yield "roundtrip", {"bins": bins, "pixels": px, "symm": symm, "form": "unordered", "cuts": cuts, "dtype": "int32",
                                    "extra": [], "h5opts": "default", "seed": 0, "max_merge": mm,
                                    "mergebuf": rng.choice([None, 1, 2, 3, len(px)]), "ordered_kw": rng.random() < 0.3}
    for k in range(120 if thorough else 30):
        n = rng.randint(2, nmax)
        symm = rng.random() < 0.65
        bins = _table(rng, n)
        n = len(bins)
        px = gen.matrix_kinds(rng, n, symm)
        nch = rng.randint(1, 12)
        c = {"bins": bins, "pixels": px, "symm": symm, "form": "unordered", "dtype": rng.choice(["int32", "int32", "int64", "float64"]),
             "cuts": sorted(rng.randint(0, len(px)) for _ in range(nch - 1)),            # empty chunks included
             "extra": rng.choice([[], [], ["w"], ["w", "k"]]), "h5opts": rng.choice(list(H5OPTS)), "seed": rng.randrange(10 ** 6),
             "max_merge": rng.choice([None, 1, 2, 3, 4, max(1, nch - 1), nch, nch + 1]),
             "mergebuf": rng.choice([None, None, 1, 2, 3, max(1, len(px)), len(px) + 1]), "ordered_kw": rng.random() < 0.3}
        if k % 4 == 3:
            c["perm"] = rng.randrange(10 ** 6)
        yield "roundtrip", c
    # sequences of creations in one process (state must not leak from call to call)
    yield "call_sequence", {"n": 4, "calls": [{"pixels": [[0, 1, 2], [1, 3, 5]], "score_dtype": "int32", "count_dtype": None},
                                              {"pixels": [[0, 0, 1], [2, 3, 4]], "score_dtype": None, "count_dtype": None}]}
    for _ in range(40 if thorough else 10):
        n = rng.randint(2, 5)
        calls = []
        for _k in range(rng.randint(2, 4)):
            calls.append({"pixels": gen.matrix_kinds(rng, n, True, rng.choice(["random", "full", "diag"])) or [[0, 0, 1]],
                          "score_dtype": rng.choice([None, None, "int32", "int64", "float32", "float64"]),
                          "count_dtype": rng.choice([None, None, "int64", "float64"]),
                          "empty_dict": rng.random() < 0.3})
        yield "call_sequence", {"n": n, "calls": calls}
    # integer value columns: every (given dtype, stored dtype) pair, values around both dtypes' bounds
    yield "value_dtypes", {"given": "uint32", "stored": "int32", "values": [5, 3000000000, 7], "column": "count", "form": "frame"}
    yield "value_dtypes", {"given": "int32", "stored": "uint32", "values": [1, -4, 9], "column": "count", "form": "dict"}
    names = list(INT_DTYPES)
    for g in names:
        for st in names:
            for rep in range(3 if thorough else 1):
                (gs, gb), (ss, sb) = INT_DTYPES[g], INT_DTYPES[st]
                glo, ghi = (-(2 ** (gb - 1)), 2 ** (gb - 1) - 1) if gs else (0, 2 ** gb - 1)
                slo, shi = (-(2 ** (sb - 1)), 2 ** (sb - 1) - 1) if ss else (0, 2 ** sb - 1)
                pool = [glo, ghi, slo, shi, slo - 1, shi + 1, slo + 1, shi - 1, 0, 1, -1, 2, 100, -100, ghi // 2, shi // 2]
                pool = [v for v in pool if glo <= v <= ghi]
                inside = [v for v in pool if slo <= v <= shi]
                k = rng.randint(2, 5)
                if rng.random() < 0.5 and inside:
                    vals = [rng.choice(inside) for _ in range(k)]        # everything fits: must be stored exactly
                else:
                    vals = [rng.choice(pool) for _ in range(k)]
                yield "value_dtypes", {"given": g, "stored": st, "values": vals, "column": rng.choice(["count", "count", "score"]),
                                       "form": rng.choice(["frame", "dict", "chunks"])}
    # a dense array with signed values whose row blocks cancel (seeded change C01-5)
    yield "roundtrip", {"bins": gen.layout_bins([5]), "pixels": [[0, 0, 3], [0, 1, 2], [0, 2, -5], [1, 1, -2], [2, 2, 5], [3, 4, 1]], "symm": True,
                        "form": "array", "chunksize": 1, "dtype": "int32", "extra": [], "h5opts": "default", "seed": 0}
    yield "array_loader", {"A": [[3, 2, -5], [2, -2, 0], [-5, 0, 5]]}
    for t in range(60 if thorough else 15):
        n = rng.randint(1, 6)
        vals = [0, 0, 1, 2, 5] if t % 3 else [0, -2, -1, 1, 2]
        A = [[rng.choice(vals) for _ in range(n)] for _ in range(n)]
        for i in range(n):
            for j in range(i):
                A[i][j] = A[j][i]
        yield "array_loader", {"A": A}


def shrink(name, case):
    if name == "roundtrip":
        px = case["pixels"]
        for k in range(len(px)):
            c = dict(case)
            c["pixels"] = px[:k] + px[k + 1:]
            if "cuts" in c:
                c["cuts"] = [min(x, len(c["pixels"])) for x in c["cuts"]]
            yield c
        if case["extra"]:
            c = dict(case); c["extra"] = []
            yield c
        if case["h5opts"] != "default":
            c = dict(case); c["h5opts"] = "default"
            yield c


def escalate(name, case, rng):
    worker_init()
    if name != "array_loader":
        return None
    A = case["A"]
    n = len(A)
    px = [[i, j, A[i][j]] for i in range(n) for j in range(i, n) if A[i][j]]
    for c in range(1, n + 2):
        cs = {"bins": gen.layout_bins([n]), "pixels": px, "symm": True, "form": "array", "chunksize": c, "dtype": "int32",
              "extra": [], "h5opts": "default", "seed": 0}
        r = run_check(_roundtrip, cs)
        if r:
            return {"check": "roundtrip", "case": cs, "result": r}
    return None
