"""C20 — generated bin tables tile the genome; a reported bin size is always true."""
from __future__ import annotations

import itertools
import os

import numpy as np
import pandas as pd

from harness import gen
from harness.common import drv, guarded, impl, run_check

PID = "C20"
THEOREMS = ["binnify_eq_spec", "tilingSpec_get", "tilingSpec_last_stop", "getBinsize_truthful",
            "getBinsize_complete", "getChromsizes_mem", "getChromsizes_nodup", "binnify_roundtrip"]
LEVELS = {"binnify": "top", "binsize_truthful": "top", "chromsizes": "top", "binsize_unit": "unit",
          "makebins_cli": "top", "cooler_binsize": "top"}
DESCRIBE = {
    "binnify": "cooler.util.binnify(sizes, b) vs Lean `binnify` (= `binnifySpecFrom`, theorem binnify_eq_spec)",
    "binsize_truthful": "if cooler.util.get_binsize(bins) = b then Lean `UniformChrom b` must hold for every chromosome",
    "binsize_unit": "cooler.util.get_binsize(bins) vs Lean `getBinsize bins`",
    "chromsizes": "cooler.util.get_chromsizes(bins) vs Lean `getChromsizes` (ends of last bins)",
    "makebins_cli": "`cooler makebins` output vs Lean `binnify`",
    "cooler_binsize": "Cooler.binsize / info['bin-type'] / info['bin-size'] of a created cooler vs Lean `getBinsize`, truthful",
}
RULE = ("binnify: every size table with <=2 (quick) / <=3 (thorough) chromosomes of length 1..12 x width 1..13; "
        "inference: every valid segmentation of <=2 chromosomes of length <=6 (quick) / <=8 (thorough) plus seeded random "
        "3-4 chromosome tables (uniform, variable, longer last bin, one-bin chromosomes); non-trivial = table with >=2 bins "
        "on some chromosome (inference) or a length that is not a multiple of the width (binnify); distinct by canonical JSON")
EXHAUSTIVE = {"quick": True, "thorough": True}
TRUSTED = ["pandas groupby/drop_duplicates/concat and numpy arange/ceil are primitives of the model",
           "float64 division `clen / binsize` idealised as integer arithmetic (exact below 2^52; sampled up to 2^40)"]
ASSUMPTIONS = ["chromosome lengths and widths >= 1"]


def worker_init():
    global cooler, util
    import cooler  # noqa
    from cooler import util  # noqa


def _binnify(case):
    sizes, b = case["sizes"], case["b"]
    cs = pd.Series(sizes, index=[gen.chromname(c) for c in range(len(sizes))], dtype=np.int64)
    df = impl(util.binnify, cs, b)
    got = gen.df_bins(df, list(cs.index))
    cats = [str(x) for x in df["chrom"].cat.categories]
    m = drv().ask("C20.binnify", sizes=sizes, b=b)
    assert m["model"] == m["spec"], "L1 != L0: theorem binnify_eq_spec contradicted"
    if got != m["model"] or cats != list(cs.index):
        return {"mismatch": True, "impl": got, "model": m["model"], "categories": cats}
    return None


def _forms(bins):
    """the same bin table in equally valid FORMS: chrom as categorical / object strings / categorical with categories that have
    no rows (a table filtered to fewer chromosomes keeps them); start/end as int64 / int32 / unsigned integers"""
    df = gen.bins_df(bins)
    yield "categorical,int64", df
    yield "object,int64", gen.bins_df(bins, categorical=False)
    d2 = df.copy()
    cats = [str(c) for c in df["chrom"].cat.categories]
    d2["chrom"] = pd.Categorical([str(x) for x in df["chrom"]], categories=["unused_first"] + cats + ["unused_last"], ordered=True)
    yield "categorical with unobserved categories,int64", d2
    hi = max(b[2] for b in bins)
    for dt in ("int32", "uint32", "uint64") + (("uint16",) if hi < 2 ** 16 else ()) + (("uint8",) if hi < 2 ** 8 else ()):
        d3 = df.copy()
        d3["start"] = d3["start"].astype(dt)
        d3["end"] = d3["end"].astype(dt)
        yield f"categorical,{dt}", d3


def _impl_binsize(bins):
    """get_binsize on every form of the table: the answers must agree (returns the common answer)"""
    out = None
    first = True
    for label, df in _forms(bins):
        r = impl(util.get_binsize, df)
        r = None if r is None else int(r)
        if first:
            out, first, l0 = r, False, label
        elif r != out:
            raise FormDiffers({"what": "get_binsize depends on the form of the bin table", "forms": {l0: out, label: r}})
    return out


class FormDiffers(Exception):
    pass


def _binsize_truthful(case):
    bins = case["bins"]
    try:
        b = _impl_binsize(bins)
    except FormDiffers as e:
        return dict(e.args[0], mismatch=True)
    if b is None:
        return {"stats": {"reported_none": 1}}
    m = drv().ask("C20.uniform", bins=bins, b=b)
    if not m["uniform"]:
        return {"mismatch": True, "impl_binsize": b, "uniform": False,
                "note": "reported fixed size but some bin is not [k*b, min((k+1)*b, length))"}
    return {"stats": {"reported_some": 1}}


def _binsize_unit(case):
    bins = case["bins"]
    try:
        b = _impl_binsize(bins)
    except FormDiffers as e:
        return dict(e.args[0], mismatch=True)
    m = drv().ask("C20.bininfo", bins=bins)
    if b != m["binsize"]:
        return {"mismatch": True, "impl": b, "model": m["binsize"], "legacy_model": m["legacy"]}
    return None


def _chromsizes(case):
    bins = case["bins"]
    names = [gen.chromname(c) for c in range(max(b[0] for b in bins) + 1)]
    m = drv().ask("C20.bininfo", bins=bins)
    for label, df in _forms(bins):
        cs = impl(util.get_chromsizes, df)
        got = [[names.index(str(k)) if str(k) in names else str(k), (int(v) if v == v else None)] for k, v in cs.items()]
        if got != m["chromsizes"] or cs.dtype.kind not in "iu":
            return {"mismatch": True, "form": label, "impl": got, "impl_dtype": str(cs.dtype), "model": m["chromsizes"]}
    if m["valid"] and sorted(m["chromsizes"]) != sorted(m["group_last_stops"]):
        raise AssertionError("L1 != L0 for getChromsizes")
    return None


def _makebins_cli(case):
    from click.testing import CliRunner
    from cooler.cli import cli
    sizes, b = case["sizes"], case["b"]
    d = gen.tmpdir()
    p = os.path.join(d, f"cs-{os.getpid()}.txt")
    with open(p, "w") as f:
        for c, L in enumerate(sizes):
            f.write(f"{gen.chromname(c)}\t{L}\n")
    # an earlier read of the SAME file with the default name filter in the same process must not change what makebins /
    # parse_bins see (they read every name, in file order)
    impl(util.read_chromsizes, p)
    r = CliRunner().invoke(cli, ["makebins", p, str(b)])
    if r.exit_code != 0:
        return {"mismatch": True, "impl": f"exit {r.exit_code}", "output": r.output[-300:]}
    rows = [l.split("\t") for l in r.output.strip().splitlines() if l]
    got = [[gen.chromid(c), int(s), int(e)] for c, s, e in rows]
    m = drv().ask("C20.binnify", sizes=sizes, b=b)
    # parse_bins route as well
    from cooler.cli._util import parse_bins
    cs2, bins2 = impl(parse_bins, f"{p}:{b}")
    got2 = gen.df_bins(bins2, [gen.chromname(c) for c in range(len(sizes))])
    allnames = impl(util.read_chromsizes, p, all_names=True)
    if [str(k) for k in allnames.index] != [gen.chromname(c) for c in range(len(sizes))] or [int(v) for v in allnames.values] != sizes:
        os.unlink(p)
        return {"mismatch": True, "what": "read_chromsizes(all_names=True) is not the file's table in file order",
                "impl": [[str(k), int(v)] for k, v in allnames.items()]}
    os.unlink(p)
    if got != m["model"] or got2 != m["model"] or [int(x) for x in cs2.values] != sizes:
        return {"mismatch": True, "impl_cli": got, "impl_parse_bins": got2, "model": m["model"]}
    return None


def _cooler_binsize(case):
    bins = case["bins"]
    df = gen.bins_df(bins)
    p = os.path.join(gen.tmpdir(), f"b-{os.getpid()}.cool")
    px = pd.DataFrame({"bin1_id": np.array([0], dtype=np.int64), "bin2_id": np.array([0], dtype=np.int64),
                       "count": np.array([1], dtype=np.int32)})
    impl(cooler.create_cooler, p, df, px)
    c = impl(cooler.Cooler, p)
    info = impl(lambda: c.info)
    b = impl(lambda: c.binsize)
    b = None if b is None else int(b)
    os.unlink(p)
    bt = info["bin-type"]
    bs = info["bin-size"]
    m = drv().ask("C20.bininfo", bins=bins)
    res = {"binsize": b, "bin-type": bt, "bin-size": bs}
    if b is not None:
        u = drv().ask("C20.uniform", bins=bins, b=b)
        if not u["uniform"]:
            return {"mismatch": True, "impl": res, "note": "Cooler.binsize untruthful"}
    consistent = (bt == ("fixed" if b is not None else "variable")) and (bs == (b if b is not None else "null") or (b is None and bs in (None, "null")))
    if not consistent:
        return {"mismatch": True, "impl": res, "note": "bin-type/bin-size attributes disagree with Cooler.binsize"}
    if b != m["binsize"]:
        return {"mismatch": True, "impl": res, "model": m["binsize"], "note": "unit: differs from the model's inference"}
    return None


CHECKS = {"binnify": _binnify, "binsize_truthful": _binsize_truthful, "binsize_unit": _binsize_unit,
          "chromsizes": _chromsizes, "makebins_cli": _makebins_cli, "cooler_binsize": _cooler_binsize}


def nontrivial(name, case):
    if "bins" in case:
        from collections import Counter
        return max(Counter(b[0] for b in case["bins"]).values()) >= 2
    return any(L % case["b"] for L in case["sizes"])


def distribution(name, case):
    if "bins" in case:
        n = max(b[0] for b in case["bins"]) + 1
        yield f"tables.nchroms={n}"
    else:
        yield f"sizes.nchroms={len(case['sizes'])}"


def all_segmentations(maxlen, nchroms):
    per = [ws for L in range(1, maxlen + 1) for ws in gen.compositions(L)]
    for combo in itertools.product(per, repeat=nchroms):
        bins = []
        for c, ws in enumerate(combo):
            bins += gen.chrom_bins(c, ws)
        yield bins


def cases(tier, rng):
    thorough = tier == "thorough"
    # corpus: minimised past failures first
    corpus = [
        [[0, 0, 10], [0, 10, 25]],
        [[0, 0, 10], [0, 10, 20], [0, 20, 30], [1, 0, 16]],
        [[0, 0, 7], [0, 7, 30], [1, 0, 7]],
        [[0, 0, 10], [0, 10, 20], [0, 20, 30], [0, 30, 40], [0, 40, 65], [1, 0, 10], [1, 10, 20]],
    ]
    for bins in corpus:
        for nm in ("binsize_truthful", "binsize_unit", "chromsizes", "cooler_binsize"):
            yield nm, {"bins": bins}
    maxc = 3 if thorough else 2
    for n in range(1, maxc + 1):
        lens = range(1, 13) if (n < 3) else (1, 2, 3, 5, 7, 8, 10, 12)
        for sizes in itertools.product(lens, repeat=n):
            for b in range(1, 14):
                yield "binnify", {"sizes": list(sizes), "b": b}
    for _ in range(400 if thorough else 60):
        n = rng.randint(1, 4)
        b = rng.choice([1, 2, 3, 7, 10, 1000, 2 ** 20, 10 ** 6 + 1])
        sizes = [rng.choice([1, b - 1 or 1, b, b + 1, 2 * b, 3 * b + 1, rng.randint(1, 50 * b), rng.randint(1, 2 ** 40)]) for _ in range(n)]
        # keep tables small enough to materialise
        sizes = [s if s // b < 5000 else b * rng.randint(1, 5000) + rng.randint(0, b - 1) for s in sizes]
        yield "binnify", {"sizes": sizes, "b": b}
    maxlen = 8 if thorough else 6
    for n in (1, 2):
        for bins in all_segmentations(maxlen, n):
            yield "binsize_truthful", {"bins": bins}
            yield "binsize_unit", {"bins": bins}
            if n == 1 or len(bins) <= 6:
                yield "chromsizes", {"bins": bins}
    for k in range(3000 if thorough else 300):
        bins = gen.random_segmentation(rng, rng.randint(2, 4), 24)
        yield "binsize_truthful", {"bins": bins}
        yield "binsize_unit", {"bins": bins}
        yield "chromsizes", {"bins": bins}
        if k % (10 if thorough else 30) == 0:
            yield "cooler_binsize", {"bins": bins}
    for _ in range(40 if thorough else 8):
        n = rng.randint(1, 3)
        yield "makebins_cli", {"sizes": [rng.randint(1, 40) for _ in range(n)], "b": rng.randint(1, 15)}


def shrink(name, case):
    if "bins" in case:
        bins = case["bins"]
        chroms = sorted({b[0] for b in bins})
        # drop a chromosome
        for c in chroms:
            if len(chroms) > 1:
                rest = [b for b in bins if b[0] != c]
                remap = {old: new for new, old in enumerate(sorted({b[0] for b in rest}))}
                yield {"bins": [[remap[b[0]], b[1], b[2]] for b in rest]}
        # drop the last bin of a chromosome
        for c in chroms:
            g = [b for b in bins if b[0] == c]
            if len(g) > 1:
                yield {"bins": [b for b in bins if b is not g[-1]]}
    else:
        s, b = case["sizes"], case["b"]
        for i in range(len(s)):
            if len(s) > 1:
                yield {"sizes": s[:i] + s[i + 1:], "b": b}
        for i in range(len(s)):
            if s[i] > 1:
                yield {"sizes": s[:i] + [s[i] // 2] + s[i + 1:], "b": b}


def escalate(name, case, rng):
    """`binsize_unit` stopped checking: look for a table on which the implementation's answer is untruthful"""
    if name != "binsize_unit":
        return None
    worker_init()
    for bins in itertools.chain([case["bins"]], all_segmentations(7, 2)):
        r = run_check(_binsize_truthful, {"bins": bins})
        if r:
            return {"check": "binsize_truthful", "case": {"bins": bins}, "result": r}
    return None
