"""C20 — generated bin tables tile the genome; a reported bin size is always true."""
from __future__ import annotations

import itertools
import os

import numpy as np
import pandas as pd

from harness import gen
from harness.common import drv, guarded, impl, run_check

PID = "C20"
THEOREMS = ["binnify_eq_spec", "tilingSpec_get", "tilingSpec_last_stop", "getBinsize_truthful",
            "getBinsize_complete", "getChromsizes_mem", "getChromsizes_nodup", "binnify_roundtrip", "binnify_regrid"]
LEVELS = {"binnify": "top", "binsize_truthful": "top", "chromsizes": "top", "binsize_unit": "unit",
          "makebins_cli": "top", "parse_bins_bed": "top", "cooler_binsize": "top", "regrid": "top"}
DESCRIBE = {
    "binnify": "cooler.util.binnify(sizes, b) vs Lean `binnify` (= `binnifySpecFrom`, theorem binnify_eq_spec), the size table given as a "
               "Series of every integer dtype that holds it and of Python ints, the width as int / numpy integer",
    "regrid": "binnify(sizes, b0) -> create_cooler -> Cooler.bins()/binsize/chromsizes -> binnify(Cooler.chromsizes, b) (the int32 Series "
              "the file yields) vs Lean `binnify` / `getBinsize` / `getChromsizes` (theorem binnify_regrid)",
    "binsize_truthful": "if cooler.util.get_binsize(bins) = b then Lean `UniformChrom b` must hold for every chromosome",
    "binsize_unit": "cooler.util.get_binsize(bins) vs Lean `getBinsize bins`",
    "chromsizes": "cooler.util.get_chromsizes(bins) vs Lean `getChromsizes` (ends of last bins)",
    "makebins_cli": "`cooler makebins` output vs Lean `binnify`",
    "parse_bins_bed": "cli `parse_bins(<BED file of bins>)`: table = the file's rows, chromosome sizes = Lean `getChromsizes` (ends of the last "
                      "bins); a missing file, `<missing>:<b>`, `<file>:<non-integer>` are refused",
    "cooler_binsize": "Cooler.binsize / info['bin-type'] / info['bin-size'] of a created cooler vs Lean `getBinsize`, truthful",
}
RULE = ("binnify: every size table with <=2 (quick) / <=3 (thorough) chromosomes of length 1..12 x width 1..13, each in every "
        "numeric form (Series of int8..int64, uint8..uint64 where the values fit, Python-int objects; width int / np.int64 / np.int32); "
        "seeded tables whose longest chromosome is at, within one bin below, or just beyond every integer-width limit "
        "(2^7-1 .. 2^32-1, 2^40) with widths giving 1..~300 bins or exceeding the limit; the same through makebins and through a "
        "stored cooler (regrid, lengths <= 2^31-1); "
        "inference: every valid segmentation of <=2 chromosomes of length <=6 (quick) / <=8 (thorough) plus seeded random "
        "3-4 chromosome tables (uniform, variable, longer last bin, one-bin chromosomes) plus the same styles scaled so that the "
        "longest chromosome ends at / just below / just beyond an integer-width limit, start/end columns in every integer dtype "
        "that holds them; non-trivial = table with >=2 bins "
        "on some chromosome (inference) or a length that is not a multiple of the width (binnify); distinct by canonical JSON")
EXHAUSTIVE = {"quick": True, "thorough": True}
TRUSTED = ["pandas groupby/drop_duplicates/concat and numpy arange/ceil are primitives of the model",
           "float64 division `clen / binsize` idealised as integer arithmetic (exact below 2^52; sampled up to 2^40)"]
ASSUMPTIONS = ["chromosome lengths and widths >= 1", "lengths and widths sampled up to ~2^42 (coordinates are int64 at most); a stored "
               "cooler holds lengths <= 2^31-1 (int32 columns)"]


def worker_init():
    global cooler, util
    import cooler  # noqa
    from cooler import util  # noqa


_INT_DTYPES = ("int64", "int32", "uint32", "uint64", "int16", "uint16", "int8", "uint8")


def _size_forms(sizes):
    """the same chromosome-size table in every valid numeric FORM: a Series of each integer dtype that holds the lengths
    (int32 named like the one `Cooler.chromsizes` returns) and a Series of Python ints (object dtype)"""
    names = [gen.chromname(c) for c in range(len(sizes))]
    hi = max(sizes)
    for dt in _INT_DTYPES:
        if hi <= np.iinfo(dt).max:
            cs = pd.Series(np.array(sizes, dtype=dt), index=names)
            if dt == "int32":
                cs = cs.rename("length").rename_axis("name")
            yield dt, cs
    yield "object (Python ints)", pd.Series([int(x) for x in sizes], index=names, dtype=object)


def _width_forms(b, all_forms=True):
    """the width as a Python int and as the numpy integers an attribute (`Cooler.binsize` is np.int64) or an array element gives"""
    yield "int", int(b)
    if all_forms:
        yield "np.int64", np.int64(b)
        if b <= np.iinfo("int32").max:
            yield "np.int32", np.int32(b)


def _binnify_forms(sizes, b, model, forms, pick=None):
    """binnify on each (size form, width form): every one must give the model's table with the given chromosome order.
    `pick`: an integer -> only the plain form (int64 Series, int width) and two others chosen by it (the exhaustive sweep of small
    tables rotates through the forms; everything else runs them all)"""
    names = [gen.chromname(c) for c in range(len(sizes))]
    combos = [(sl, cs, wl, w) for sl, cs in forms
              for wl, w in _width_forms(b, all_forms=sl in ("int64", "int32", "Cooler.chromsizes"))]
    if pick is not None and len(combos) > 3:
        n = len(combos) - 1
        combos = [combos[0], combos[1 + pick % n], combos[1 + (pick // n + pick) % n]]
    for sl, cs, wl, w in combos:
        df = impl(util.binnify, cs, w)
        got = gen.df_bins(df, names)
        cats = [str(x) for x in df["chrom"].cat.categories]
        if got != model or cats != names:
            k = next((i for i, (g, e) in enumerate(zip(got, model)) if g != e), min(len(got), len(model)))
            return {"mismatch": True, "chromsizes_form": sl, "width_form": wl, "nbins_impl": len(got), "nbins_model": len(model),
                    "first_difference_at": k, "impl": got[max(0, k - 1):k + 3], "model": model[max(0, k - 1):k + 3],
                    "categories": cats}
    return None


def _binnify(case):
    sizes, b = case["sizes"], case["b"]
    m = drv().ask("C20.binnify", sizes=sizes, b=b)
    assert m["model"] == m["spec"], "L1 != L0: theorem binnify_eq_spec contradicted"
    return _binnify_forms(sizes, b, m["model"], _size_forms(sizes), pick=case.get("rotate"))


def _regrid(case):
    """bin a genome with b0, store it, read it back, re-bin the sizes the file yields with b"""
    sizes, b0, b = case["sizes"], case["b0"], case["b"]
    names = [gen.chromname(c) for c in range(len(sizes))]
    m = drv().ask("C20.regrid", sizes=sizes, b0=b0, b=b)
    assert m["bins0"] == m["spec0"] and m["direct"] == m["spec"], "L1 != L0: theorem binnify_eq_spec contradicted"
    assert m["sizes_back"] == sizes and m["regrid"] == m["direct"], "theorem binnify_roundtrip / binnify_regrid contradicted"
    assert m["uniform0"], "binnify's table is not uniform for its own width"
    info = drv().ask("C20.bininfo", bins=m["bins0"])
    df0 = impl(util.binnify, pd.Series(sizes, index=names, dtype=np.int64), b0)
    got0 = gen.df_bins(df0, names)
    if got0 != m["bins0"]:
        return {"mismatch": True, "step": "binnify(sizes, b0)", "nbins_impl": len(got0), "nbins_model": len(m["bins0"])}
    # row labels are presentation (gen.relabel_rows): the frame handed to create_cooler need not carry a RangeIndex
    df0 = gen.relabel_rows(df0, sum(sizes) + b0, groups=[x[0] for x in got0])
    p = os.path.join(gen.tmpdir(), f"rg-{os.getpid()}.cool")
    px = pd.DataFrame({"bin1_id": np.array([0], dtype=np.int64), "bin2_id": np.array([0], dtype=np.int64),
                       "count": np.array([1], dtype=np.int32)})
    try:
        impl(cooler.create_cooler, p, df0, px)
        c = impl(cooler.Cooler, p)
        stored = impl(lambda: c.bins()[:])[["chrom", "start", "end"]]
        cs = impl(lambda: c.chromsizes)
        bsz = impl(lambda: c.binsize)
    finally:
        if os.path.exists(p):
            os.unlink(p)
    bsz = None if bsz is None else int(bsz)
    got = gen.df_bins(stored, names)
    if got != m["bins0"]:
        k = next((i for i, (g, e) in enumerate(zip(got, m["bins0"])) if g != e), min(len(got), len(m["bins0"])))
        return {"mismatch": True, "step": "Cooler.bins()[:] of the stored binnify table", "first_difference_at": k,
                "impl": got[max(0, k - 1):k + 3], "model": m["bins0"][max(0, k - 1):k + 3]}
    if [str(k) for k in cs.index] != names or [int(v) for v in cs.values] != sizes:
        return {"mismatch": True, "step": "Cooler.chromsizes", "impl": [[str(k), int(v)] for k, v in cs.items()], "model": sizes}
    if bsz is not None and not drv().ask("C20.uniform", bins=m["bins0"], b=bsz)["uniform"]:
        return {"mismatch": True, "step": "Cooler.binsize", "impl": bsz, "model": m["binsize0"],
                "note": "reported fixed size but some stored bin is not [k*b, min((k+1)*b, length))"}
    if bsz != m["binsize0"]:
        return {"mismatch": True, "step": "Cooler.binsize", "impl": bsz, "model": m["binsize0"]}
    # the stored table as the file yields it (int32 start/end) through the inference
    b2 = impl(util.get_binsize, stored)
    b2 = None if b2 is None else int(b2)
    if b2 != info["binsize"]:
        return {"mismatch": True, "step": "get_binsize(Cooler.bins()[:])", "impl": b2, "model": info["binsize"]}
    cs2 = impl(util.get_chromsizes, stored)
    got2 = [[names.index(str(k)) if str(k) in names else str(k), (int(v) if v == v else None)] for k, v in cs2.items()]
    if got2 != info["chromsizes"]:
        return {"mismatch": True, "step": "get_chromsizes(Cooler.bins()[:])", "impl": got2, "model": info["chromsizes"]}
    # the idiom `binnify(clr.chromsizes, b)`
    r = _binnify_forms(sizes, b, m["direct"], [("Cooler.chromsizes", cs)])
    if r:
        r["step"] = "binnify(Cooler.chromsizes, b)"
        r["chromsizes_dtype"] = str(cs.dtype)
    return r


def _forms(bins):
    """the same bin table in equally valid FORMS: chrom as categorical / object strings / categorical with categories that have
    no rows (a table filtered to fewer chromosomes keeps them); start/end as int64 / every other integer dtype that holds them"""
    df = gen.bins_df(bins)
    yield "categorical,int64", df
    yield "object,int64", gen.bins_df(bins, categorical=False)
    d2 = df.copy()
    cats = [str(c) for c in df["chrom"].cat.categories]
    d2["chrom"] = pd.Categorical([str(x) for x in df["chrom"]], categories=["unused_first"] + cats + ["unused_last"], ordered=True)
    yield "categorical with unobserved categories,int64", d2
    hi = max(b[2] for b in bins)
    for dt in ("int32", "uint32", "uint64", "uint16", "uint8", "int16", "int8"):
        lim = np.iinfo(dt).max
        # every dtype that holds the coordinates; the narrow signed ones where the table comes near their limit
        if hi > lim or (dt in ("int16", "int8") and 2 * hi <= lim):
            continue
        d3 = df.copy()
        d3["start"] = d3["start"].astype(dt)
        d3["end"] = d3["end"].astype(dt)
        yield f"categorical,{dt}", d3


def _impl_binsize(bins):
    """get_binsize on every form of the table: the answers must agree (returns the common answer)"""
    out = None
    first = True
    for label, df in _forms(bins):
        r = impl(util.get_binsize, df)
        r = None if r is None else int(r)
        if first:
            out, first, l0 = r, False, label
        elif r != out:
            raise FormDiffers({"what": "get_binsize depends on the form of the bin table", "forms": {l0: out, label: r}})
    return out


class FormDiffers(Exception):
    pass


def _binsize_truthful(case):
    bins = case["bins"]
    try:
        b = _impl_binsize(bins)
    except FormDiffers as e:
        return dict(e.args[0], mismatch=True)
    if b is None:
        return {"stats": {"reported_none": 1}}
    m = drv().ask("C20.uniform", bins=bins, b=b)
    if not m["uniform"]:
        return {"mismatch": True, "impl_binsize": b, "uniform": False,
                "note": "reported fixed size but some bin is not [k*b, min((k+1)*b, length))"}
    return {"stats": {"reported_some": 1}}


def _binsize_unit(case):
    bins = case["bins"]
    try:
        b = _impl_binsize(bins)
    except FormDiffers as e:
        return dict(e.args[0], mismatch=True)
    m = drv().ask("C20.bininfo", bins=bins)
    if b != m["binsize"]:
        return {"mismatch": True, "impl": b, "model": m["binsize"], "legacy_model": m["legacy"]}
    return None


def _chromsizes(case):
    bins = case["bins"]
    names = [gen.chromname(c) for c in range(max(b[0] for b in bins) + 1)]
    m = drv().ask("C20.bininfo", bins=bins)
    for label, df in _forms(bins):
        cs = impl(util.get_chromsizes, df)
        got = [[names.index(str(k)) if str(k) in names else str(k), (int(v) if v == v else None)] for k, v in cs.items()]
        if got != m["chromsizes"] or cs.dtype.kind not in "iu":
            return {"mismatch": True, "form": label, "impl": got, "impl_dtype": str(cs.dtype), "model": m["chromsizes"]}
    if m["valid"] and sorted(m["chromsizes"]) != sorted(m["group_last_stops"]):
        raise AssertionError("L1 != L0 for getChromsizes")
    return None


def _makebins_cli(case):
    from click.testing import CliRunner
    from cooler.cli import cli
    sizes, b = case["sizes"], case["b"]
    d = gen.tmpdir()
    p = os.path.join(d, f"cs-{os.getpid()}.txt")
    with open(p, "w") as f:
        for c, L in enumerate(sizes):
            f.write(f"{gen.chromname(c)}\t{L}\n")
    # an earlier read of the SAME file with the default name filter in the same process must not change what makebins /
    # parse_bins see (they read every name, in file order)
    impl(util.read_chromsizes, p)
    r = CliRunner().invoke(cli, ["makebins", p, str(b)])
    if r.exit_code != 0:
        return {"mismatch": True, "impl": f"exit {r.exit_code}", "output": r.output[-300:]}
    rows = [l.split("\t") for l in r.output.strip().splitlines() if l]
    got = [[gen.chromid(c), int(s), int(e)] for c, s, e in rows]
    m = drv().ask("C20.binnify", sizes=sizes, b=b)
    # parse_bins route as well
    from cooler.cli._util import parse_bins
    cs2, bins2 = impl(parse_bins, f"{p}:{b}")
    got2 = gen.df_bins(bins2, [gen.chromname(c) for c in range(len(sizes))])
    allnames = impl(util.read_chromsizes, p, all_names=True)
    if [str(k) for k in allnames.index] != [gen.chromname(c) for c in range(len(sizes))] or [int(v) for v in allnames.values] != sizes:
        os.unlink(p)
        return {"mismatch": True, "what": "read_chromsizes(all_names=True) is not the file's table in file order",
                "impl": [[str(k), int(v)] for k, v in allnames.items()]}
    os.unlink(p)
    if got != m["model"] or got2 != m["model"] or [int(x) for x in cs2.values] != sizes:
        return {"mismatch": True, "impl_cli": got, "impl_parse_bins": got2, "model": m["model"]}
    return None


def _parse_bins_bed(case):
    """cli `parse_bins(BINS)` given a BED file of bins (every loader's `<bins path>` form): the table is the file's rows and the
    chromosome sizes are the ends of the last bins (Lean `getChromsizes`); malformed BINS arguments are refused"""
    from cooler.cli._util import parse_bins
    bins = case["bins"]
    names = [gen.chromname(c) for c in range(max(b[0] for b in bins) + 1)]
    d = gen.tmpdir()
    p = os.path.join(d, f"bins-{os.getpid()}.bed")
    with open(p, "w") as f:
        for c, s_, e_ in bins:
            f.write(f"{names[c]}\t{s_}\t{e_}\n")
    try:
        m = drv().ask("C20.bininfo", bins=bins)
        cs, df = impl(parse_bins, p)
        got_bins = gen.df_bins(df, names)
        got_cs = [[names.index(str(k)), int(v)] for k, v in cs.items()]
        if got_bins != [list(b) for b in bins]:
            return {"mismatch": True, "what": "bin table read from the BED file", "impl": got_bins, "given": bins}
        if got_cs != m["chromsizes"]:
            return {"mismatch": True, "what": "chromosome sizes inferred from the BED file", "impl": got_cs, "model": m["chromsizes"]}
        # refusals: neither a file nor <file>:<binsize>; a missing chromsizes file; a bin size that is not an integer
        for bad in (p + ".missing", p + ".missing:10", p + ":ten", p + ":"):
            r = guarded(parse_bins, bad)
            if r[0] == "ok":
                return {"mismatch": True, "what": "malformed BINS argument accepted", "arg": bad.replace(d, "<tmp>")}
        return None
    finally:
        if os.path.exists(p):
            os.unlink(p)


def _cooler_binsize(case):
    bins = case["bins"]
    df = gen.bins_df(bins)
    p = os.path.join(gen.tmpdir(), f"b-{os.getpid()}.cool")
    px = pd.DataFrame({"bin1_id": np.array([0], dtype=np.int64), "bin2_id": np.array([0], dtype=np.int64),
                       "count": np.array([1], dtype=np.int32)})
    impl(cooler.create_cooler, p, df, px)
    c = impl(cooler.Cooler, p)
    info = impl(lambda: c.info)
    b = impl(lambda: c.binsize)
    b = None if b is None else int(b)
    os.unlink(p)
    bt = info["bin-type"]
    bs = info["bin-size"]
    m = drv().ask("C20.bininfo", bins=bins)
    res = {"binsize": b, "bin-type": bt, "bin-size": bs}
    if b is not None:
        u = drv().ask("C20.uniform", bins=bins, b=b)
        if not u["uniform"]:
            return {"mismatch": True, "impl": res, "note": "Cooler.binsize untruthful"}
    consistent = (bt == ("fixed" if b is not None else "variable")) and (bs == (b if b is not None else "null") or (b is None and bs in (None, "null")))
    if not consistent:
        return {"mismatch": True, "impl": res, "note": "bin-type/bin-size attributes disagree with Cooler.binsize"}
    if b != m["binsize"]:
        return {"mismatch": True, "impl": res, "model": m["binsize"], "note": "unit: differs from the model's inference"}
    return None


CHECKS = {"binnify": _binnify, "binsize_truthful": _binsize_truthful, "binsize_unit": _binsize_unit,
          "chromsizes": _chromsizes, "makebins_cli": _makebins_cli, "parse_bins_bed": _parse_bins_bed, "cooler_binsize": _cooler_binsize, "regrid": _regrid}


def nontrivial(name, case):
    if "bins" in case:
        from collections import Counter
        return max(Counter(b[0] for b in case["bins"]).values()) >= 2
    return any(L % case["b"] for L in case["sizes"])


def _magnitude(x):
    for m in LIMITS:
        if x <= m:
            return f"<=2^{(m + 1).bit_length() - 1}" + ("-1" if m != 2 ** 40 else "")
    return ">2^40"


def distribution(name, case):
    if "bins" in case:
        n = max(b[0] for b in case["bins"]) + 1
        yield f"tables.nchroms={n}"
        yield f"tables.longest{_magnitude(max(b[2] for b in case['bins']))}"
    else:
        yield f"sizes.nchroms={len(case['sizes'])}"
        yield f"sizes.longest{_magnitude(max(case['sizes']))}"
        yield f"width{_magnitude(case['b'])}"


def all_segmentations(maxlen, nchroms):
    per = [ws for L in range(1, maxlen + 1) for ws in gen.compositions(L)]
    for combo in itertools.product(per, repeat=nchroms):
        bins = []
        for c, ws in enumerate(combo):
            bins += gen.chrom_bins(c, ws)
        yield bins


# the largest value of every integer width a length / coordinate can be given in (int8 .. uint32), and 2^40 (int64 territory)
LIMITS = [2 ** 7 - 1, 2 ** 8 - 1, 2 ** 15 - 1, 2 ** 16 - 1, 2 ** 31 - 1, 2 ** 32 - 1, 2 ** 40]


def _round_near(rng, x):
    """a round number (1/2/5 x 10^k or 2^k) of the magnitude of x"""
    x = max(1, x)
    return max(1, rng.choice([10 ** (len(str(x)) - 1) * rng.choice([1, 2, 5]), 2 ** (x.bit_length() - 1)]))


def near_limit_sizes(rng, cap=None, limits=None):
    """(sizes, b): a size table whose longest chromosome is at / within one bin below / just beyond an integer-width limit M, with
    a width that gives few bins (1 .. ~300 on that chromosome, or none complete: width at or beyond M); other chromosomes small
    or near the limit too.  `cap`: largest admissible length."""
    M = rng.choice([m for m in (limits or LIMITS) if cap is None or m <= cap])
    nb = rng.choice([1, 1, 2, 3, 5, 17, 300])
    base = max(1, M // nb)
    b = rng.choice([base, base + 1, max(1, base - 1), _round_near(rng, base), _round_near(rng, base), M, M + 1, 2 * M + 3])

    def one():
        L = rng.choice([M, M - 1, M - rng.randrange(b), M - rng.randrange(b), M + 1, M + rng.randint(1, b),
                        (M // b) * b, (M // b) * b + 1, (M // b) * b - 1])
        return L
    sizes = [one()]
    for _ in range(rng.choice([0, 1, 1, 2])):
        sizes.append(rng.choice([1, b, b + 1, max(1, b - 1), rng.randint(1, 3 * b), one()]))
    rng.shuffle(sizes)
    hi = cap if cap is not None else 2 ** 42
    return [min(max(1, L), hi) for L in sizes], b


def near_limit_table(rng, cap=None):
    """a valid segmentation of every style (uniform, variable, longer last bin, one-bin chromosomes) scaled so that its longest
    chromosome ends exactly at a target at / just below / just beyond an integer-width limit; the other chromosomes keep the
    scaled grid with a last bin possibly shortened"""
    M = rng.choice([m for m in LIMITS if cap is None or m <= cap])
    bins = gen.random_segmentation(rng, rng.randint(1, 3), 8)
    E = max(x[2] for x in bins)
    T = rng.choice([M, M, M - 1, M - rng.randint(0, M // (2 * E)), M + 1, M + rng.randint(1, M // E)])
    if cap is not None:
        T = min(T, cap)
    s = -(-T // E)
    r = s * E - T              # < E <= 8 <= s
    out = [[c, a * s, e * s] for c, a, e in bins]
    for i, x in enumerate(out):
        if i + 1 == len(out) or out[i + 1][0] != x[0]:      # last bin of its chromosome
            x[2] -= r if bins[i][2] == E else rng.choice([0, 0, rng.randrange(s)])
    return out


def _few_bins(sizes, b, most=5000):
    return sum(L // b for L in sizes) < most


def cases(tier, rng):
    thorough = tier == "thorough"
    # corpus: minimised past failures first
    corpus = [
        [[0, 0, 10], [0, 10, 25]],
        [[0, 0, 10], [0, 10, 20], [0, 20, 30], [1, 0, 16]],
        [[0, 0, 7], [0, 7, 30], [1, 0, 7]],
        [[0, 0, 10], [0, 10, 20], [0, 20, 30], [0, 30, 40], [0, 40, 65], [1, 0, 10], [1, 10, 20]],
    ]
    for bins in corpus:
        for nm in ("binsize_truthful", "binsize_unit", "chromsizes", "cooler_binsize"):
            yield nm, {"bins": bins}
    maxc = 3 if thorough else 2
    count = 0
    for n in range(1, maxc + 1):
        lens = range(1, 13) if (n < 3) else (1, 2, 3, 5, 7, 8, 10, 12)
        for sizes in itertools.product(lens, repeat=n):
            for b in range(1, 14):
                count += 1
                yield "binnify", {"sizes": list(sizes), "b": b, "rotate": count}
    for _ in range(400 if thorough else 60):
        n = rng.randint(1, 4)
        b = rng.choice([1, 2, 3, 7, 10, 1000, 2 ** 20, 10 ** 6 + 1])
        sizes = [rng.choice([1, b - 1 or 1, b, b + 1, 2 * b, 3 * b + 1, rng.randint(1, 50 * b), rng.randint(1, 2 ** 40)]) for _ in range(n)]
        # keep tables small enough to materialise
        sizes = [s if s // b < 5000 else b * rng.randint(1, 5000) + rng.randint(0, b - 1) for s in sizes]
        yield "binnify", {"sizes": sizes, "b": b}
    # magnitudes: at / around every integer-width limit
    for _ in range(1500 if thorough else 150):
        sizes, b = near_limit_sizes(rng)
        yield "binnify", {"sizes": sizes, "b": b}
    for k in range(200 if thorough else 30):
        if k % 3 == 2:
            sizes = [rng.randint(1, 40) for _ in range(rng.randint(1, 3))]
            b0, b = rng.randint(1, 15), rng.randint(1, 15)
        else:
            # the file yields int32 lengths: mostly around that limit
            sizes, b = near_limit_sizes(rng, cap=2 ** 31 - 1, limits=[2 ** 31 - 1] * 4 + LIMITS)
            b0 = rng.choice([b, 2 * b, max(1, b // 2), b + 1, _round_near(rng, max(sizes)), max(sizes), max(sizes) + 1])
            if not (_few_bins(sizes, b, 3000) and _few_bins(sizes, b0, 3000)):
                b0 = b = max(1, max(sizes) // rng.randint(1, 40))
        yield "regrid", {"sizes": sizes, "b0": b0, "b": b}
    maxlen = 8 if thorough else 6
    for n in (1, 2):
        for bins in all_segmentations(maxlen, n):
            yield "binsize_truthful", {"bins": bins}
            yield "binsize_unit", {"bins": bins}
            if n == 1 or len(bins) <= 6:
                yield "chromsizes", {"bins": bins}
    for k in range(3000 if thorough else 300):
        bins = gen.random_segmentation(rng, rng.randint(2, 4), 24)
        yield "binsize_truthful", {"bins": bins}
        yield "binsize_unit", {"bins": bins}
        yield "chromsizes", {"bins": bins}
        if k % (10 if thorough else 30) == 0:
            yield "cooler_binsize", {"bins": bins}
    for k in range(800 if thorough else 80):
        bins = near_limit_table(rng)
        yield "binsize_truthful", {"bins": bins}
        yield "binsize_unit", {"bins": bins}
        yield "chromsizes", {"bins": bins}
    for k in range(40 if thorough else 6):
        yield "cooler_binsize", {"bins": near_limit_table(rng, cap=2 ** 31 - 1)}
    for k in range(40 if thorough else 8):
        n = rng.randint(1, 3)
        yield "makebins_cli", {"sizes": [rng.randint(1, 40) for _ in range(n)], "b": rng.randint(1, 15)}
    for k in range(40 if thorough else 8):
        sizes, b = near_limit_sizes(rng)
        yield "makebins_cli", {"sizes": sizes, "b": b}
    for k in range(120 if thorough else 30):
        yield "parse_bins_bed", {"bins": gen.random_segmentation(rng, rng.randint(1, 3), 12)}


def shrink(name, case):
    if "bins" in case:
        bins = case["bins"]
        chroms = sorted({b[0] for b in bins})
        # drop a chromosome
        for c in chroms:
            if len(chroms) > 1:
                rest = [b for b in bins if b[0] != c]
                remap = {old: new for new, old in enumerate(sorted({b[0] for b in rest}))}
                yield {"bins": [[remap[b[0]], b[1], b[2]] for b in rest]}
        # drop the last bin of a chromosome
        for c in chroms:
            g = [b for b in bins if b[0] == c]
            if len(g) > 1:
                yield {"bins": [b for b in bins if b is not g[-1]]}
    else:
        s, b = case["sizes"], case["b"]
        for i in range(len(s)):
            if len(s) > 1:
                yield dict(case, sizes=s[:i] + s[i + 1:])
        for i in range(len(s)):
            if s[i] > 1:
                yield dict(case, sizes=s[:i] + [s[i] // 2] + s[i + 1:])


def escalate(name, case, rng):
    """`binsize_unit` stopped checking: look for a table on which the implementation's answer is untruthful"""
    if name != "binsize_unit":
        return None
    worker_init()
    for bins in itertools.chain([case["bins"]], all_segmentations(7, 2)):
        r = run_check(_binsize_truthful, {"bins": bins})
        if r:
            return {"check": "binsize_truthful", "case": {"bins": bins}, "result": r}
    return None
