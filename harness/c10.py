"""C10 — balancing weights flatten the marginals of the filtered matrix.

Oracles are Lean definitions evaluated by the driver:
  C10.balance  -> `Cooler.IC.balance`        the executable model over exact rationals (L1)
  C10.expect   -> `Cooler.IC.expectations`   which bins must carry NaN / a positive weight (L0 and L1)
  C10.verify   -> `Cooler.IC.verifyDomain`   row sums of the filtered symmetric matrix under the returned
                                             weights against `provedInterval` (theorem converged_rowsums_bound)
Python only builds coolers, calls `cooler.balance_cooler`, marshals floats as exact rationals and
compares numbers to a relative tolerance.
"""
from __future__ import annotations

import math
import os
import sys

import numpy as np
import pandas as pd

from harness import gen
from harness.common import drv, errclass

PID = "C10"
THEOREMS = ["final_step_bound", "variance_gives_delta", "converged_rowsums_bound", "cis_bound",
            "trans_bound_partial", "diag_partial", "marginalize_eq_rowsum", "marginalize_diag_double",
            "diag_rowsums_not_flat", "trans_rowsums_not_flat", "masks_code_eq_spec",
            "applyUpdate_nonneg", "applyUpdate_zero_iff", "icLoop_invariant", "others_positive",
            "mask_iff_partial", "mask_iff", "icLoop_emptied_iff", "margVec_pattern", "balance_genome_mask_iff",
            "maskedBias_zero_iff", "rowsumTouch_eq", "provedInterval_sound", "madcut_real", "model_marg_eq_dense",
            "model_final_step_bound", "model_converged_bound", "list_variance_gives_delta",
            "balance_trans_mask_iff", "balance_cis_mask_iff", "balance_genome_others_positive", "cis_fold_mask",
            "model_converged_bound_cis", "cis_data_inBlock", "model_converged_bound_cis_data",
            "map_insSort", "midPairG_map", "madBelow_iff_code"]
LEVELS = {"model": "unit", "marginalize": "unit", "masks": "top", "flat": "top", "run": "top", "stored": "top",
          "cli": "top"}
DESCRIBE = {
    "model": "cooler.balance_cooler (chunksize=None) vs the exact-rational Lean model `IC.balance`: NaN pattern, "
             "converged, scale and weights to 1e-9 (cases with a discrete decision closer than 1e-9 are skipped)",
    "marginalize": "_init/_binarize/_zero_diags/_zero_trans/_zero_cis/_marginalize on one chunk vs the Lean filters "
                   "and `marginalizeAt` (integers, exact)",
    "masks": "in a run that reports convergence: bins that carry NaN == bins the Lean L0 rule `expectations` excludes "
             "(documented filters on the row sums of the filtered symmetric matrix, or domain without data); "
             "every other bin finite and > 0",
    "flat": "in a run that reports convergence: row sums of the filtered symmetric matrix under the returned weights, "
            "computed by Lean, lie in the proved interval [1/(1+d), 1/(1-d)], d = sqrt(tol*N)/scale",
    "run": "one float-only run (n<=40, max_iters<=500) checked as `flat` and as `masks`",
    "stored": "balance_cooler(store=True): bins/<name> column == returned weights, attrs == stats; then as `flat`",
    "cli": "`cooler balance -p 1 ...`: stored bins/weight column and attrs checked as `masks` and `flat`",
}
RULE = ("small: symmetric integer matrices n<=8 bins, 1-3 chromosomes (empty rows, isolated bins, explicit zeros, "
        "D*P*D exactly balanceable) x mode x ignore_diags 0..3 x min_nnz 0..4 x min_count x mad_max 0..5 x blacklist x "
        "tol 1e-5..1e3 x max_iters 1..6 x x0 x rescale; float: random sparse symmetric n<=40, 1-4 chromosomes, "
        "max_iters<=500; non-trivial = at least 2 bins keep data after filtering and at least one sweep ran; "
        "distinct by canonical JSON")
EXHAUSTIVE = {"quick": False, "thorough": False}
TRUSTED = ["numpy bincount/median/var/mean/log/exp and float64 arithmetic are idealised by exact rationals; "
           "discrete float decisions closer than 1e-9 (relative) to a tie are not compared",
           "h5py attribute/dataset round trip (store=True)",
           "chunking: every run here uses one chunk (chunksize=None); independence of chunking is C11"]
ASSUMPTIONS = ["counts >= 0, initial weights x0 >= 0 (NaN allowed), tol > 0, max_iters >= 1",
               "row sums are compared with the proved interval widened by a relative 1e-9 for float rounding",
               "runs with tol*N >= scale^2 carry no bound (counted as `nobound`, not compared)",
               "trans-only needs >= 2 chromosomes (with one chromosome the chromosome weight is 1/0 and the run never "
               "reports convergence)",
               "the bin-level filters of a trans-only run are evaluated, as in the code, on cis+trans data",
               "a bin that is not excluded but has no data left may carry NaN or a positive weight (outside the property)",
               "the MAD-max cut is decided exactly on fourth powers of rationals; theorem madBelow_iff_code proves this "
               "equal to the code's exp(median(log x) - m*MAD(log x)) comparison in exact real arithmetic"]
CHUNK = 4
sys.set_int_max_str_digits(0)   # exact rationals of the model have thousands of digits
SLACK = 1e-9
TIE = 1e-8      # relative gap (on fourth powers for the MAD cut) below which a discrete decision is a tie


def worker_init():
    global cooler
    import cooler  # noqa


# ----------------------------------------------------------------------------------------------
# marshalling
# ----------------------------------------------------------------------------------------------

def q(x):
    """exact rational of a float/int as [num, den]"""
    a, b = float(x).as_integer_ratio()
    return [a, b]


def fl(r):
    if r is None:
        return None
    try:
        return r[0] / r[1]
    except OverflowError:
        return math.inf if r[0] > 0 else -math.inf


def _shift(case):
    """k when the count column is stored as float64 values v * 4**-k (v the integer of the case): the stored matrix is
    s*A with s = 4**-k.  Every filter but min_count is scale-free (min_count: s*m < c  <=>  m < c * 4**k), and the row
    sums of s*A under weights w are those of A under w * 2**-k, so the integer model answers for the scaled file too."""
    return int(case.get("shift", 0))


def _args(case):
    o = case["opts"]
    return dict(n=case["n"], offsets=case["offsets"], pixels=case["pixels"], mode=o["mode"],
                ignore_diags=o["ignore_diags"], min_nnz=o["min_nnz"], min_count=o["min_count"] * 4 ** _shift(case), mad_max=o["mad_max"],
                blacklist=o["blacklist"],
                x0=None if o["x0"] is None else [None if v is None else q(v) for v in o["x0"]],
                tol=q(o["tol"]), max_iters=o["max_iters"])


def _mk(case, tag):
    offs = case["offsets"]
    bins = []
    for c in range(len(offs) - 1):
        for k in range(offs[c + 1] - offs[c]):
            bins.append([c, 10 * k, 10 * (k + 1)])
    df = gen.bins_df(bins, nchroms=len(offs) - 1)
    px = case["pixels"]
    pdf = pd.DataFrame({"bin1_id": np.array([p[0] for p in px], dtype=np.int64),
                        "bin2_id": np.array([p[1] for p in px], dtype=np.int64),
                        "count": np.array([p[2] for p in px], dtype=np.int32)})
    path = os.path.join(gen.tmpdir(), f"c10-{tag}-{os.getpid()}.cool")
    k = _shift(case)
    if k:
        pdf["count"] = np.array([p[2] for p in px], dtype=np.float64) / float(4 ** k)   # exact: dyadic
        cooler.create_cooler(path, df, pdf, ordered=True, dtypes={"count": np.float64})
    else:
        cooler.create_cooler(path, df, pdf, ordered=True)
    return path


def _kwargs(case):
    o = case["opts"]
    x0 = None if o["x0"] is None else np.array([np.nan if v is None else v for v in o["x0"]], dtype=float)
    return dict(cis_only=o["mode"] == "cis", trans_only=o["mode"] == "trans", ignore_diags=o["ignore_diags"],
                mad_max=o["mad_max"], min_nnz=o["min_nnz"], min_count=o["min_count"],
                blacklist=(list(o["blacklist"]) if o["blacklist"] else None), rescale_marginals=o["rescale"], x0=x0,
                tol=o["tol"], max_iters=o["max_iters"], chunksize=o.get("chunksize"), map=map)


def _run(case, tag="r", store=False):
    path = _mk(case, tag)
    try:
        clr = cooler.Cooler(path)
        bias, stats = cooler.balance_cooler(clr, store=store, **_kwargs(case))
        extra = None
        if store:
            import h5py
            with h5py.File(path, "r") as h5:
                col = h5["bins/weight"][:]
                attrs = {k: (v.tolist() if hasattr(v, "tolist") else v) for k, v in h5["bins/weight"].attrs.items()}
            extra = (col, attrs)
        return np.asarray(bias, dtype=float), stats, extra
    finally:
        if os.path.exists(path):
            os.unlink(path)


def _domains(case, stats):
    """per domain (whole genome, or chromosome in cis-only mode): scale, var, converged as reported"""
    nd = len(case["offsets"]) - 1 if case["opts"]["mode"] == "cis" else 1
    sc = np.atleast_1d(np.asarray(stats["scale"], dtype=float))
    va = np.atleast_1d(np.asarray(stats["var"], dtype=float))
    cv = np.atleast_1d(np.asarray(stats["converged"]))
    if not (len(sc) == len(va) == len(cv) == nd):
        return None
    return [{"scale": float(sc[k]), "var": float(va[k]), "converged": bool(cv[k])} for k in range(nd)]


def _dom_ranges(case):
    offs = case["offsets"]
    if case["opts"]["mode"] == "cis":
        return list(zip(offs[:-1], offs[1:]))
    return [(0, case["n"])]


def _close(a, b, rel=1e-9):
    if a is None or b is None:
        return a is None and b is None
    if math.isnan(a) or math.isnan(b):
        return math.isnan(a) and math.isnan(b)
    return abs(a - b) <= rel * max(abs(a), abs(b))


# ----------------------------------------------------------------------------------------------
# unit: model vs implementation
# ----------------------------------------------------------------------------------------------

def _model(case):
    m = drv().ask("C10.balance", **_args(case))
    if "err" in m:
        raise AssertionError("generator produced a case outside the model's domain")
    # L1 run vs the static rule (theorems mask_iff / others_positive): Lean against Lean
    e = drv().ask("C10.expect", **_args(case))
    for x, exp in zip(m["bias"], e["code"]):
        if (x is None) != (exp == "nan") or (x is not None and not (x[0] > 0)):
            raise AssertionError("model run disagrees with `expectations`: theorem mask_iff/others_positive contradicted")
    # the model's own converged domains satisfy the proved bound exactly (slack 0) for the functional the code
    # flattens (theorems model_converged_bound / cis_bound / trans_bound_partial / diag_partial): Lean against Lean
    if any(c and sc is not None for c, sc in zip(m["converged"], m["scales"])):
        vv = drv().ask("C10.verify", weights=m["bias"], rescaled=False, slack=[0, 1],
                       variant="cw" if case["opts"]["mode"] == "trans" else "diag2",
                       scales=[sc if c else None for c, sc in zip(m["converged"], m["scales"])], **_args(case))["domains"]
        if not all(v["inside"] for v in vv):
            raise AssertionError("model run violates the proved interval: theorem model_converged_bound contradicted")
    gap = fl(m["min_gap"])
    if gap is not None and gap < TIE:
        return {"stats": {"ties_skipped": 1}}
    try:
        bias, stats, _ = _run(case, "m")
    except Exception as e:  # noqa
        return {"mismatch": True, "impl": "err:" + errclass(e), "model": "ok"}
    doms = _domains(case, stats)
    if doms is None:
        return {"mismatch": True, "note": "stats arrays do not have one entry per domain", "stats_impl": repr(stats)}
    o = case["opts"]
    mb = [fl(x) for x in m["bias"]]
    msc = [fl(x) for x in m["scales"]]
    mva = [fl(x) for x in m["vars"]]
    problems = []
    # NaN pattern
    inan = [bool(np.isnan(x)) for x in bias]
    mnan = [x is None for x in mb]
    if inan != mnan:
        problems.append("nan-pattern")
    if [d["converged"] for d in doms] != m["converged"]:
        problems.append("converged")
    for k, d in enumerate(doms):
        s = None if math.isnan(d["scale"]) else d["scale"]
        if not _close(s, msc[k]):
            problems.append(f"scale[{k}]")
        # var: absolute error of the float computation is ~ eps*scale*sqrt(var)
        tolv = 1e-9 * abs(mva[k]) + 1e-10 * abs(msc[k] or 0.0) * math.sqrt(abs(mva[k])) + 1e-22 * (msc[k] or 0.0) ** 2
        if not (abs(d["var"] - mva[k]) <= tolv):
            problems.append(f"var[{k}]")
    if not problems:
        rngs = _dom_ranges(case)
        for k, (lo, hi) in enumerate(rngs):
            div = math.sqrt(msc[k]) if (o["rescale"] and msc[k] is not None) else 1.0
            for i in range(lo, hi):
                if mb[i] is not None and not _close(float(bias[i]), mb[i] / div):
                    problems.append(f"weight[{i}]")
    if problems:
        return {"mismatch": True, "problems": problems[:6], "impl": {"bias": [None if np.isnan(x) else float(x) for x in bias], "domains": doms},
                "model": {"bias": mb, "scales": msc, "vars": mva, "converged": m["converged"], "iters": m["iters"]}}
    st = {"compared": 1}
    if all(m["converged"]):
        st["converged_runs"] = 1
    return {"stats": st}


def _marginalize(case):
    """unit: the per-pixel filters and `_marginalize` on one chunk (integer data, exact)"""
    from functools import reduce
    from cooler import _balance as B
    offs = case["offsets"]
    px = case["pixels"]
    chrom = np.concatenate([[c] * (offs[c + 1] - offs[c]) for c in range(len(offs) - 1)]).astype(np.int32)
    chunk = {"bins": {"chrom": chrom},
             "pixels": {"bin1_id": np.array([p[0] for p in px], dtype=np.int64),
                        "bin2_id": np.array([p[1] for p in px], dtype=np.int64),
                        "count": np.array([p[2] for p in px], dtype=np.int32)}}
    from functools import partial
    fmap = {"binarize": B._binarize, "zero_diags": partial(B._zero_diags, case["ignore_diags"]),
            "zero_trans": B._zero_trans, "zero_cis": B._zero_cis}
    data = B._init(chunk)
    for f in case["filters"]:
        data = fmap[f](chunk, data)
    marg = B._marginalize(chunk, data)
    m = drv().ask("C10.marginalize", n=case["n"], offsets=offs, pixels=px, filters=case["filters"],
                  ignore_diags=case["ignore_diags"])
    impl = {"data": [int(x) for x in data], "marg": [int(x) for x in marg]}
    if impl["data"] != m["data"] or impl["marg"] != m["marg"] or any(float(x) != int(x) for x in marg):
        return {"mismatch": True, "impl": impl, "model": m}
    nodiag = all(d == 0 for p, d in zip(px, m["data"]) if p[0] == p[1])
    if nodiag and m["marg"] != m["rowsum"]:
        raise AssertionError("L1 != L0 with an empty diagonal: theorem marginalize_eq_rowsum contradicted")
    return None


# ----------------------------------------------------------------------------------------------
# top: NaN pattern / positivity, flatness
# ----------------------------------------------------------------------------------------------

def _has_diag(case):
    return any(p[0] == p[1] and p[2] != 0 for p in case["pixels"])


def _check_masks(case, bias, doms):
    """None | mismatch dict | stats dict, for converged domains only"""
    e = drv().ask("C10.expect", **_args(case))
    if case["opts"]["ignore_diags"] >= 1 or not _has_diag(case):
        if e["spec"] != e["code"]:
            raise AssertionError("L1 masks != L0 masks without diagonal data: theorem masks_code_eq_spec contradicted")
    gap = fl(e["min_gap"])
    if gap is not None and gap < TIE:
        return {"stats": {"mask_ties_skipped": 1}}
    bad = []
    bad_code = []
    checked = 0
    for (lo, hi), d in zip(_dom_ranges(case), doms):
        if not d["converged"]:
            continue
        checked += 1
        for i in range(lo, hi):
            x = float(bias[i])
            got = "nan" if math.isnan(x) else ("pos" if (x > 0 and math.isfinite(x)) else "bad")
            for exp, acc in ((e["spec"][i], bad), (e["code"][i], bad_code)):
                ok = (got == exp) or (exp == "free" and got in ("nan", "pos"))
                if not ok:
                    acc.append([i, exp, got])
    if bad:
        return {"mismatch": True, "what": "masks", "bins": bad[:8], "expected": e["spec"],
                "weights": [None if np.isnan(x) else float(x) for x in bias],
                "variant": {"name": "diag2", "ok": not bad_code}}
    return {"stats": {"mask_domains_checked": checked}} if checked else {"stats": {"not_converged": 1}}


def _verify(case, bias, doms, variant):
    scales = [q(d["scale"]) if (d["converged"] and math.isfinite(d["scale"])) else None for d in doms]
    a = _args(case)
    h = float(2 ** _shift(case))
    return drv().ask("C10.verify", weights=[None if np.isnan(x) else q(x / h) for x in bias], rescaled=case["opts"]["rescale"],
                     slack=q(SLACK), variant=variant, scales=scales, **a)["domains"]


def _variant_for(case):
    o = case["opts"]
    if o["mode"] == "trans":
        return "cw"
    if o["ignore_diags"] == 0:
        return "diag2"
    return None


def _check_flat(case, bias, doms):
    if not any(d["converged"] and math.isfinite(d["scale"]) for d in doms):
        return {"stats": {"no_converged_domain": 1}}
    vs = _verify(case, bias, doms, "spec")
    st = {"flat_domains": 0, "nobound": 0, "retained_bins": 0}
    badd = []
    for v in vs:
        if v["interval"] is None:
            st["nobound"] += 1
            continue
        st["flat_domains"] += 1
        st["retained_bins"] += len(v["retained"])
        if not v["inside"]:
            badd.append(v)
    if badd:
        res = {"mismatch": True, "what": "flatness",
               "domains": [{"lo": v["lo"], "hi": v["hi"], "retained": v["retained"], "rowsums": [fl(s) for s in v["sums"]],
                            "delta": fl(v["interval"][0]), "interval": [fl(v["interval"][1]), fl(v["interval"][2])]} for v in badd],
               "weights": [None if np.isnan(x) else float(x) for x in bias], "reported": doms}
        var = _variant_for(case)
        if var:
            vv = _verify(case, bias, doms, var)
            res["variant"] = {"name": var, "ok": all(v["inside"] for v in vv),
                              "rowsums": [[fl(s) for s in v["sums"]] for v in vv]}
        return res
    return {"stats": st}


def _masks(case):
    try:
        bias, stats, _ = _run(case, "k")
    except Exception as e:  # noqa
        return {"mismatch": True, "impl": "err:" + errclass(e)}
    doms = _domains(case, stats)
    if doms is None:
        return {"mismatch": True, "note": "stats arrays do not have one entry per domain"}
    return _check_masks(case, bias, doms)


def _flat(case):
    try:
        bias, stats, _ = _run(case, "f")
    except Exception as e:  # noqa
        return {"mismatch": True, "impl": "err:" + errclass(e)}
    doms = _domains(case, stats)
    if doms is None:
        return {"mismatch": True, "note": "stats arrays do not have one entry per domain"}
    return _check_flat(case, bias, doms)


def _both(case):
    try:
        bias, stats, _ = _run(case, "b")
    except Exception as e:  # noqa
        return {"mismatch": True, "impl": "err:" + errclass(e)}
    doms = _domains(case, stats)
    if doms is None:
        return {"mismatch": True, "note": "stats arrays do not have one entry per domain"}
    return _merge(_check_flat(case, bias, doms), _check_masks(case, bias, doms))


def _merge(*rs):
    """combine sub-results; a mismatch that does not satisfy a finding's variant oracle is reported first, so that a
    known finding never hides another failure of the same run"""
    st, mism = {}, []
    for r in rs:
        if r is None:
            continue
        if r.get("mismatch"):
            mism.append(r)
            continue
        for k, v in r.get("stats", {}).items():
            st[k] = st.get(k, 0) + v
    if mism:
        mism.sort(key=lambda r: bool((r.get("variant") or {}).get("ok")))
        return mism[0]
    return {"stats": st}


def _stored(case):
    try:
        bias, stats, extra = _run(case, "s", store=True)
    except Exception as e:  # noqa
        return {"mismatch": True, "impl": "err:" + errclass(e)}
    col, attrs = extra
    same = len(col) == len(bias) and all((np.isnan(a) and np.isnan(b)) or a == b for a, b in zip(col, bias))
    if not same:
        return {"mismatch": True, "what": "stored column differs from the returned weights",
                "stored": [None if np.isnan(x) else float(x) for x in col], "returned": [None if np.isnan(x) else float(x) for x in bias]}
    for k in ("tol", "scale", "converged", "var", "cis_only", "ignore_diags", "min_nnz", "min_count", "mad_max"):
        a = np.atleast_1d(np.asarray(attrs.get(k), dtype=float))
        b = np.atleast_1d(np.asarray(stats[k], dtype=float))
        if a.shape != b.shape or not all((np.isnan(x) and np.isnan(y)) or x == y for x, y in zip(a, b)):
            return {"mismatch": True, "what": f"attribute {k} differs from stats", "attr": attrs.get(k), "stats": repr(stats[k])}
    doms = _domains(case, {"scale": attrs["scale"], "var": attrs["var"], "converged": attrs["converged"]})
    return _merge(_check_flat(case, col, doms), _check_masks(case, col, doms))


def _cli(case):
    from click.testing import CliRunner
    from cooler.cli import cli
    import h5py
    o = case["opts"]
    path = _mk(case, "c")
    try:
        argv = ["balance", "-p", "1", "--ignore-diags", str(o["ignore_diags"]), "--mad-max", str(o["mad_max"]),
                "--min-nnz", str(o["min_nnz"]), "--min-count", str(o["min_count"]), "--tol", repr(o["tol"]),
                "--max-iters", str(o["max_iters"])]
        if o["mode"] == "cis":
            argv.append("--cis-only")
        if o["mode"] == "trans":
            argv.append("--trans-only")
        if o.get("chunksize"):
            argv += ["-c", str(o["chunksize"])]
        bed = None
        if o["blacklist"]:
            # --blacklist BED: each listed bin as two half-bin regions (exactly that bin overlaps them); the first
            # region starts ON the bin boundary, the second ends on it
            offs = case["offsets"]
            bed = path + ".blacklist.bed"
            with open(bed, "w") as f:
                for b in o["blacklist"]:
                    cidx = max(k for k in range(len(offs) - 1) if offs[k] <= b)
                    s0 = 10 * (b - offs[cidx])
                    f.write(f"{gen.chromname(cidx)}\t{s0}\t{s0 + 5}\n{gen.chromname(cidx)}\t{s0 + 5}\t{s0 + 10}\n")
            argv += ["--blacklist", bed]
        r = CliRunner().invoke(cli, argv + [path])
        if r.exit_code != 0:
            return {"mismatch": True, "impl": f"exit {r.exit_code}", "output": (r.output or "")[-300:], "exc": repr(r.exception)}
        with h5py.File(path, "r") as h5:
            col = h5["bins/weight"][:]
            attrs = {k: (v.tolist() if hasattr(v, "tolist") else v) for k, v in h5["bins/weight"].attrs.items()}
    finally:
        for f_ in (path, path + ".blacklist.bed"):
            if os.path.exists(f_):
                os.unlink(f_)
    doms = _domains(case, {"scale": attrs["scale"], "var": attrs["var"], "converged": attrs["converged"]})
    if doms is None:
        return {"mismatch": True, "note": "attrs do not have one entry per domain", "attrs": repr(attrs)}
    return _merge(_check_flat(case, col, doms), _check_masks(case, col, doms))


CHECKS = {"model": _model, "marginalize": _marginalize, "masks": _masks, "flat": _flat, "run": _both, "stored": _stored,
          "cli": _cli}


# ----------------------------------------------------------------------------------------------
# known findings
# ----------------------------------------------------------------------------------------------

def classify(name, case, result, findings):
    """D17/D18 only when the case has the finding's signature AND the implementation satisfies the variant
    oracle (Lean `verifyDomain` with the deviation built in, resp. the L1 mask rule) exactly."""
    if LEVELS.get(name) != "top" or not isinstance(result, dict) or "opts" not in case:
        return None
    ids = {f["id"] for f in findings}
    var = result.get("variant")
    if not var or not var.get("ok"):
        return None
    o = case["opts"]
    if result.get("what") == "flatness":
        if "D18" in ids and var["name"] == "cw" and o["mode"] == "trans" and len(case["offsets"]) - 1 >= 2:
            return "D18"
        if "D17" in ids and var["name"] == "diag2" and o["ignore_diags"] == 0 and o["mode"] != "trans":
            # a non-zero diagonal entry on a retained bin of a failing domain
            ret = {i for d in result["domains"] for i in d["retained"]}
            if any(p[0] == p[1] and p[2] != 0 and p[0] in ret for p in case["pixels"]):
                return "D17"
    if result.get("what") == "masks":
        if "D17" in ids and var["name"] == "diag2" and o["ignore_diags"] == 0 and _has_diag(case):
            return "D17"
    return None


# ----------------------------------------------------------------------------------------------
# generators
# ----------------------------------------------------------------------------------------------

def _offsets(rng, n, nchroms):
    cuts = sorted(rng.sample(range(1, n), nchroms - 1)) if nchroms > 1 else []
    return [0] + cuts + [n]


def _sym_pixels(rng, n, density, vmax, diag_p, zeros_p=0.05, empty_rows=()):
    px = []
    for i in range(n):
        for j in range(i, n):
            if i in empty_rows or j in empty_rows:
                continue
            p = diag_p if i == j else density
            if rng.random() < p:
                v = 0 if rng.random() < zeros_p else rng.randint(1, vmax)
                px.append([i, j, v])
    return px


def _dpd_pixels(rng, n):
    """D*P*D with P a circulant 0/1 pattern (constant row sums), D powers of two: x0 = 1/d balances it exactly"""
    shifts = rng.sample(range(1, n), rng.randint(1, max(1, min(3, n - 1))))
    d = [2 ** rng.randint(0, 3) for _ in range(n)]
    P = set()
    for i in range(n):
        for s in shifts:
            a, b = i, (i + s) % n
            P.add((min(a, b), max(a, b)))
    px = sorted([a, b, d[a] * d[b]] for a, b in P if a != b)
    return px, [1.0 / x for x in d]


def _small_case(rng):
    n = rng.choice([2, 3, 4, 5, 5, 6, 6, 7, 7, 8, 8, 8])
    nch = rng.choice([1, 1, 2, 2, 3]) if n >= 6 else rng.randint(1, min(2, n))
    offs = _offsets(rng, n, nch)
    kind = rng.random()
    x0 = None
    vmax = rng.choice([3, 9, 9, 50, 1000])
    if kind < 0.15 and n >= 3:
        px, x0 = _dpd_pixels(rng, n)
        vmax = 8
    else:
        empty = [i for i in range(n) if rng.random() < 0.08]
        px = _sym_pixels(rng, n, rng.choice([0.5, 0.8, 1.0, 1.0]), vmax, rng.choice([0.0, 0.5, 1.0]), empty_rows=empty)
    modes = ["genome", "genome", "cis"] + (["trans"] if nch >= 2 else [])
    mode = rng.choice(modes)
    if x0 is None and rng.random() < 0.25:
        x0 = [rng.choice([1.0, 1.0, 0.5, 2.0, 0.75, 1.25, 3.0, 0.125, 0.0, None]) for _ in range(n)]
    elif x0 is not None and rng.random() < 0.3:
        x0 = [v * rng.choice([1.0, 1.0, 1.0, 2.0]) for v in x0]
    if rng.random() < 0.5:
        tol = rng.choice([1e-5, 1e-3, 1e-2, 0.1, 1.0, 10.0, 100.0, 1000.0])
    else:
        tol = float(vmax * vmax) * rng.choice([1e-6, 1e-4, 1e-3, 1e-2, 0.1, 1.0])
    opts = {"mode": mode,
            "ignore_diags": rng.choice([0, 0, 1, 1, 1, 1, 1, 2, 2, 3]),
            "min_nnz": rng.choice([0, 0, 0, 0, 1, 2, 3, 4]),
            "min_count": rng.choice([0, 0, 0, 0, 1, 3, 5, 10, 20]),
            "mad_max": rng.choice([0, 0, 0, 0, 1, 2, 3, 4, 5]),
            "blacklist": sorted(rng.sample(range(n), rng.choice([0, 0, 0, 0, 1, 2]) if n > 2 else 0)),
            "x0": x0,
            "tol": tol,
            # exact rationals grow ~4x in length per sweep: long starting values get fewer sweeps
            # (and the denominators grow with the number of pixels: dense 8-bin matrices get fewer still)
            "max_iters": rng.randint(1, max(2, (6 if len(px) <= 20 else 5 if len(px) <= 28 else 4)
                                             - (1 if (vmax > 50 or x0 is not None) else 0))),
            "rescale": rng.random() < 0.8}
    return {"n": n, "offsets": offs, "pixels": px, "opts": opts}


def _float_case(rng, nmax):
    n = rng.randint(4, nmax)
    nch = rng.randint(1, min(4, n // 2))
    offs = _offsets(rng, n, nch)
    dens = rng.choice([0.15, 0.3, 0.5, 0.8, 1.0])
    empty = [i for i in range(n) if rng.random() < 0.05]
    px = _sym_pixels(rng, n, dens, rng.choice([5, 20, 100, 100, 5000]), rng.choice([0.0, 0.8, 1.0]), zeros_p=0.02,
                     empty_rows=empty)
    r = rng.random()
    mode = "genome" if r < 0.5 else ("cis" if r < 0.85 or nch < 2 else "trans")
    opts = {"mode": mode,
            "ignore_diags": rng.choice([1, 1, 2, 2, 2, 3, 0]),
            "min_nnz": rng.choice([0, 0, 2, 5, 10]),
            "min_count": rng.choice([0, 0, 0, 10]),
            "mad_max": rng.choice([0, 0, 3, 5, 5]),
            "blacklist": sorted(rng.sample(range(n), rng.choice([0, 0, 0, 1, 3]))),
            "x0": None if rng.random() < 0.85 else [rng.choice([1.0, 1.0, 0.5, 2.0, 0.0]) * (0.5 + rng.random()) for _ in range(n)],
            "tol": rng.choice([1e-5, 1e-5, 1e-4, 1e-3, 1e-2, 0.1, 1.0]),
            "max_iters": rng.choice([30, 100, 200, 200, 200, 500]),
            "rescale": rng.random() < 0.85}
    return {"n": n, "offsets": offs, "pixels": px, "opts": opts}


def _chunk_choice(rng, c):
    """an explicit chunk size for the pixel passes (None = one chunk): 1, small, and sizes that leave a remainder of 1"""
    nnz = len(c["pixels"])
    big = [None, max(1, nnz - 1), max(1, nnz), nnz + 1, max(1, (nnz - 1) // 2), max(1, (nnz - 1) // 3), max(1, (nnz - 1) // 5)]
    if nnz * c["opts"]["max_iters"] > 2000:
        return rng.choice(big)       # every sweep reads every chunk from the file: keep long runs to a few chunks
    return rng.choice(big + [1, 2, 3, rng.randint(1, max(1, nnz))])


def _variant(rng, c):
    """the same experiment through a different route: explicit chunk size and/or a float64 count column holding
    count * 4**-k (values below 1).  Only the L0 checks (masks, flat) take it; the exact model run keeps chunksize=None
    on the integer file."""
    c2 = dict(c, opts=dict(c["opts"], chunksize=_chunk_choice(rng, c)))
    if rng.random() < 0.4:
        c2["shift"] = rng.choice([1, 2, 3])
    return c2


def _default_opts(**kw):
    o = {"mode": "genome", "ignore_diags": 1, "min_nnz": 0, "min_count": 0, "mad_max": 0, "blacklist": [], "x0": None,
         "tol": 1e-5, "max_iters": 6, "rescale": True}
    o.update(kw)
    return o


CORPUS = [
    # D17 witness (theorem diag_rowsums_not_flat): converges at the first sweep, row sums 3/4, 1, 1
    {"n": 3, "offsets": [0, 3], "pixels": [[0, 0, 1], [0, 1, 1], [0, 2, 1], [1, 2, 3]],
     "opts": _default_opts(ignore_diags=0)},
    # D18 witness (theorem trans_rowsums_not_flat): chromosomes of 1, 2, 2 bins, x0 = 1/cweights
    {"n": 5, "offsets": [0, 1, 3, 5],
     "pixels": [[0, 1, 1], [0, 2, 1], [0, 3, 1], [0, 4, 1], [1, 3, 2], [1, 4, 1], [2, 3, 1], [2, 4, 2]],
     "opts": _default_opts(mode="trans", x0=[0.8, 0.6, 0.6, 0.6, 0.6], tol=1e-3)},
    # two equal chromosomes, trans-only: flat but 1/4
    {"n": 2, "offsets": [0, 1, 2], "pixels": [[0, 1, 1]], "opts": _default_opts(mode="trans")},
    # data-less bin with every filter off keeps a finite weight (outside the property: `free`)
    {"n": 4, "offsets": [0, 4], "pixels": [[0, 1, 2], [0, 2, 2], [1, 2, 2]], "opts": _default_opts(tol=1.0)},
    # a whole chromosome without cis data (cis-only): all NaN, reported converged with scale NaN
    {"n": 5, "offsets": [0, 3, 5], "pixels": [[0, 1, 1], [0, 2, 1], [1, 2, 1], [0, 3, 4]],
     "opts": _default_opts(mode="cis", tol=1.0)},
    # min_nnz counts a diagonal pixel twice when ignore_diags = 0 (mask side of D17): bin 0 has 3 non-zeros, the code
    # counts 4 and keeps it
    {"n": 6, "offsets": [0, 6],
     "pixels": [[0, 0, 5], [0, 1, 1], [0, 2, 1]] + [[a, b, 1] for a in range(1, 6) for b in range(a + 1, 6)],
     "opts": _default_opts(ignore_diags=0, min_nnz=4, tol=1000.0)},
]


class _Quota:
    """The runner keeps at most 200 mismatching cases per run; cases that can only hit the recorded findings D17
    (ignore_diags = 0 with diagonal data) and D18 (trans-only) are therefore rationed, so that they can never crowd
    a new violation out of that list.  Beyond the quota the option is replaced by its neighbour."""

    def __init__(self, d17=110, d18=70):
        self.left = {"d17": d17, "d18": d18}

    def __call__(self, c):
        o = c["opts"]
        if o["mode"] == "trans":
            if self.left["d18"] <= 0:
                o["mode"] = "genome"
            else:
                self.left["d18"] -= 1
        if o["ignore_diags"] == 0 and _has_diag(c):
            if self.left["d17"] <= 0:
                o["ignore_diags"] = 1
            else:
                self.left["d17"] -= 1
        return c


def cases(tier, rng):
    thorough = tier == "thorough"
    ration = _Quota()
    for c in CORPUS:
        for nm in ("model", "masks", "flat"):
            yield nm, c
    yield "stored", CORPUS[0]
    yield "stored", CORPUS[4]
    # unit: filters + _marginalize
    for _ in range(600 if thorough else 120):
        n = rng.randint(1, 8)
        nch = rng.randint(1, min(3, n))
        offs = _offsets(rng, n, nch)
        px = _sym_pixels(rng, n, rng.choice([0.3, 0.7, 1.0]), 9, rng.choice([0.0, 0.5, 1.0]), zeros_p=0.1)
        fs = [f for f in ("binarize", "zero_trans", "zero_cis", "zero_diags") if rng.random() < 0.4]
        rng.shuffle(fs)
        yield "marginalize", {"n": n, "offsets": offs, "pixels": px, "filters": fs, "ignore_diags": rng.randint(0, 3)}
    # small cases: the same case is run through the unit comparison and the two top-level checks
    for k in range(5000 if thorough else 600):
        c = ration(_small_case(rng))
        yield "model", c
        if k % 2:
            c = _variant(rng, c)
        yield "masks", c
        yield "flat", c
        if k % (25 if thorough else 60) == 0:
            yield "stored", c
    # float-only runs
    for k in range(4000 if thorough else 400):
        c = ration(_float_case(rng, 40 if thorough else 28))
        if k % 2:
            c = _variant(rng, c)
        yield "run", c
        if k % (50 if thorough else 120) == 0:
            yield "stored", c
    for k in range(16 if thorough else 4):
        c = _float_case(rng, 16)
        c["opts"].update({"x0": None, "rescale": True})
        if k % 2 == 0:
            c["opts"]["blacklist"] = []
        elif not c["opts"]["blacklist"]:
            c["opts"]["blacklist"] = sorted(rng.sample(range(c["n"]), min(c["n"], 2)))
        if k % 4 >= 2:
            c = _variant(rng, c)
        yield "cli", c


def nontrivial(name, case):
    if name == "marginalize":
        return len(case["pixels"]) >= 2
    o = case["opts"]
    offs = case["offsets"]

    def chrom(i):
        return sum(1 for x in offs[1:] if x <= i)
    touched = set()
    for i, j, v in case["pixels"]:
        if v == 0 or abs(i - j) < o["ignore_diags"]:
            continue
        same = chrom(i) == chrom(j)
        if (o["mode"] == "cis" and not same) or (o["mode"] == "trans" and same):
            continue
        touched.add(i)
        touched.add(j)
    return len(touched) >= 2


def distribution(name, case):
    if name == "marginalize":
        return
    o = case["opts"]
    yield f"mode={o['mode']}"
    yield f"ignore_diags={o['ignore_diags']}"
    yield f"nchroms={len(case['offsets']) - 1}"
    yield f"filters_on={int(o['min_nnz'] > 0) + int(o['min_count'] > 0) + int(o['mad_max'] > 0) + int(bool(o['blacklist'])) + int(o['x0'] is not None)}"
    yield "chunksize=" + ("one-chunk" if not o.get("chunksize") else ("1" if o["chunksize"] == 1 else "explicit"))
    yield f"count_column={'float64 (count*4^-k)' if case.get('shift') else 'int32'}"


def shrink(name, case):
    if name == "marginalize":
        px = case["pixels"]
        for k in range(len(px)):
            yield {**case, "pixels": px[:k] + px[k + 1:]}
        for k in range(len(case["filters"])):
            yield {**case, "filters": case["filters"][:k] + case["filters"][k + 1:]}
        return
    o = case["opts"]
    px = case["pixels"]
    # neutralise options one at a time
    for key, val in (("blacklist", []), ("x0", None), ("min_nnz", 0), ("min_count", 0), ("mad_max", 0), ("rescale", True),
                     ("chunksize", None)):
        if o.get(key) != val:
            yield {**case, "opts": {**o, key: val}}
    if case.get("shift"):
        yield {k: v for k, v in case.items() if k != "shift"}
    # drop pixels (never the last one: an empty cooler is a different experiment)
    for k in range(len(px) if len(px) > 1 else 0):
        yield {**case, "pixels": px[:k] + px[k + 1:]}
    # drop the last bin when nothing refers to it
    n, offs = case["n"], case["offsets"]
    if n > 2 and offs[-1] - offs[-2] >= 1 and all(p[0] < n - 1 and p[1] < n - 1 for p in px) and not any(b == n - 1 for b in o["blacklist"]):
        no = offs[:-1] + [n - 1]
        if no[-1] == no[-2]:
            no = no[:-1]
        if len(no) >= 2 and not (o["mode"] == "trans" and len(no) < 3):
            x0 = None if o["x0"] is None else o["x0"][:-1]
            yield {"n": n - 1, "offsets": no, "pixels": px, "opts": {**o, "x0": x0}}
    # lower values
    for k in range(len(px)):
        if px[k][2] > 1:
            yield {**case, "pixels": px[:k] + [[px[k][0], px[k][1], 1]] + px[k + 1:]}


def escalate(name, case, rng):
    """the model no longer describes the code: look for an end-to-end violation (masks or flatness)"""
    if name not in ("model", "marginalize"):
        return None
    worker_init()
    from harness.common import load_findings
    findings = [f for f in load_findings() if f["property"] == PID and f["status"] == "finding"]

    def tops(c):
        r = CHECKS["run"](c)
        if isinstance(r, dict) and r.get("mismatch") and not classify("run", c, r, findings):
            return {"check": "run", "case": c, "result": r}
        return None
    cands = []
    if "opts" in case:
        cands.append(case)
        for mode in ("genome", "cis", "trans"):
            if mode == "trans" and len(case["offsets"]) < 3:
                continue
            for d in (0, 1, 2, 3):
                cands.append({**case, "opts": {**case["opts"], "mode": mode, "ignore_diags": d, "tol": 1000.0}})
                cands.append({**case, "opts": {**case["opts"], "mode": mode, "ignore_diags": d, "max_iters": 500}})
    for c in cands:
        r = tops(c)
        if r:
            return r
    for k in range(600):
        c = _small_case(rng) if k % 2 else _float_case(rng, 16)
        r = tops(c)
        if r:
            return r
    return None
