"""C19 — region and URI strings parse to exactly what they denote, or are refused."""
from __future__ import annotations

import itertools
import os
import types

from harness import gen
from harness.common import drv, errclass, guarded

PID = "C19"
THEOREMS = ["digits_roundtrip", "humanized_plain", "humanized_exact", "humanized_exact_nodot", "humanized_floor",
            "numeral_parses", "region_denotes", "region_denotes_open", "parse_name_only", "strict_parses",
            "parse_format_id", "parse_format_open", "region_refuses", "refusedClass_sound",
            "parseRegion_refuses", "parseRegion_sound", "parseRegion_accepts",
            "uri_slash", "uri_no_sep", "uri_two_sep", "uri_two_sep_any"]

LEVELS = {
    "region_sweep": "top", "region_sweep_unit": "unit",
    "numeral_sweep": "top", "humanized_unit": "unit",
    "region_grammar": "top", "format_roundtrip": "top", "parse_region": "top",
    "fetch_region": "top", "uri": "top", "uri_sweep_unit": "unit",
    "tokenize_unit": "unit", "errclass_unit": "unit", "primitives": "unit",
}
DESCRIBE = {
    "region_sweep": "cooler.util.parse_region_string on every enumerated string: where Lean L0 `strictRegion` says the string is "
                    "a well-formed region the result must be the denoted triple; where L0 `refusedClass` recognises a listed "
                    "malformed class it must raise (strings in neither class, e.g. trailing text after the end coordinate, are "
                    "left to the unit check)",
    "region_sweep_unit": "parse_region_string vs Lean L1 `parseRegionString` on every enumerated string (ok/error and value)",
    "numeral_sweep": "every enumerated string that L0 `numeralValue` reads as a coordinate numeral, used as start (`c:S-`) and as end "
                     "(`c:0-S`) of a region given to parse_region_string: the exact denoted integer must come back",
    "humanized_unit": "cooler.util.parse_humanized vs Lean L1 `parseHumanized` on every enumerated string (ok/error and value)",
    "region_grammar": "generated well-formed regions (names with - . digits inner blanks; numerals plain / with commas / decimal "
                      "multiples of k,M,G denoting integers, incl. ones whose float product is inexact): parse_region_string "
                      "must return the L0 meaning computed by Lean from the parts",
    "format_roundtrip": "parse_region_string('{}:{}-{}'.format(c, s, e)) == (c, s, e) (and the open-ended form), text = Lean `formatRegion`",
    "parse_region": "cooler.util.parse_region(reg, chromsizes) vs Lean `parseRegion` (defaults, reversed, negative, beyond the "
                    "chromosome, unknown chromosome, missing end without sizes); dict and pandas.Series lookups",
    "fetch_region": "Cooler.extent(region) and Cooler.bins().fetch(region) on a created cooler with 1-bp bins (bin id = coordinate): the "
                    "selected range must be the [start, end) Lean `parseRegion` gives for the file's chromosome sizes, or the call must raise",
    "uri": "parse_cooler_uri(f::g) == parse_cooler_uri(f::/g) == (f, '/'+g), file only -> (f, '/'), two separators -> error",
    "uri_sweep_unit": "parse_cooler_uri vs Lean `parseCoolerUri` on every string over {a / : .}",
    "tokenize_unit": "the nested `_tokenize` of parse_region_string (regex finditer) vs Lean `tokenize`",
    "errclass_unit": "exception class of refusals (ValueError) vs the model's error value",
    "primitives": "model primitives vs Python builtins: digitsOf = str, natOfDigits = int, character classes = str.isspace / regex classes / str.upper on ASCII",
}
RULE = ("parse_region_string: EVERY string of length <= 6 (quick) / <= 7 (thorough) over the 12 characters `c 1 0 5 , . - : k M x space` "
        "(3.3e6 / 3.9e7 strings) and every string of length <= 5 / <= 6 over the 11 characters `1 - : \\n \\t space x K . \\x1c \\r`; "
        "parse_humanized and numerals inside a region: EVERY string of length <= 6 / <= 7 over the 11 characters `1 0 5 , . k M G b x space`; "
        "the nested tokenizer on the first alphabet up to length 5 / 6 and on the second up to 5 / 6; parse_cooler_uri: every string of length <= 9 / <= 11 over `a / : .`; "
        "plus seeded grammars: well-formed regions (values up to 2^62, units in every case spelling, fractions up to the unit's digits, "
        "a fixed corpus of float-inexact numerals 1.005k 4.35k 0.29M 8.7k ...), malformed strings by class, format->parse round trips, "
        "parse_region against size tables (dict and Series), region strings through Cooler.extent/bins().fetch on a 1-bp-bin cooler, "
        "URI spellings. A sweep case is one chunk of <= 1885 strings (prefix + all suffixes of length 3); non-trivial = every chunk / "
        "grammar case with a unit or comma; distinct by canonical JSON")
EXHAUSTIVE = {"quick": True, "thorough": True}
TRUSTED = ["Python `re` (finditer/split semantics), `str.split/strip/upper/replace`, `int()` and `decimal.Decimal` are primitives "
           "whose behaviour the hand-written scanner/number model restates; the exhaustive sweeps are what ties them together",
           "`_tokenize` is reached through the code constants of parse_region_string (skipped if it is no longer a nested function)"]
ASSUMPTIONS = ["ASCII input: under IGNORECASE `[a-z]` also matches U+0130 U+0131 U+017F U+212A, and str.strip/`\\s`/str.upper know "
               "non-ASCII blanks and case pairs; the model's character classes are the ASCII restrictions",
               "numerals with at most 28 significant digits (default decimal context precision: beyond it Decimal multiplication "
               "rounds) and fewer than 4300 digits (CPython int/str conversion limit); coordinates denoting integers up to 2^62 "
               "times a unit stay within 28 digits",
               "chromsizes is a mapping from str to non-negative int (dict or pandas.Series)"]
CHUNK = 4

ALPHA = {
    "R": "c105,.-:kMx ",
    "W": "1-:\n\t xK.\x1c\r",
    "H": "105,.kMGbx ",
    "U": "a/:.",
}
SUFFIX = 3


def worker_init():
    global util
    from cooler import util  # noqa


# ----------------------------------------------------------------------------------------------
# enumeration
# ----------------------------------------------------------------------------------------------

def chunk_strings(case):
    if "strings" in case:
        return list(case["strings"])
    a, p, k = ALPHA[case["alpha"]], case["prefix"], case["k"]
    out = []
    for n in (range(k + 1) if case.get("upto") else (k,)):
        out.extend(p + "".join(t) for t in itertools.product(a, repeat=n))
    return out


def sweep_cases(name, alpha, maxlen):
    k = min(SUFFIX, maxlen)
    yield name, {"alpha": alpha, "prefix": "", "k": k, "upto": True}
    for n in range(k + 1, maxlen + 1):
        for t in itertools.product(ALPHA[alpha], repeat=n - k):
            yield name, {"alpha": alpha, "prefix": "".join(t), "k": k}


def _triple(v):
    return [v[0], None if v[1] is None else int(v[1]), None if v[2] is None else int(v[2])]


def _impl_region(s):
    o = guarded(util.parse_region_string, s)
    return "E" if o[0] == "err" else _triple(o[1])


def _impl_humanized(s):
    o = guarded(util.parse_humanized, s)
    return "E" if o[0] == "err" else int(o[1])


# ----------------------------------------------------------------------------------------------
# checks
# ----------------------------------------------------------------------------------------------

def _region_sweep(case):
    ss = chunk_strings(case)
    res = drv().ask("C19.region_batch", strings=ss)["results"]
    st = {"strings": len(ss), "wellformed": 0, "refused": 0, "unspecified": 0}
    for s, (model, strict, refused) in zip(ss, res):
        if strict is not None:
            if refused is not None or model != strict:
                raise AssertionError(f"L1 != L0 on {s!r}: model={model} strict={strict} refused={refused}")
            st["wellformed"] += 1
            impl = _impl_region(s)
            if impl != strict:
                return {"mismatch": True, "string": s, "impl": impl, "l0": strict, "kind": "well-formed region"}
        elif refused is not None:
            if model != "E":
                raise AssertionError(f"L1 accepts a string L0 lists as malformed: {s!r} model={model} class={refused}")
            st["refused"] += 1
            st["refused." + refused] = st.get("refused." + refused, 0) + 1
            impl = _impl_region(s)
            if impl != "E":
                return {"mismatch": True, "string": s, "impl": impl, "l0": "refused", "class": refused}
        else:
            st["unspecified"] += 1
    return {"stats": st}


def _region_sweep_unit(case):
    ss = chunk_strings(case)
    res = drv().ask("C19.region_batch", strings=ss)["results"]
    for s, r in zip(ss, res):
        impl = _impl_region(s)
        if impl != r[0]:
            return {"mismatch": True, "string": s, "impl": impl, "model": r[0]}
    return {"stats": {"strings": len(ss)}}


def _numeral_sweep(case):
    ss = chunk_strings(case)
    res = drv().ask("C19.humanized_batch", strings=ss)["results"]
    n = 0
    for s, (model, l0) in zip(ss, res):
        if l0 is None:
            continue
        if model != l0:
            raise AssertionError(f"L1 != L0 on numeral {s!r}: model={model} l0={l0}")
        n += 1
        a = _impl_region("c:" + s + "-")
        b = _impl_region("c:0-" + s)
        if a != ["c", l0, None] or b != ["c", 0, l0]:
            return {"mismatch": True, "string": s, "impl_as_start": a, "impl_as_end": b, "l0": l0}
    return {"stats": {"strings": len(ss), "numerals": n}}


def _humanized_unit(case):
    ss = chunk_strings(case)
    res = drv().ask("C19.humanized_batch", strings=ss)["results"]
    for s, r in zip(ss, res):
        impl = _impl_humanized(s)
        if impl != r[0]:
            return {"mismatch": True, "string": s, "impl": impl, "model": r[0]}
    return {"stats": {"strings": len(ss)}}


def _float_inexact(p):
    """distribution only: would float scaling truncate this numeral wrongly?"""
    if not p or not p["unit"] or p["frac"] is None:
        return False
    u = {"K": 3, "M": 6, "G": 9}[p["unit"][0].upper()]
    i = p["int"].replace(",", "")
    f = p["frac"]
    return int(float(i + "." + f) * 10 ** u) != int(i + f) * 10 ** (u - len(f))


def _region_grammar(case):
    m = drv().ask("C19.region", chrom=case["chrom"], start=case["start"], end=case["end"])
    if m["l0"] is None:
        raise AssertionError(f"generator produced parts without an L0 meaning: {case}")
    if m["model"] != m["l0"] or m["l0_recognised"] != m["l0"] or m["refused"] is not None:
        raise AssertionError(f"L1 != L0 on {m['text']!r}: {m}")
    impl = _impl_region(m["text"])
    if impl != m["l0"]:
        return {"mismatch": True, "string": m["text"], "impl": impl, "l0": m["l0"]}
    st = {"cases": 1}
    if _float_inexact(case["start"]) or _float_inexact(case["end"]):
        st["float_inexact_numeral"] = 1
    return {"stats": st}


def _format_roundtrip(case):
    c, s, e = case["chrom"], case["start"], case["end"]
    m = drv().ask("C19.format", chrom=c, start=s, end=e)
    text = "{}:{}-{}".format(c, s, e) if e is not None else "{}:{}-".format(c, s)
    if text != m["text"]:
        raise AssertionError(f"formatRegion differs from Python formatting: {text!r} vs {m['text']!r}")
    if not m["hyp"]:
        raise AssertionError(f"generator produced a region outside the hypotheses of parse_format_id: {case}")
    if m["model"] != m["l0"] or m["l0_recognised"] != m["l0"]:
        raise AssertionError(f"theorem parse_format_id contradicted by evaluation: {m}")
    impl = _impl_region(text)
    if impl != m["l0"]:
        return {"mismatch": True, "string": text, "impl": impl, "l0": m["l0"]}
    return None


def _parse_region(case):
    reg, cs = case["reg"], case["chromsizes"]
    m = drv().ask("C19.parse_region", reg=reg, chromsizes=cs)
    if not m["contract"]:
        raise AssertionError(f"theorem parseRegion_sound contradicted by evaluation: {case} {m}")
    if cs is None:
        sizes = None
    elif case.get("series"):
        import pandas as pd
        sizes = pd.Series([v for _, v in cs], index=[k for k, _ in cs], dtype="int64")
    else:
        sizes = dict((k, v) for k, v in cs)
    arg = reg if isinstance(reg, str) else tuple(reg)
    o = guarded(util.parse_region, arg, sizes)
    impl = "E" if o[0] == "err" else [o[1][0], int(o[1][1]), int(o[1][2])]
    if impl != m["model"]:
        return {"mismatch": True, "impl": impl, "model": m["model"]}
    return {"stats": {"refused" if impl == "E" else "accepted": 1}}


FETCH_SIZES = [["chr1", 3000], ["chr 2-b.1", 2000]]


def _fetch_region(case):
    import cooler
    import numpy as np
    import pandas as pd
    names = [n for n, _ in FETCH_SIZES]
    bins = pd.concat([pd.DataFrame({"chrom": n, "start": np.arange(L, dtype=np.int64), "end": np.arange(L, dtype=np.int64) + 1})
                      for n, L in FETCH_SIZES], ignore_index=True)
    bins["chrom"] = pd.Categorical(bins["chrom"], categories=names, ordered=True)
    px = pd.DataFrame({"bin1_id": np.array([0], dtype=np.int64), "bin2_id": np.array([0], dtype=np.int64),
                       "count": np.array([1], dtype=np.int32)})
    path = os.path.join(gen.tmpdir(), f"c19-{os.getpid()}.cool")
    cooler.create_cooler(path, bins, px)
    try:
        c = cooler.Cooler(path)
        offs, o = {}, 0
        for n, L in FETCH_SIZES:
            offs[n] = o
            o += L
        for reg in case["regions"]:
            m = drv().ask("C19.parse_region", reg=reg, chromsizes=FETCH_SIZES)["model"]
            arg = reg if isinstance(reg, str) else tuple(reg)
            o1 = guarded(c.extent, arg)
            o2 = guarded(lambda a: c.bins().fetch(a), arg)
            if o1[0] == "err" or o2[0] == "err":
                impl = "E" if (o1[0] == "err" and o2[0] == "err") else ["inconsistent", str(o1), str(o2)[:80]]
            else:
                lo, hi = int(o1[1][0]), int(o1[1][1])
                df = o2[1]
                chroms = sorted({str(x) for x in df["chrom"]})
                impl = {"extent": [lo, hi], "nbins": len(df), "chroms": chroms,
                        "span": [int(df["start"].iloc[0]), int(df["end"].iloc[-1])] if len(df) else None}
            if m == "E":
                want = "E"
            else:
                cn, a, b = m
                want = {"extent": [offs[cn] + a, offs[cn] + b], "nbins": b - a, "chroms": [cn] if b > a else [],
                        "span": [a, b] if b > a else None}
            if impl != want:
                return {"mismatch": True, "region": reg, "impl": impl, "expected_from_model": want}
    finally:
        if os.path.exists(path):
            os.unlink(path)
    return None


def _impl_uri(s):
    o = guarded(util.parse_cooler_uri, s)
    return "E" if o[0] == "err" else [o[1][0], o[1][1]]


def _uri(case):
    f, g = case["file"], case["group"]
    m = drv().ask("C19.uri_parts", file=f, group=g)
    if not m["hyp"]:
        raise AssertionError(f"generator produced parts outside the hypotheses of uri_slash: {case}")
    if m["model_bare"] != m["l0"] or m["model_slash"] != m["l0"] or m["model_file_only"] != m["l0_file_only"]:
        raise AssertionError(f"theorem uri_slash contradicted by evaluation: {m}")
    got = {"bare": _impl_uri(m["bare"]), "slash": _impl_uri(m["slash"]), "file_only": _impl_uri(f)}
    want = {"bare": m["l0"], "slash": m["l0"], "file_only": m["l0_file_only"]}
    # two separators
    third = case.get("third")
    if third is not None:
        s3 = m["bare"] + "::" + third
        m3 = drv().ask("C19.uri", s=s3)
        if m3["model"] != "E":
            raise AssertionError(f"theorem uri_two_sep contradicted by evaluation: {s3!r}")
        got["two_separators"] = _impl_uri(s3)
        want["two_separators"] = "E"
    if got != want:
        return {"mismatch": True, "impl": got, "l0": want}
    return None


def _uri_sweep_unit(case):
    for s in chunk_strings(case):
        m = drv().ask("C19.uri", s=s)
        impl = _impl_uri(s)
        if impl != m["model"]:
            return {"mismatch": True, "string": s, "impl": impl, "model": m["model"]}
    return None


_TOK = False


def _tokenizer():
    """the nested generator function `_tokenize` of parse_region_string, rebuilt from its code object"""
    global _TOK
    if _TOK is False:
        _TOK = None
        f = util.parse_region_string
        for c in f.__code__.co_consts:
            if isinstance(c, types.CodeType) and c.co_name == "_tokenize" and not c.co_freevars:
                _TOK = types.FunctionType(c, f.__globals__)
    return _TOK


def _tokenize_unit(case):
    tok = _tokenizer()
    if tok is None:
        return {"stats": {"tokenizer_not_reachable": 1}}
    for s in chunk_strings(case):
        impl = [[t, x] for t, x in tok(s)]
        m = drv().ask("C19.tokenize", s=s)["tokens"]
        if impl != m:
            return {"mismatch": True, "string": s, "impl": impl, "model": m}
    return None


def _errclass_unit(case):
    fn = getattr(util, case["fn"])
    for s in case["strings"]:
        try:
            fn(s)
            impl = None
        except Exception as e:  # noqa
            impl = errclass(e)
        m = drv().ask("C19.errclass", s=s, fn=case["fn"])["err"]
        if impl != m:
            return {"mismatch": True, "string": s, "impl": impl, "model": m}
    return None


def _primitives(case):
    """not about cooler: a disagreement here is a defect of the model's restated primitives"""
    import re
    if case.get("chars"):
        m = drv().ask("C19.chars")
        cs = [chr(i) for i in range(128)]
        want = {"space": [i for i, c in enumerate(cs) if c.isspace()],
                "letter": [i for i, c in enumerate(cs) if re.fullmatch("[a-z]", c, re.I)],
                "digit": [i for i, c in enumerate(cs) if re.fullmatch("[0-9]", c)],
                "newline": [i for i, c in enumerate(cs) if not re.fullmatch(".", c)],
                "upper": [ord(c.upper()) for c in cs]}
        if [i for i, c in enumerate(cs) if re.fullmatch(r"\s", c)] != want["space"]:
            raise AssertionError("regex \\s and str.isspace differ on ASCII")
        if m != want:
            raise AssertionError(f"character classes differ: {m} vs {want}")
        return None
    for n in case["ns"]:
        m = drv().ask("C19.digits", n=n, s=str(n))
        if m["digits"] != str(n) or m["nat"] != n or not m["all_digits"]:
            raise AssertionError(f"digitsOf/natOfDigits differ from str/int on {n}: {m}")
    for s in case.get("digit_strings", []):
        m = drv().ask("C19.digits", n=0, s=s)
        if m["nat"] != int(s):
            raise AssertionError(f"natOfDigits differs from int on {s!r}: {m}")
    return None


CHECKS = {"region_sweep": _region_sweep, "region_sweep_unit": _region_sweep_unit, "numeral_sweep": _numeral_sweep,
          "humanized_unit": _humanized_unit, "region_grammar": _region_grammar, "format_roundtrip": _format_roundtrip,
          "parse_region": _parse_region, "fetch_region": _fetch_region, "uri": _uri, "uri_sweep_unit": _uri_sweep_unit, "tokenize_unit": _tokenize_unit,
          "errclass_unit": _errclass_unit, "primitives": _primitives}


# ----------------------------------------------------------------------------------------------
# generators
# ----------------------------------------------------------------------------------------------

NAMES = ["chr1", "c", "1", "2L", "X", "chrUn_gl000220", "HLA-DRB1*01", "scaffold 12", "chr1.1-x", "a-b", "1-2", "5.5k",
         "chr 2-b.1", "NC_000001.11", "contig-0.5", "-", ".", "k", "1,000", "a b  c", "chr1|alt", "1-", "-1", "0"]
UNITS = {3: ["k", "K", "kb", "Kb", "KB", "kB"], 6: ["m", "M", "mb", "Mb", "MB", "mB"], 9: ["g", "G", "gb", "Gb", "GB", "gB"]}
# numerals whose float64 product with the unit truncates to the wrong integer (int, frac, unit)
INEXACT = [("1", "005", "k"), ("4", "35", "k"), ("0", "29", "M"), ("8", "7", "k"), ("1", "15", "k"), ("2", "675", "M"),
           ("0", "57", "k"), ("1", "001", "K"), ("9", "95", "kb"), ("32", "9", "M"), ("0", "000000005", "G"),
           ("4", "35", "Mb"), ("1", "0000005", "g"), ("16", "1", "k"), ("1", "1", "K"), ("64", "1", "m")]


def rand_name(rng):
    if rng.random() < 0.5:
        return rng.choice(NAMES)
    n = rng.randint(1, 10)
    body = "".join(rng.choice("abcXYZchr0123459-._ |*+,kM") for _ in range(n))
    body = body.strip()
    if not body:
        body = "q"
    return body


def with_commas(digits, rng):
    mode = rng.random()
    if mode < 0.5:  # proper thousands grouping
        out = ""
        for i, ch in enumerate(reversed(digits)):
            if i and i % 3 == 0:
                out = "," + out
            out = ch + out
        return out
    out = digits[0]  # commas anywhere after the first digit
    for ch in digits[1:]:
        if rng.random() < 0.3:
            out += ","
        out += ch
    if rng.random() < 0.1:
        out += ","
    return out


def rand_numeral(rng, lo=0, hi=2 ** 62):
    """parts of a numeral denoting an integer in [lo, hi] and that integer"""
    span = rng.choice([10, 1000, 10 ** 6, 10 ** 9, 2 ** 40, hi - lo + 1])
    v = lo + rng.randrange(min(span, hi - lo + 1))
    style = rng.random()
    if style < 0.25:
        return {"int": str(v), "frac": None, "unit": ""}, v
    if style < 0.45:
        return {"int": with_commas(str(v), rng), "frac": None, "unit": ""}, v
    u = rng.choice([3, 6, 9])
    unit = rng.choice(UNITS[u])
    if rng.random() < 0.2 and lo <= (v // 10 ** u) * 10 ** u:
        v = (v // 10 ** u) * 10 ** u  # a whole multiple of the unit
    i, rest = divmod(v, 10 ** u)
    f = str(rest).rjust(u, "0").rstrip("0")
    if rng.random() < 0.3:  # keep some trailing zeros
        f = str(rest).rjust(u, "0")[: rng.randint(len(f), u)]
    istr = str(i) if rng.random() < 0.7 else with_commas(str(i), rng)
    if rng.random() < 0.15:
        istr = "0" * rng.randint(1, 2) + istr
    if f == "" and rng.random() < 0.7:
        return {"int": istr, "frac": None, "unit": unit}, v
    return {"int": istr, "frac": f, "unit": unit}, v


def _meaning(parts):
    """value of generated parts (generator bookkeeping for ordering start <= end; not an oracle)"""
    i = int(parts["int"].replace(",", ""))
    if not parts["unit"]:
        return i
    u = {"K": 3, "M": 6, "G": 9}[parts["unit"][0].upper()]
    f = parts["frac"] or ""
    return i * 10 ** u + (int(f) if f else 0) * 10 ** (u - len(f))


def grammar_cases(rng, n):
    for i, f, u in INEXACT:
        a = {"int": i, "frac": f, "unit": u}
        yield "region_grammar", {"chrom": "chr1", "start": a, "end": None}
        yield "region_grammar", {"chrom": "chr1", "start": {"int": "0", "frac": None, "unit": ""}, "end": a}
        yield "region_grammar", {"chrom": "chr1", "start": a, "end": {"int": str(int(i) + 1), "frac": None, "unit": u.upper()}}
    for _ in range(n):
        a, va = rand_numeral(rng)
        r = rng.random()
        if r < 0.2:
            b = None
        else:
            b, vb = rand_numeral(rng, lo=va) if rng.random() < 0.7 else rand_numeral(rng)
            if vb < va:
                a, b = b, a
        yield "region_grammar", {"chrom": rand_name(rng), "start": a, "end": b}


def malformed_strings(rng, n):
    fixed = ["", ":", ":1-2", "  :1-2", " \t:5-", "::", " ", "c:5", "c:", "c: ", "c:1,000 2,000", "c:1k", "chr1:1000",
             "c:-5-10", "c:-5", "c: -1-2", "c:1--5", "c:abc-5", "c:x1-2", "c:1-abc", "c:.5k-2k", "c:1-.5", "c:10-5",
             "c:2k-1,999", "c:1.005k-1004", "c:1x-2", "c:1-2x", "c:1.5kbp-2M", "c:5t-6t", "c:1kk-2", "c:1bp-2bp",
             "chr1:1e3-2e3", "chr1:0x10-0x20", "chr1:1k-1", "chr1:5M-4,999,999", "c:1.2.3k-5M", "c:1..2k-5M", "c:,-5", "c:1-,"]
    for s in fixed:
        yield s
    for _ in range(n):
        name = rand_name(rng)
        a, va = rand_numeral(rng, hi=10 ** 12)
        b, vb = rand_numeral(rng, lo=va + 1, hi=10 ** 12 + 5)
        A = a["int"] + ("." + a["frac"] if a["frac"] is not None else "") + a["unit"]
        B = b["int"] + ("." + b["frac"] if b["frac"] is not None else "") + b["unit"]
        junk = rng.choice(["x", "bp", "kk", "t", "Kbp", "e3", "q"])
        word = rng.choice(["abc", "start", "x1", ".5", "$", "p"])
        yield rng.choice([
            " " * rng.randint(0, 2) + ":" + A + "-" + B,          # empty name
            name + ":" + A, name + ":" + A + " " + B, name + ":",   # missing hyphen
            name + ":-" + A + "-" + B, name + ":" + A + "--" + B,   # negative
            name + ":" + word + "-" + B, name + ":" + A + "-" + word,  # non-numeric
            name + ":" + B + "-" + A,                               # reversed
            name + ":" + a["int"] + junk + "-" + B, name + ":" + A + "-" + b["int"] + junk,  # unknown unit
        ])


def parse_region_cases(rng, n):
    tables = [
        [["chr1", 1000], ["chr2", 500], ["chr 2-b.1", 2 ** 40], ["X", 1], ["empty", 0]],
        [["c", 10 ** 9], ["1", 1005], ["a-b", 2 ** 62]],
    ]
    fixed = []
    for cs in tables:
        for name, L in cs:
            fixed += [name, f"{name}:0-{L}", f"{name}:0-{L + 1}", f"{name}:{L}-{L}", f"{name}:{L}-", f"{name}:{L + 1}-",
                      [name, None, None], [name, 0, None], [name, None, L], [name, None, L + 1], [name, L, L], [name, L + 1, None],
                      [name, -1, None], [name, -1, L], [name, 5, 4], [name, 0, 0], f"{name}:1.005k-", f"{name}:0-1.005k",
                      f"{name}:0-1.006k"]
        fixed += ["nope", "nope:0-1", ["nope", None, None], ["nope", 0, 1], "", ":", "chr1:5", "CHR1", "chr1:10-5"]
    for cs in tables:
        for reg in fixed:
            for series in (False, True):
                yield "parse_region", {"reg": reg, "chromsizes": cs, "series": series}
    for reg in ["chr1:5-10", "chr1:5-", "chr1", ["chr1", None, None], ["chr1", 5, None], ["chr1", None, 7], ["chr1", 3, 7],
                ["chr1", -3, 7], ["chr1", 7, 3], "q:1.005k-2k", "q:2k-1k", ["q", 0, 2 ** 62]]:
        yield "parse_region", {"reg": reg, "chromsizes": None}
    for _ in range(n):
        cs = rng.choice(tables)
        name, L = rng.choice(cs)
        if rng.random() < 0.1:
            name = rand_name(rng)
        s = rng.choice([None, 0, 1, L - 1, L, L + 1, rng.randint(0, max(L, 1)), -rng.randint(1, 5)])
        e = rng.choice([None, 0, 1, L - 1, L, L + 1, rng.randint(0, max(L, 1)), rng.randint(L, 2 * L + 2)])
        if rng.random() < 0.5:
            yield "parse_region", {"reg": [name, s, e], "chromsizes": cs, "series": rng.random() < 0.3}
        else:
            s2 = 0 if s is None or s < 0 else s
            a, _ = rand_numeral(rng, lo=s2, hi=s2)
            A = a["int"] + ("." + a["frac"] if a["frac"] is not None else "") + a["unit"]
            if e is None or e < 0:
                text = f"{name}:{A}-"
            else:
                b, _ = rand_numeral(rng, lo=e, hi=e)
                text = f"{name}:{A}-" + b["int"] + ("." + b["frac"] if b["frac"] is not None else "") + b["unit"]
            yield "parse_region", {"reg": text, "chromsizes": cs, "series": rng.random() < 0.3}


def _text(p):
    return p["int"] + ("." + p["frac"] if p["frac"] is not None else "") + p["unit"]


def fetch_cases(rng, n):
    yield "fetch_region", {"regions": ["chr1:1.005k-1.1k", "chr1:1.005k-", "chr1:0-1.005k", "chr 2-b.1:0.29k-1.15k", "chr1:2.675k-3k",
                                       "chr1:3k-3k", "chr1:0-3,000", "chr1:0-3,001", "chr 2-b.1:1.999k-2K", "chr 2-b.1:0-2.001k",
                                       "chr1", "chr 2-b.1", "chr3", "chr3:0-1", "chr1:5", "chr1:10-5", ":1-2", "chr1:-1-5", "chr1:1x-5",
                                       ["chr1", None, None], ["chr1", 5, None], ["chr1", None, 7], ["chr1", 2999, 3000], ["chr1", 0, 3001],
                                       ["chr1", -1, 5], ["chr 2-b.1", 7, 3], ["nope", 0, 1]]}
    for _ in range(n):
        regs = []
        for _ in range(12):
            name, L = rng.choice(FETCH_SIZES)
            a, va = rand_numeral(rng, lo=0, hi=L)
            b, vb = rand_numeral(rng, lo=va, hi=L + (1 if rng.random() < 0.15 else 0))
            regs.append(rng.choice([f"{name}:{_text(a)}-{_text(b)}", f"{name}:{_text(a)}-", f"{name}:{_text(a)}-{_text(b)}"]))
        yield "fetch_region", {"regions": regs}


URI_FILES = ["a.cool", "/p/q.mcool", "C:\\x\\y.cool", "dir:name.cool", "", "./x", "a b.cool", "x.cool:", "http://h/x.cool"]
URI_GROUPS = ["", "a", "a/b", "resolutions/1000", "resolutions/1000/", ":g", "a:b", "a/", "cells/c 1", "0"]


def uri_cases(rng, n):
    for f in URI_FILES:
        if f.endswith(":"):
            continue
        for g in URI_GROUPS:
            yield "uri", {"file": f, "group": g, "third": None}
            yield "uri", {"file": f, "group": g, "third": rng.choice(["", "x", "/x", "a/b"])}
    for _ in range(n):
        f = "".join(rng.choice("ab/.: \\-_") for _ in range(rng.randint(0, 12)))
        g = "".join(rng.choice("ab/.: -_0") for _ in range(rng.randint(0, 12)))
        if "::" in f + ":" or "::" in g or g.startswith("/"):
            continue
        yield "uri", {"file": f, "group": g, "third": rng.choice([None, "", "z", "/z"])}


def cases(tier, rng):
    thorough = tier == "thorough"
    yield "primitives", {"chars": True}
    yield "primitives", {"ns": [0, 1, 9, 10, 99, 100, 1005, 2 ** 31, 2 ** 62, 2 ** 64, 10 ** 30] +
                         [rng.randrange(2 ** rng.randint(1, 70)) for _ in range(200)],
                         "digit_strings": ["0", "007", "000", "1005", "0" * 30 + "1"]}
    # corpus + grammars first (cheap, and they carry the minimised past failure 1.005k)
    yield from grammar_cases(rng, 6000 if thorough else 1200)
    mal = list(malformed_strings(rng, 6000 if thorough else 1200))
    for i in range(0, len(mal), 200):
        yield "region_sweep", {"strings": mal[i:i + 200]}
        yield "region_sweep_unit", {"strings": mal[i:i + 200]}
    for _ in range(3000 if thorough else 600):
        s = rng.choice([0, 1, 999, 1000, rng.randrange(2 ** 31), rng.randrange(2 ** 62)])
        e = rng.choice([None, s, s + 1, s + rng.randrange(2 ** 20), rng.randrange(s, 2 ** 62 + 1)])
        yield "format_roundtrip", {"chrom": rand_name(rng).replace(":", "_"), "start": s, "end": e}
    yield from parse_region_cases(rng, 3000 if thorough else 600)
    yield from fetch_cases(rng, 150 if thorough else 30)
    yield from uri_cases(rng, 2000 if thorough else 400)
    for fn, ss in (("parse_region_string", mal[:300]),
                   ("parse_humanized", ["", "k", "1.5", "1.2.3k", ".", ".k", "1x", "1 2", "1k2", "1,0,", "1.0", " 1k", "1 kb", "1k b",
                                        "x1k", "1kk", "5", "1.005k", ",", ",k"]),
                   ("parse_cooler_uri", ["a::b::c", "::::", "a", "a::b", ":::::", "a:::b::c"])):
        yield "errclass_unit", {"fn": fn, "strings": ss}
    # exhaustive sweeps
    yield from sweep_cases("uri_sweep_unit", "U", 11 if thorough else 9)
    rmax, wmax, hmax = (7, 6, 7) if thorough else (6, 5, 6)
    for name in ("region_sweep", "region_sweep_unit"):
        yield from sweep_cases(name, "R", rmax)
        yield from sweep_cases(name, "W", wmax)
    yield from sweep_cases("tokenize_unit", "R", rmax - 1)
    yield from sweep_cases("tokenize_unit", "W", wmax)
    for name in ("numeral_sweep", "humanized_unit"):
        yield from sweep_cases(name, "H", hmax)


# ----------------------------------------------------------------------------------------------
# reporting helpers
# ----------------------------------------------------------------------------------------------

def nontrivial(name, case):
    if name == "region_grammar":
        for p in (case["start"], case["end"]):
            if p and (p["unit"] or "," in p["int"]):
                return True
        return False
    if name == "format_roundtrip":
        return case["chrom"] not in ("c", "chr1")
    return True


def distribution(name, case):
    if name == "region_grammar":
        for p in (case["start"], case["end"]):
            if p is None:
                yield "grammar.open_end"
            elif p["unit"]:
                yield "grammar.unit=" + p["unit"][0].upper() + (".frac" if p["frac"] is not None else "")
            elif "," in p["int"]:
                yield "grammar.commas"
            else:
                yield "grammar.plain"


def _first_failing_string(name, case):
    r = CHECKS[name](case)
    if isinstance(r, dict) and r.get("mismatch") and "string" in r:
        return r["string"]
    return None


def shrink(name, case):
    if name in ("region_sweep", "region_sweep_unit", "numeral_sweep", "humanized_unit", "uri_sweep_unit", "tokenize_unit",
                "errclass_unit"):
        ss = case.get("strings")
        if ss is None or len(ss) > 1:
            s = _first_failing_string(name, case)
            if s is not None:
                c = {"strings": [s]}
                if "fn" in case:
                    c["fn"] = case["fn"]
                yield c
            return
        s = ss[0]
        for i in range(len(s)):  # drop one character
            c = {"strings": [s[:i] + s[i + 1:]]}
            if "fn" in case:
                c["fn"] = case["fn"]
            yield c
    elif name == "region_grammar":
        if case["chrom"] != "c":
            yield dict(case, chrom="c")
        if case["end"] is not None:
            yield dict(case, end=None)
            yield dict(case, start={"int": "0", "frac": None, "unit": ""})
        for key in ("start", "end"):
            p = case[key]
            if p is None:
                continue
            if "," in p["int"]:
                yield dict(case, **{key: dict(p, int=p["int"].replace(",", ""))})
            if len(p["int"]) > 1 and case["end"] is None:
                yield dict(case, **{key: dict(p, int=p["int"][-1:])})
            if len(p["unit"]) > 1:
                yield dict(case, **{key: dict(p, unit=p["unit"][0])})
    elif name == "format_roundtrip":
        if case["chrom"] != "c":
            yield dict(case, chrom="c")
        if case["end"] is not None:
            yield dict(case, end=None)
            yield dict(case, start=0)
            if case["end"] > case["start"]:
                yield dict(case, end=case["start"])
        if case["start"] > 9:
            yield dict(case, start=case["start"] // 10, end=None if case["end"] is None else max(case["end"], case["start"] // 10))
    elif name == "parse_region":
        cs = case["chromsizes"]
        if cs is not None and len(cs) > 1:
            for i in range(len(cs)):
                yield dict(case, chromsizes=cs[:i] + cs[i + 1:])
        if case.get("series"):
            yield dict(case, series=False)
    elif name == "fetch_region":
        if len(case["regions"]) > 1:
            r = CHECKS[name](case)
            if isinstance(r, dict) and r.get("mismatch"):
                yield {"regions": [r["region"]]}
    elif name == "uri":
        if case.get("third") is not None:
            yield dict(case, third=None)
        for key in ("file", "group"):
            s = case[key]
            for i in range(len(s)):
                yield dict(case, **{key: s[:i] + s[i + 1:]})


def escalate(name, case, rng):
    """a unit of the decomposition stopped checking: look for an end-to-end (top-level) failing input nearby"""
    worker_init()
    ss = case.get("strings") or (chunk_strings(case) if "alpha" in case else [])
    cands = []
    if name in ("humanized_unit", "tokenize_unit"):
        for s in ss[:50]:
            t = s.strip()
            cands += [("numeral_sweep", {"strings": [t]}), ("numeral_sweep", {"strings": [s]}),
                      ("region_sweep", {"strings": ["c:" + s, "c:" + s + "-", "c:" + s + "-" + s, "c:0-" + s, "c:" + t + "-", s]})]
    elif name == "region_sweep_unit":
        cands += [("region_sweep", {"strings": ss[:2000]})]
    elif name == "uri_sweep_unit":
        for s in ss[:50]:
            for i in range(len(s) - 1):
                if s[i:i + 2] != "::":
                    continue
                f, g = s[:i], s[i + 2:].lstrip("/")
                if "::" in f + ":" or "::" in g:
                    continue
                cands.append(("uri", {"file": f, "group": g, "third": None}))
        cands += [("uri", {"file": f, "group": g, "third": None}) for f in URI_FILES if not f.endswith(":") for g in URI_GROUPS]
    elif name == "errclass_unit":
        return None
    cands += list(itertools.islice(grammar_cases(rng, 3000), 6000))
    for nm, c in cands:
        try:
            r = CHECKS[nm](c)
        except AssertionError:
            continue
        if isinstance(r, dict) and r.get("mismatch"):
            for small in shrink(nm, c):
                r2 = CHECKS[nm](small)
                if isinstance(r2, dict) and r2.get("mismatch"):
                    return {"check": nm, "case": small, "result": r2}
                break
            return {"check": nm, "case": c, "result": r}
    return None
