import argparse
import os
import sys
import warnings

warnings.filterwarnings("ignore")

from harness.common import main_check  # noqa: E402


def main():
    ap = argparse.ArgumentParser()
    ap.add_argument("pid")
    ap.add_argument("tier", choices=["quick", "thorough"])
    ap.add_argument("--replay")
    a = ap.parse_args()
    seed = int(os.environ.get("VERIF_SEED", "0"))
    tier = os.environ.get("VERIF_TIER", a.tier) if a.tier is None else a.tier
    sys.exit(main_check(a.pid.upper(), tier, seed, a.replay))


if __name__ == "__main__":
    main()
